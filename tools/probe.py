import sys, importlib, time
sys.path.insert(0, '/verif')
import z3
from pyvc import extract
from pyvc.execute import Executor
from pyvc.engine import Contract
from pyvc.execute import make_engine
eng, cons, nodes, shas, errs = make_engine(sys.argv[1])
q = [q for q in cons if sys.argv[2] in q][0]
t0=time.time()
obls, _ = eng.generate(q, nodes[q])
print('gen', time.time()-t0)
pat = sys.argv[3]
for o in obls:
    if pat in o.name:
        for cfg in ({}, {'smt.mbqi': False}, {'smt.mbqi': False, 'smt.auto_config': False}):
            s = z3.Solver()
            s.set('timeout', int(sys.argv[4]) if len(sys.argv) > 4 else 20000)
            for k, v in cfg.items():
                s.set(k, v)
            s.add(*o.hyps); s.add(z3.Not(o.goal))
            t0 = time.time(); r = s.check()
            print(o.name, cfg, r, f'{time.time()-t0:.1f}s', s.reason_unknown() if r == z3.unknown else '')
        # the same obligation through the SMT-LIB text (what the worker pool sees)
        for cfg in ({}, {'smt.mbqi': False, 'smt.auto_config': False}, {'smt.mbqi': False}):
            s = z3.Solver(); s.set('timeout', int(sys.argv[4]) if len(sys.argv) > 4 else 20000)
            for k, v in cfg.items(): s.set(k, v)
            s.from_string(o.smt2()); t0 = time.time(); r = s.check()
            print('  via smt2', cfg, r, f'{time.time()-t0:.1f}s')
