"""dev driver: python3-vt tools/dev.py <contracts module> [function substrings...]"""
import sys, importlib, time, traceback
sys.path.insert(0, '/verif')
from pyvc import extract, solve
from pyvc.execute import Executor
from pyvc.engine import Contract
from pyvc.expr import OutOfSubset

modname = sys.argv[1]
filt = [a for a in sys.argv[2:] if not a.startswith("-")]
from pyvc.execute import make_engine
eng, cons, nodes, shas, errs = make_engine(modname)
print(errs) if errs else None
allobl = []
for q in cons:
    if q not in nodes or cons[q].trusted:
        continue
    if filt and not any(f in q for f in filt):
        continue
    t0 = time.time()
    try:
        obls, npaths = eng.generate(q, nodes[q])
        print(f'{q}: {len(obls)} obligations, {npaths} exits, gen {time.time()-t0:.2f}s')
        allobl += obls
    except OutOfSubset as e:
        print(f'{q}: OUT OF SUBSET: {e}')
    except Exception:
        traceback.print_exc()
if (eng.lemmas or eng.inductive) and not filt:
    lo = eng.generate_lemmas(modname, eng.lemmas)
    print(f'lemmas: {len(lo)}')
    allobl += lo
t0 = time.time()
res = solve.discharge(allobl, timeout_ms=int(__import__('os').environ.get('TO', '10000')))
bad = 0
for o in allobl:
    r = res[o.name]
    ok = (r['verdict'] == o.expect) or (o.expect == 'notproved' and r['verdict'] != 'proved')
    if not ok:
        bad += 1
    if not ok or '-v' in sys.argv:
        print(('ok  ' if ok else 'BAD ') + f"{o.name}: {r['verdict']} (expect {o.expect}) {r['ms']}ms {r['backend']}")
        if not ok and r['verdict'] == 'refuted' and r['model']:
            print('    model:', {k: v for k, v in r['model'].items() if '!' not in k or k.split('!')[0] in ('span','min_len','max_len')})
print(f'{len(allobl)} obligations, {bad} bad, solve {time.time()-t0:.1f}s')
