"""setup self-test: tool chain present, every contract target extractable, repo importable. Installs nothing."""
import sys, os, subprocess, importlib
sys.path.insert(0, '/verif')
import z3
print('z3', z3.get_version_string())
p = subprocess.run(['/usr/bin/cvc5', '--version'], capture_output=True, text=True)
print(p.stdout.split('\n')[0])
from pyvc import extract
n = 0
for f in sorted(os.listdir('/verif/contracts')):
    if f.endswith('.py') and f not in ('__init__.py', 'frames.py', '_records.py'):
        m = importlib.import_module('contracts.' + f[:-3])
        for q, d in m.C.items():
            if not d.get('external'):
                extract.find(q); n += 1
print(n, 'contract targets found in', extract.REPO)
p = subprocess.run(['/venv/bin/python', '-W', 'ignore', '-c', 'import peptacular; print("peptacular import ok")'],
                   capture_output=True, text=True, env=dict(os.environ, PYTHONPATH=extract.REPO + '/src'))
print(p.stdout.strip() or p.stderr[-300:])
sys.exit(0 if p.returncode == 0 else 1)
