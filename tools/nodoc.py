"""print repo source files without docstrings, keeping original line numbers as comments"""
import ast, sys
for f in sys.argv[1:]:
    src = open(f).read(); t = ast.parse(src)
    for n in ast.walk(t):
        if isinstance(n, (ast.FunctionDef, ast.ClassDef, ast.Module)) and n.body and isinstance(n.body[0], ast.Expr) \
                and isinstance(getattr(n.body[0], 'value', None), ast.Constant) and isinstance(n.body[0].value.value, str):
            n.body = n.body[1:] or [ast.Pass()]
    print('#' * 20, f)
    for n in t.body:
        if isinstance(n, (ast.FunctionDef, ast.ClassDef)):
            print(f'# L{n.lineno}')
            if isinstance(n, ast.ClassDef):
                for m in n.body:
                    if isinstance(m, ast.FunctionDef):
                        pass
        print(ast.unparse(n))
