#!/bin/bash
# tools/mutb.sh <patch> <ID> [tier]: bounded tier only, against a patched scratch copy
P=$(realpath "$1"); D=$(mktemp -d /tmp/mutb.XXXXXX)
rsync -a --exclude .git --exclude docs --exclude gen_data /repo/ $D/
(cd $D && patch -p1 -s < "$P") || { echo patch failed; rm -rf $D; exit 9; }
PYVC_REPO=$D /verif/tools/runb.sh $2 ${3:-quick} 2>&1 | grep -v "^real\|^user\|^sys" | cut -c1-260 | head -${LINES_MAX:-14}
rm -rf $D
