"""tools/keep_seed.py <seed src dir> <name e.g. C17-m1> <property> <detected_by> <needs...>: copy a verified seed under /verif/seeded/"""
import sys, os, shutil, json, subprocess
src, name, prop, detected = sys.argv[1:5]
needs = ' '.join(sys.argv[5:])
dst = f'/verif/seeded/{name}'
os.makedirs(dst, exist_ok=True)
patch = os.path.join(src, 'patch.rebased.diff') if os.path.exists(os.path.join(src, 'patch.rebased.diff')) else os.path.join(src, 'patch.diff')
shutil.copy(patch, os.path.join(dst, 'patch.diff'))
shutil.copy(os.path.join(src, 'demo.py'), os.path.join(dst, 'demo.py'))
notes = open(os.path.join(src, 'notes.txt')).read() if os.path.exists(os.path.join(src, 'notes.txt')) else ''
head = subprocess.run(['git', '-C', '/repo', 'rev-parse', '--short', 'HEAD'], capture_output=True, text=True).stdout.strip()
json.dump(dict(property=prop, needs_to_manifest=needs, author_notes=notes, applies_to_repo_head=head,
               verified_by='tools/verify_seed.sh: 111 tests pass with the patch; demo fails with it and passes without',
               ran=f'tools/mutest.sh seeded/{name}/patch.diff {prop}', detected_by=detected),
          open(os.path.join(dst, 'meta.json'), 'w'), indent=1)
print('kept', dst)
