"""proof-stability probe: every obligation of a contract module is re-decided by fresh z3 processes under several random seeds;
obligations that are not proved under every seed are listed (candidates for a more robust contract / fewer hypotheses).
usage: python3-vt tools/stability.py <module> [seeds=4] [timeout_ms=10000]"""
import sys, os, subprocess, tempfile, time
sys.path.insert(0, '/verif')
from concurrent.futures import ProcessPoolExecutor
from pyvc.execute import make_engine
from pyvc.expr import OutOfSubset


def run(args):
    name, text, seed, to = args[:4]
    extra = list(args[4]) if len(args) > 4 else []
    with tempfile.NamedTemporaryFile('w', suffix='.smt2', delete=False) as f:
        f.write(text if '(check-sat)' in text else text + '\n(check-sat)\n')
        path = f.name
    try:
        p = subprocess.run(['/usr/local/bin/z3-new', f'-t:{to}', f'-T:{to // 1000 + 5}', f'smt.random_seed={seed}', f'sat.random_seed={seed}'] + extra + [path],
                           capture_output=True, text=True, timeout=to / 1000 + 15)
        r = p.stdout.strip().split('\n')[0] if p.stdout.strip() else 'unknown'
    except Exception:
        r = 'unknown'
    finally:
        os.unlink(path)
    return name, seed, r


if __name__ == '__main__':
    mod = sys.argv[1]
    seeds = int(sys.argv[2]) if len(sys.argv) > 2 else 4
    to = int(sys.argv[3]) if len(sys.argv) > 3 else 10000
    eng, cons, nodes, shas, errs = make_engine(mod)
    obls = []
    for q, c in cons.items():
        if q in nodes and not c.trusted:
            try:
                o, _ = eng.generate(q, nodes[q])
                obls += o
            except OutOfSubset as e:
                print('out of subset', q, e)
    if eng.lemmas or eng.inductive:
        obls += eng.generate_lemmas(mod, eng.lemmas)
    main = [o for o in obls if o.expect == 'proved']
    jobs = [(o.name, o.smt2(), s, to) for o in main for s in range(seeds)]
    res = {}
    with ProcessPoolExecutor(max_workers=14) as ex:
        for name, seed, r in ex.map(run, jobs, chunksize=4):
            res.setdefault(name, {})[seed] = r
    bad = {n: v for n, v in res.items() if any(x != 'unsat' for x in v.values())}
    print(f'{mod}: {len(main)} obligations x {seeds} seeds; not proved under every seed: {len(bad)}')
    texts = {o.name: o.smt2() for o in main}
    for n, v in sorted(bad.items()):
        print('  ', n, ' '.join(f'{s}:{r}' for s, r in sorted(v.items())))
        # the other configurations of the check's portfolio, same seeds
        for label, extra in (('ematch', ('smt.mbqi=false', 'smt.auto_config=false')), ('nombqi', ('smt.mbqi=false',)),
                             ('cs3', ('smt.mbqi=false', 'smt.auto_config=false', 'smt.case_split=3'))):
            with ProcessPoolExecutor(max_workers=8) as ex:
                rs = [r for _, _, r in ex.map(run, [(n, texts[n], s_, to, extra) for s_ in range(seeds)])]
            print('        ', label, ' '.join(rs))
        t = texts[n]
        if '(set-logic' not in t:
            t = '(set-logic ALL)\n' + t
        if '(check-sat)' not in t:
            t += '\n(check-sat)\n'
        with tempfile.NamedTemporaryFile('w', suffix='.smt2', delete=False) as f:
            f.write(t)
            path = f.name
        t0 = time.time()
        try:
            p = subprocess.run(['/usr/bin/cvc5', '--strings-exp', '--tlimit=60000', path], capture_output=True, text=True, timeout=75)
            r = p.stdout.strip().split('\n')[0] if p.stdout.strip() else 'unknown'
        except Exception:
            r = 'unknown'
        os.unlink(path)
        print('         cvc5', r, f'{time.time() - t0:.1f}s')
