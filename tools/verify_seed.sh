#!/bin/sh
# tools/verify_seed.sh <seed dir with patch.diff+demo.py> : confirm (a) 111 tests pass with patch, (b) demo fails with it, (c) demo passes without
S=$(realpath "$1"); D=/tmp/wt-vs.$$
PATCH=$S/patch.diff; [ -f $S/patch.rebased.diff ] && PATCH=$S/patch.rebased.diff
git -C /repo worktree add -q --detach $D HEAD || exit 9
cd $D
PYTHONPATH=$D/src /venv/bin/python $S/demo.py >/dev/null 2>&1; c=$?
git apply "$PATCH" || { echo "APPLY FAILED"; cd /; git -C /repo worktree remove --force $D; exit 8; }
t=$(PYTHONPATH=$D/src /venv/bin/python -m pytest -q -p no:cacheprovider --timeout=900 2>&1 | tail -1)
PYTHONPATH=$D/src /venv/bin/python $S/demo.py >/dev/null 2>&1; b=$?
cd /; git -C /repo worktree remove --force $D
echo "tests: $t | demo with patch rc=$b | demo pristine rc=$c"
case "$t" in *"111 passed"*) ;; *) exit 1;; esac
[ $b -ne 0 ] && [ $c -eq 0 ]
