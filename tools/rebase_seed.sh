#!/bin/sh
# tools/rebase_seed.sh <patch.diff> <out.diff>: re-create a seed patch against /repo's current HEAD (3-way)
P=$(realpath "$1"); O=$(realpath -m "$2")
D=/tmp/wt-rebase.$$
git -C /repo worktree add -q --detach $D HEAD || exit 9
(cd $D && git apply --3way "$P" >/dev/null 2>&1; git diff HEAD > "$O"; grep -c '^<<<<<<<' -r src >/dev/null 2>&1)
if grep -q '^+<<<<<<<' "$O"; then echo "CONFLICT in rebase"; rc=1; else rc=0; fi
git -C /repo worktree remove --force $D
exit $rc
