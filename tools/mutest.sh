#!/bin/sh
# tools/mutest.sh <patch> <ID> [tier]: run a check against a scratch copy of /repo with the patch applied
P=$(realpath "$1"); ID=$2; TIER=${3:-quick}
D=$(mktemp -d /tmp/mut.XXXXXX)
mkdir -p $D/repo $D/out
rsync -a --exclude .git --exclude docs --exclude gen_data /repo/ $D/repo/
(cd $D/repo && patch -p1 -s < "$P") || { echo "patch failed"; rm -rf $D; exit 9; }
PYVC_REPO=$D/repo PYVC_OUT=$D/out /verif/check $ID --tier $TIER | grep -v "^KNOWN" ; rc=$?
ls $D/out/replays/$ID 2>/dev/null | head -3
for f in $(ls $D/out/replays/$ID/* 2>/dev/null | head -1); do head -c 900 $f; echo; done
rm -rf $D
exit $rc
