import sys; sys.path.insert(0, '/verif')
import os
from pyvc import frame
from contracts import frames
repo = frame.Repo(os.environ.get('PYVC_REPO', '/repo'), frames.MODULES, frames.EXPLICIT)
quals = [q for q in repo.funcs if not sys.argv[1:] or any(a in q for a in sys.argv[1:])]
res = frame.check_module_functions(repo, quals)
bad = [o for o in res.obligations if not o['ok']]
print(len(quals), 'functions,', len(res.obligations), 'frame obligations,', len(bad), 'not discharged')
for o in bad:
    print('  FAIL', o['name'], '|', o['why'][:160])
print('unresolved calls:', sorted(res.unresolved)[:60])
