"""regenerate MANIFEST.json from props/*.py (SPEC dicts) -- keeps the manifest valid and in sync"""
import json, os, sys, importlib
sys.path.insert(0, '/verif')
ALL = [f'C{i:02d}' for i in range(1, 21)]
checks, na = [], []
for pid in ALL:
    if not os.path.exists(f'/verif/props/{pid}.py'):
        na.append(dict(property_id=pid, reason='no check registered yet in this revision: contracts for this property are '
                                               'planned in DESIGN.md section 6 but not yet built; not claimed until they run'))
        continue
    spec = importlib.import_module('props.' + pid).SPEC
    if spec.get('not_applicable'):
        na.append(dict(property_id=pid, reason=spec['not_applicable']))
        continue
    checks.append(dict(
        property_id=pid,
        quick_cmd=f'./check {pid} --tier quick',
        thorough_cmd=f'./check {pid} --tier thorough',
        evidence_file=f'evidence/{pid}.json',
        replay_cmd_template=f'./check {pid} --replay {{path}}',
        engine='pyvc',
        level_claimed=dict(category=spec.get('level', 'proof'), text=spec['level_text'], design_ref=spec.get('design_ref', 'DESIGN.md section 6')),
        level_note=spec['level_note'],
        technique=spec.get('technique', 'contract-based deductive verification: VCs generated from the real AST, discharged by z3/cvc5; '
                                        'bounded run-time contract check as labelled stand-in'),
    ))
man = dict(
    version=1,
    setup_cmd='python3-vt tools/selftest.py',
    hooks=dict(guard='PEPTACULAR_VERIF', enable='no hooks: contracts are sidecar files, the real source is re-read with ast on every run',
               baseline_off_cmd='cd /repo && /venv/bin/python -m pytest -ra -q -p no:cacheprovider --timeout=900 --continue-on-collection-errors',
               source_commits=[], add_only=True),
    engines=[dict(name='pyvc', path='pyvc/', serves_properties=[c['property_id'] for c in checks],
                  kind_free_text='own deductive verifier for a Python subset: path-wise weakest-precondition VC generation from the real '
                                 'function ASTs against sidecar contracts (requires/ensures/raises/loop invariants/ghost state), modular calls, '
                                 'z3 + cvc5 back ends; plus ground obligations over the real constant tables and labelled bounded stand-ins')],
    checks=checks,
    not_applicable=na,
    notes='exit codes: 0 held, 1 violation (VIOLATION line + replay file), 2 undecided (never reported as violation), 3 checker error. '
          'known findings: known_findings.json (never written at run time).',
)
json.dump(man, open('/verif/MANIFEST.json', 'w'), indent=1)
import jsonschema
jsonschema.validate(man, json.load(open('/root/.vp/MANIFEST.schema.json')))
print('MANIFEST ok:', len(checks), 'checks,', len(na), 'not applicable')
