#!/bin/bash
# tools/runb.sh <ID> [tier]: run a bounded script directly and summarise
ID=$1; T=${2:-quick}
export PYTHONPATH=${PYVC_REPO:-/repo}/src; time /venv/bin/python /verif/bounded/$ID.py --tier $T --out /tmp/b_$ID.json || exit 1
python3 - <<PY
import json; d=json.load(open('/tmp/b_$ID.json')); v=d.pop('violations'); print({k:d[k] for k in ('evaluations','distinct_nontrivial','per_clause')})
for x in v[:25]: print(x['clause'], '|', x['finding_key'], '|', json.dumps(x['input'])[:260], '\n   exp', str(x['expected'])[:220], '\n   obs', str(x['observed'])[:220])
print(len(v), 'violations')
PY
