"""(re)write /verif/ledger.json: keys of the obligations PROVED on the current tree + sha256 of each function's source.
Run by hand on the unchanged tree only; checks never write the ledger."""
import sys, os, json, importlib
sys.path.insert(0, '/verif')
from pyvc import extract, solve
from pyvc.execute import Executor
from pyvc.engine import Contract
from pyvc.runner import key_of
ledger = {}
mods = [a for a in sys.argv[1:] if a != 'frames'] or ([] if sys.argv[1:] else sorted(f[:-3] for f in os.listdir('/verif/contracts') if f.endswith('.py') and f not in ('__init__.py', 'frames.py', '_records.py')))
for modname in mods:
    from pyvc.execute import make_engine
    eng, cons, nodes, shas, errs = make_engine(modname)
    obls = []
    for q, c in cons.items():
        if q in nodes and not c.trusted:
            o, _ = eng.generate(q, nodes[q]); obls += o
    if eng.lemmas or eng.inductive:
        obls += eng.generate_lemmas(modname, eng.lemmas)
    main = [o for o in obls if o.expect == 'proved']
    res = solve.discharge(main, timeout_ms=30000)
    for o in main:
        k = key_of(o.name)
        ok = res[o.name]['verdict'] == 'proved'
        e = ledger.setdefault(k, dict(sha=shas[o.fn], fn=o.fn, proved=True, n=0))
        e['n'] += 1
        e['proved'] = e['proved'] and ok
    print(modname, len(main), 'obligations')
if not sys.argv[1:] or 'frames' in sys.argv[1:]:
    from pyvc import frame
    from contracts import frames
    repo = frame.Repo('/repo', frames.MODULES, frames.EXPLICIT)
    fr = frame.check_module_functions(repo, list(repo.funcs))
    for o in fr.obligations:
        k = key_of(o['name'])
        e = ledger.setdefault(k, dict(sha='frame', fn=o['fn'], proved=True, n=0))
        e['n'] += 1
        e['proved'] = e['proved'] and o['ok']
    print('frames', len(fr.obligations), 'obligations')
old = {}
if os.path.exists('/verif/ledger.json'):
    old = json.load(open('/verif/ledger.json'))
if sys.argv[1:]:
    # partial update: keep the entries of other modules
    # (deductive entries of a regenerated function are replaced; frame entries are replaced only by a `frames` run)
    fns = {e['fn'] for e in ledger.values() if e['sha'] != 'frame'}
    redo_frames = 'frames' in sys.argv[1:]
    for k, e in old.items():
        if k in ledger:
            continue
        if e['sha'] == 'frame':
            if not redo_frames:
                ledger[k] = e
        elif e['fn'] not in fns:
            ledger[k] = e
ledger = {k: v for k, v in ledger.items() if v['proved']}
json.dump(ledger, open('/verif/ledger.json', 'w'), indent=1, sort_keys=True)
print(len(ledger), 'proved obligation keys in ledger')
