#!/bin/sh
# tools/mutdev.sh <patch> <contracts module> [filter]: deductive tier only against a patched scratch copy
P=$(realpath "$1"); D=$(mktemp -d /tmp/mutd.XXXXXX)
mkdir -p $D/repo; rsync -a --exclude .git --exclude docs --exclude gen_data /repo/ $D/repo/
(cd $D/repo && patch -p1 -s < "$P") || { echo patch failed; rm -rf $D; exit 9; }
cd /verif && PYVC_REPO=$D/repo TO=${TO:-10000} python3-vt tools/dev.py $2 $3 2>&1 | grep -E "BAD|obligations,|SUBSET|Error" | cut -c1-220
rm -rf $D
