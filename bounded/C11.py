"""Bounded stand-in + replay finder for C11 (reverse / shift / shuffle / sort / slice / split move modifications with
their residues).  Oracles are written over the abstract view (bounded/amodel.py).  Labelled bounded."""
import json
import os
import sys
import warnings
warnings.simplefilter('ignore')
sys.path.insert(0, os.path.dirname(os.path.abspath(__file__)))
from common import Recorder, args, replay_main
from amodel import view, globals_of, annotations

import peptacular as pt
from peptacular.proforma.proforma_parser import parse


def mk(inp):
    """the annotation of a case: parsed text, optionally followed by earlier operations (multi-step histories)"""
    a = parse(inp['text'])
    for op in inp.get('pre', []):
        if op == 'reverse':
            a = a.reverse()
        elif op == 'shift1':
            a = a.shift(1)
        elif op == 'shuffle':
            a = a.shuffle(3)
    return a


def safe_mass(a):
    try:
        return round(pt.mass(a.copy(), monoisotopic=True), 6)
    except Exception as e:  # noqa
        return 'mass-error:' + type(e).__name__


def both(a, name, *args_, **kw):
    """non-inplace result and in-place result of the same operation on copies"""
    r1 = getattr(a.copy(), name)(*args_, **kw)
    b = a.copy()
    r2 = getattr(b, name)(*args_, inplace=True, **kw)
    return r1, b, r2


def case_reverse(inp):
    a = parse(inp['text'])
    v = view(a)
    n = len(v['res'])
    swap = inp.get('swap', False)
    before = a.serialize()
    r, rin, ret = both(a, 'reverse', swap_terms=swap)
    w = view(r)
    exp = dict(v)
    exp['res'] = list(reversed(v['res']))
    exp['intervals'] = sorted((tuple(sorted(n - 1 - i for i in idx)), amb, m) for idx, amb, m in v['intervals'])
    if swap:
        exp['nterm'], exp['cterm'] = v['cterm'], v['nterm']
    if w != exp:
        return False, exp, w, None
    if view(rin) != exp or ret is not None:
        return False, ('inplace gives the same', exp), view(rin), None
    if a.serialize() != before:
        return False, 'argument unchanged', a.serialize(), None
    rr = r.reverse(swap_terms=swap)
    if not (rr == a and view(rr) == v):
        return False, ('reverse twice is the identity', v), view(rr), None
    if safe_mass(r) != safe_mass(a):
        return False, ('mass unchanged', safe_mass(a)), safe_mass(r), None
    # the string-level wrapper: the reversed text denotes the reversed peptide, and reversing the text twice gives the text back
    try:
        t1 = r.serialize()
        back = view(parse(t1))
    except Exception as e:   # noqa
        return False, ('the reversed peptide has a text that parses', exp), repr(e)[:200], None
    if back != exp:
        return False, ('the text of the reversed peptide denotes it', exp), (t1, back), None
    t2 = parse(t1).reverse(swap_terms=swap).serialize()
    if t2 != before:
        return False, ('reversing the text twice gives the text back', before), t2, None
    return True, None, None, ('rev', n, bool(v['intervals']), swap, len([1 for _, m in v['res'] if m]))


def fk_reverse(inp, exp, obs):
    return None


def case_shift(inp):
    a = parse(inp['text'])
    k = inp['k']
    v = view(a)
    n = len(v['res'])
    r, rin, ret = both(a, 'shift', k)
    w = view(r)
    res = [None] * n
    for p in range(n):
        res[(p - k) % n] = v['res'][p]
    for key in ('nterm', 'cterm') + tuple(globals_of(v)):
        if w[key] != v[key]:
            return False, (key, v[key]), w[key], None
    if w['res'] != res:
        return False, res, w['res'], None
    if w['stray_mod_keys']:
        return False, 'no stray modification keys', w['stray_mod_keys'], None
    # intervals that do not wrap around the end keep their residues
    moved = []
    for idx, amb, m in v['intervals']:
        if not idx:
            continue
        ns = (idx[0] - k) % n
        if ns + len(idx) <= n:
            moved.append((tuple(range(ns, ns + len(idx))), amb, m))
    for iv in moved:
        if iv not in w['intervals']:
            return False, ('non-wrapping interval keeps its residues', iv), w['intervals'], None
    if view(rin) != w or ret is not None:
        return False, ('inplace gives the same', w), view(rin), None
    back = r.shift(-k)
    if not (back == a and view(back) == v):
        return False, ('shift k then -k is the identity', v['intervals']), view(back)['intervals'], None
    if k % n == 0 and not (r == a and w == v):
        return False, ('shift by a multiple of the length is the identity', v), w, None
    if safe_mass(r) != safe_mass(a):
        return False, ('mass unchanged', safe_mass(a)), safe_mass(r), None
    return True, None, None, ('shift', n, k % n, bool(v['intervals']))


def case_shuffle_sort(inp):
    a = parse(inp['text'])
    v = view(a)
    out = []
    r1, rin, ret = both(a, 'shuffle', inp['seed'])
    r2 = a.copy().sort_residues()
    b = a.copy()
    b.sort_residues(inplace=True)
    for name, r, ri in (('shuffle', r1, rin), ('sort', r2, b)):
        w = view(r)
        if sorted(w['res']) != sorted(v['res']):
            return False, (name, 'same multiset of modified residues', sorted(v['res'])), sorted(w['res']), None
        for key in ('nterm', 'cterm') + tuple(globals_of(v)):
            if w[key] != v[key]:
                return False, (name, key, v[key]), w[key], None
        if view(ri)['res'] != w['res']:
            return False, (name, 'inplace gives the same', w['res']), view(ri)['res'], None
        if w['stray_mod_keys']:
            return False, (name, 'no stray keys'), w['stray_mod_keys'], None
        if safe_mass(r) != safe_mass(a):
            return False, (name, 'mass unchanged', safe_mass(a)), safe_mass(r), None
    if [x for x, _ in view(r2)['res']] != sorted(x for x, _ in v['res']):
        return False, 'sorted residues', [x for x, _ in view(r2)['res']], None
    return True, None, None, ('perm', len(v['res']), tuple(x for x, _ in view(r1)['res']))


def o_slice(v, i, j):
    n = len(v['res'])
    exp = dict(v)
    exp['res'] = v['res'][i:j]
    exp['nterm'] = v['nterm'] if i == 0 else ()
    exp['cterm'] = v['cterm'] if j == n else ()
    ivs = []
    for idx, amb, m in v['intervals']:
        if idx and idx[0] >= i and idx[-1] < j:
            ivs.append((tuple(x - i for x in idx), amb, m))
    exp['intervals'] = sorted(ivs)
    return exp


def cuts_ok(v, i, j):
    """slice ends must not fall strictly inside an interval"""
    for idx, _, _ in v['intervals']:
        if not idx:
            continue
        for c in (i, j):
            if idx[0] < c <= idx[-1]:
                return False
    return True


def case_slice(inp):
    a = mk(inp)
    v = view(a)
    i, j = inp['i'], inp['j']
    before = a.serialize()
    r, rin, ret = both(a, 'slice', i, j)
    exp = o_slice(v, i, j)
    w = view(r)
    if w != exp:
        return False, exp, w, None
    if view(rin) != exp or ret is not None:
        return False, ('inplace gives the same', exp), view(rin), None
    if a.serialize() != before:
        return False, 'argument unchanged', a.serialize(), None
    if j > i:
        s = r.serialize()
        rp = parse(s)
        if not (rp == r):
            return False, ('non-empty slice re-parses to itself', s), rp.serialize(), None
    # composition: slice of a slice is the slice of the sum of offsets
    for (k, l) in inp.get('inner', []):
        if cuts_ok(exp, k, l) and cuts_ok(v, i + k, i + l):
            x = r.slice(k, l)
            y = a.slice(i + k, i + l)
            if view(x) != view(y):
                return False, ('slice composes', (i, j, k, l), view(y)), view(x), None
    return True, None, None, ('slice', len(v['res']), i, j, bool(v['intervals']))


def case_split(inp):
    a = mk(inp)
    v = view(a)
    pieces = list(a.copy().split())
    n = len(v['res'])
    if len(pieces) != n:
        return False, n, len(pieces), None
    res = []
    for p in pieces:
        pv = view(p)
        if len(pv['res']) != 1:
            return False, 'one residue per piece', pv['res'], None
        res.append(pv['res'][0])
    if res != v['res']:
        return False, ('concatenation reproduces the peptide', v['res']), res, None
    if view(pieces[0])['nterm'] != v['nterm'] or view(pieces[-1])['cterm'] != v['cterm']:
        return False, ('termini on the end pieces', v['nterm'], v['cterm']), (view(pieces[0])['nterm'], view(pieces[-1])['cterm']), None
    for q, p in enumerate(pieces):
        if q > 0 and view(p)['nterm'] or q < n - 1 and view(p)['cterm']:
            return False, 'inner pieces carry no terminal modification', (q, view(p)['nterm'], view(p)['cterm']), None
    return True, None, None, ('split', n, tuple(res)[:3])


def run(rec, tier, seed, only=None):
    want = lambda name: only is None or name in only or (only.split('.')[-1] in name)
    for text, a in annotations(tier, seed):
        v = view(a)
        n = len(v['res'])
        for swap in ((False, True) if want('reverse') else ()):
            inp = dict(text=text, swap=swap)
            rec.guarded('reverse', inp, lambda: case_reverse(inp), fk_generic)
        ks = sorted(set(list(range(-2 * n, 2 * n + 1)) if n <= 4 else [-2 * n, -n - 1, -n, -1, 0, 1, 2, n - 1, n, n + 1, 2 * n]))
        for k in (ks if want('shift') else ()):
            inp = dict(text=text, k=k)
            rec.guarded('shift', inp, lambda: case_shift(inp), fk_shift)
        for sd in ((0, 7) if only is None else ()):
            inp = dict(text=text, seed=sd)
            rec.guarded('shuffle-sort', inp, lambda: case_shuffle_sort(inp), fk_generic)
        pairs = [(i, j) for i in range(n + 1) for j in range(i, n + 1)] if n <= 5 else \
            [(0, n), (0, 1), (n - 1, n), (1, n - 1), (2, 5), (0, 0), (n, n), (3, n)]
        for i, j in (pairs if want('slice') else ()):
            if not cuts_ok(v, i, j):
                continue
            inner = [(k, l) for k in range(j - i + 1) for l in range(k, j - i + 1)][:6]
            inp = dict(text=text, i=i, j=j, inner=inner)
            rec.guarded('slice', inp, lambda: case_slice(inp), fk_generic)
        # multi-step histories: slice / split after an earlier reordering (the annotation's internal order differs from a parsed one)
        if not v['intervals'] and n >= 2 and want('slice'):
            for pre in (['reverse'], ['shift1'], ['shuffle']):
                for i, j in ((0, 1), (n - 1, n), (0, n), (1, n)):
                    inp = dict(text=text, pre=pre, i=i, j=j, inner=[(0, j - i)])
                    rec.guarded('slice', inp, lambda: case_slice(inp), fk_generic)
                if only is None:
                    inp = dict(text=text, pre=pre)
                    rec.guarded('split', inp, lambda: case_split(inp), fk_generic)
        if only is not None:
            continue
        inp = dict(text=text)
        rec.guarded('split', inp, lambda: case_split(inp), fk_generic)


def fk_generic(inp, exp, obs):
    return None


def fk_shift(inp, exp, obs):
    # known: an interval that wraps around the end under the shift cannot be represented; start/end are swapped, so the
    # shift is not undone by the opposite shift
    if isinstance(exp, (list, tuple)) and exp and exp[0] == 'shift k then -k is the identity':
        v = view(parse(inp['text']))
        n = len(v['res'])
        for idx, _, _ in v['intervals']:
            if idx and (idx[0] - inp['k']) % n + len(idx) > n:
                return 'C11-shift-wrapping-interval'
    return None


REPLAY = {'reverse': case_reverse, 'shift': case_shift, 'shuffle-sort': case_shuffle_sort, 'slice': case_slice, 'split': case_split}


def main():
    a = args()
    if a.replay:
        replay_main(a, REPLAY)
    rec = Recorder('C11-bounded',
                   'grammar-directed family of annotations (every modification kind; intervals at start / middle / end / adjacent) + seeded '
                   'random ones; every shift in [-2n,2n] (n<=4), both swap_terms, two seeds, every 0<=i<=j<=n whose ends are not strictly '
                   'inside an interval, inner slices for composition; compared with the abstract view; non-trivial = distinct '
                   '(operation, length, parameters, has-intervals)',
                   bound='structured annotations of length <=4 (quick) / <=5 (thorough); random ones to length 12/25')
    run(rec, a.tier, a.seed, a.only)
    rec.dump(a.out)


if __name__ == '__main__':
    main()
