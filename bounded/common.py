"""shared helpers of the bounded stand-ins (run under /venv/bin/python with PYTHONPATH=<repo>/src).
A bounded stand-in evaluates the property's clause, written as an independent oracle, on the REAL functions over an
explicitly stated finite input space.  Labelled bounded in evidence; never counted as proved."""
import argparse
import json
import sys
import traceback


CASE_TIMEOUT_S = 60


class _CaseTimeout(BaseException):
    pass


class Recorder:
    def __init__(self, name, rule, bound):
        self.name = name
        self.rule = rule
        self.bound = bound
        self.evaluations = 0
        self.nontrivial = set()
        self.violations = []
        self.samples = []
        self.per_clause = {}
        self.max_viol = 120
        self.hangs = 0            # cases that did not come back; after 12 of them the remaining cases of the run are skipped

    def case(self, clause, ok, inp, expected=None, observed=None, nontrivial_key=None, finding_key=None):
        if not ok and 'no result' in str(observed):
            self.hangs += 1
        self.evaluations += 1
        self.per_clause[clause] = self.per_clause.get(clause, 0) + 1
        if nontrivial_key is not None:
            self.nontrivial.add(nontrivial_key)
        if len(self.samples) < 6 and self.evaluations % 997 == 1:
            self.samples.append(dict(clause=clause, input=_j(inp), ok=bool(ok)))
        if not ok:
            # keep at most a few violations per (clause, finding_key)
            same = [v for v in self.violations if v['clause'] == clause and v.get('finding_key') == finding_key]
            if len(same) < (1 if str(finding_key).startswith('?') else 3) and len(self.violations) < self.max_viol:
                self.violations.append(dict(clause=clause, input=_j(inp), expected=_j(expected), observed=_j(observed),
                                            finding_key=finding_key))
        return ok

    def guarded(self, clause, inp, fn, finding_key_fn=None):
        """run fn() -> (ok, expected, observed, nontrivial_key); an unexpected exception is a violation of the clause"""
        if self.hangs >= 12:
            return True           # the run already has a dozen hanging cases to report: do not wait for thousands more
        # watchdog: a case that does not come back (a changed function that loops forever) is a violation of its clause, not a hung check
        import signal

        def _late(*_):
            raise _CaseTimeout()
        prev = None
        try:
            prev = signal.signal(signal.SIGALRM, _late)
            signal.setitimer(signal.ITIMER_REAL, CASE_TIMEOUT_S)
        except (ValueError, AttributeError):
            prev = None
        try:
            ok, exp, obs, ntk = fn()
        except _CaseTimeout:
            ok, exp, obs, ntk = False, 'a result', f'no result within {CASE_TIMEOUT_S} s (the call does not return)', None
        except Exception as e:  # noqa
            ok, exp, obs, ntk = False, 'no exception', f'{type(e).__name__}: {e}', None
        finally:
            try:
                signal.setitimer(signal.ITIMER_REAL, 0)
                if prev is not None:
                    signal.signal(signal.SIGALRM, prev)
            except (ValueError, AttributeError):
                pass
        fk = None
        if not ok and finding_key_fn:
            try:
                fk = finding_key_fn(inp, exp, obs)
            except Exception:
                fk = None
        return self.case(clause, ok, inp, exp, obs, ntk, fk)

    def state(self):
        return dict(evaluations=self.evaluations, nontrivial=self.nontrivial, violations=self.violations, per_clause=self.per_clause,
                    samples=self.samples)

    def absorb(self, st):
        """merge the state of a worker's Recorder (thorough tiers split their input space over processes)"""
        self.evaluations += st['evaluations']
        self.nontrivial |= st['nontrivial']
        for k, v in st['per_clause'].items():
            self.per_clause[k] = self.per_clause.get(k, 0) + v
        for s_ in st['samples']:
            if len(self.samples) < 6:
                self.samples.append(s_)
        for v in st['violations']:
            same = [w for w in self.violations if w['clause'] == v['clause'] and w.get('finding_key') == v.get('finding_key')]
            if len(same) < (1 if str(v.get('finding_key')).startswith('?') else 3) and len(self.violations) < self.max_viol:
                self.violations.append(v)

    def dump(self, path, exhaustive=True):
        d = dict(evaluations=self.evaluations, distinct_nontrivial=len(self.nontrivial), rule=self.rule,
                 bound=self.bound, exhaustive=exhaustive, per_clause=self.per_clause, samples=self.samples,
                 violations=self.violations, label='bounded')
        with open(path, 'w') as f:
            json.dump(d, f, default=str)


def _j(x):
    try:
        json.dumps(x)
        return x
    except Exception:
        return repr(x)


def args():
    ap = argparse.ArgumentParser()
    ap.add_argument('--tier', default='quick')
    ap.add_argument('--seed', type=int, default=0)
    ap.add_argument('--out', default=None)
    ap.add_argument('--only', default=None)
    ap.add_argument('--replay', default=None)
    ap.add_argument('--model-input', default=None)
    return ap.parse_args()


def replay_main(a, replayers):
    """replayers: clause -> function(input) -> (ok, expected, observed).  exit 1 if the violation reproduces"""
    rec = json.load(open(a.replay))
    clause = rec['clause']
    fn = replayers.get(clause) or replayers.get(clause.split(':')[0])
    if fn is None:
        print('no replayer for clause', clause)
        sys.exit(3)
    try:
        ok, exp, obs = fn(rec['input'])[:3]
    except Exception as e:
        ok, exp, obs = False, 'no exception', f'{type(e).__name__}: {e}'
    print(json.dumps(dict(clause=clause, input=rec['input'], expected=_j(exp), observed=_j(obs), reproduces=not ok),
                     default=str))
    sys.exit(0 if ok else 1)


def run_parallel(worker, jobs, procs=None):
    """worker(job) -> Recorder.state(); jobs are split over forked processes (the input space is the union of the jobs, stated in
    the bound); returns the states in job order.  Deterministic: the split does not depend on timing."""
    import multiprocessing as mp
    import os
    procs = procs or max(1, min(14, (os.cpu_count() or 2) - 2))
    if procs == 1 or len(jobs) <= 1:
        return [worker(j) for j in jobs]
    with mp.get_context('fork').Pool(procs) as pool:
        return pool.map(worker, jobs, chunksize=1)
