"""Bounded stand-in for C12: a global static rule == the explicit per-residue form; global isotope labels shift the mass by
(number of atoms of the element in residues and termini) x (isotope mass difference).  Oracle: the explicit form is BUILT from
the description (not by the library), and the label shift is computed from specs/nist.py compositions.  Labelled bounded."""
import itertools
import os
import random
import sys
import warnings
from fractions import Fraction as F
warnings.simplefilter('ignore')
sys.path.insert(0, os.path.dirname(os.path.abspath(__file__)))
sys.path.insert(0, os.path.dirname(os.path.dirname(os.path.abspath(__file__))))
from common import Recorder, args, replay_main
from specs import nist
from specs.refcalc import formula_comp

import peptacular as pt
from peptacular.proforma.proforma_parser import parse

MODS = ['10.5', 'Oxidation', 'Formula:C2H2O', 'Phospho']
LABELS = {'13C': ('C', 13), '15N': ('N', 15), '18O': ('O', 18), '17O': ('O', 17), '34S': ('S', 34), 'D': ('H', 2), '2H': ('H', 2)}


def explicit_form(seq, pre, rules):
    """pre: {index: [mod text]}; rules: [(targets, [mod text])] -> the text with every rule written out"""
    res = {i: list(v) for i, v in pre.items()}
    nterm, cterm = [], []
    for targets, mods in rules:
        for t in targets:
            if t == 'N-Term':
                nterm += mods
            elif t == 'C-Term':
                cterm += mods
            else:
                for i, aa in enumerate(seq):
                    if aa == t:
                        res.setdefault(i, [])
                        res[i] += mods
    s = ''.join('[' + m + ']' for m in nterm) + ('-' if nterm else '')
    for i, aa in enumerate(seq):
        s += aa + ''.join('[' + m + ']' for m in res.get(i, []))
    if cterm:
        s += '-' + ''.join('[' + m + ']' for m in cterm)
    return s


def global_form(seq, pre, rules):
    s = ''.join('<' + ''.join('[' + m + ']' for m in mods) + '@' + ','.join(targets) + '>' for targets, mods in rules)
    for i, aa in enumerate(seq):
        s += aa + ''.join('[' + m + ']' for m in pre.get(i, []))
    return s


def residues_view(text):
    a = parse(text)
    im = a.internal_mods or {}
    key = lambda ms: tuple(sorted(repr((m.val, m.mult)) for m in (ms or [])))
    return ([(aa, key(im.get(i))) for i, aa in enumerate(a.sequence)], key(a.nterm_mods), key(a.cterm_mods), a.static_mods)


def case_static(inp):
    seq, pre, rules = inp['seq'], {int(k): v for k, v in inp['pre'].items()}, [(t, m) for t, m in inp['rules']]
    g, e = global_form(seq, pre, rules), explicit_form(seq, pre, rules)
    for mono in (True, False):
        for ion in ('p', 'b', 'y', 'c', 'z'):
            mg, me = pt.mass(g, ion_type=ion, monoisotopic=mono, charge=1), pt.mass(e, ion_type=ion, monoisotopic=mono, charge=1)
            if abs(mg - me) > 1e-6:
                return False, ('mass of the rule form == mass of the explicit form', ion, mono, e, me), (g, mg), None
    cg, dg = pt.comp_mass(g)
    ce, de = pt.comp_mass(e)
    if {k: v for k, v in cg.items() if v} != {k: v for k, v in ce.items() if v} or abs(dg - de) > 1e-9:
        return False, ('composition of the rule form == composition of the explicit form', e, ce, de), (g, cg, dg), None
    # condensing the rule produces exactly the explicit form
    cond = parse(g).condense_static_mods()
    if residues_view(cond.serialize()) != residues_view(e) or cond.has_static_mods():
        return False, ('condensing the rule produces the explicit form', e), cond.serialize(), None
    if pt.condense_static_mods(g) != cond.serialize():
        return False, ('function form == method form', cond.serialize()), pt.condense_static_mods(g), None
    # modified-residue counts
    if pt.count_residues(g) != pt.count_residues(e):
        return False, ('modified-residue counts equal', dict(pt.count_residues(e))), dict(pt.count_residues(g)), None
    # fragment ions
    terminal_rule = any(t in ('N-Term', 'C-Term') for ts, _ in rules for t in ts)
    fg = [(f.ion_type, f.start, f.end, round(f.mass, 6)) for f in pt.fragment(g, ['b', 'y'], [1])]
    fe = [(f.ion_type, f.start, f.end, round(f.mass, 6)) for f in pt.fragment(e, ['b', 'y'], [1])]
    if fg != fe:
        inp['_terminal_rule'] = terminal_rule
        bad = [(x, y) for x, y in zip(fg, fe) if x != y][:3]
        return False, ('fragment ions of the rule form == those of the explicit form', [b[1] for b in bad]), [b[0] for b in bad], None
    return True, None, None, ('static', g[:20])


def fk_static(inp, exp, obs):
    if 'fragment ions' in str(exp) and inp.get('_terminal_rule'):
        return 'C12-terminal-rule-in-fragment-components'
    return '?' + str(exp)[:40]


def atoms_of(seq, nterm_comp=None):
    comp = dict(nist.WATER)
    for aa in seq:
        for k, v in nist.RESIDUES[aa].items():
            comp[k] = comp.get(k, 0) + v
    return comp


def case_label(inp):
    seq, labels, mod, on_mods = inp['seq'], inp['labels'], inp['mod'], inp['use_isotope_on_mods']
    body = seq[:1] + (('[' + mod + ']') if mod else '') + seq[1:]
    text = ''.join('<' + l + '>' for l in labels) + body
    base = pt.mass(body, monoisotopic=True)
    got = pt.mass(text, monoisotopic=True, use_isotope_on_mods=on_mods)
    comp = atoms_of(seq)
    if on_mods and mod and mod.startswith('Formula:'):
        for k, v in formula_comp(mod[8:]).items():
            comp[k] = comp.get(k, 0) + v
    shift = F(0)
    seen = set()
    for l in labels:
        el, a = LABELS[l]
        if el in seen:
            continue
        seen.add(el)
        shift += comp.get(el, 0) * (nist.isotope_mass(el, a) - nist.mono(el))
    ok = abs(F(*float(got).as_integer_ratio()) - (F(*float(base).as_integer_ratio()) + shift)) <= F('1e-5')
    return ok, ('labelled mass == unlabelled mass + atoms x isotope mass difference', float(F(*float(base).as_integer_ratio()) + shift)), got, \
        ('label', tuple(labels), seq, mod, on_mods)


def fk_label(inp, exp, obs):
    return '?' + ','.join(inp['labels'])


def run(rec, tier, seed):
    rnd = random.Random(seed)
    seqs = ['PEPTIDE', 'SESK', 'K', 'MCKCM', 'TTTT']
    for seq in seqs:
        letters = sorted(set(seq))
        rule_sets = []
        for m in MODS:
            rule_sets.append([([letters[0]], [m])])
            rule_sets.append([(['N-Term'], [m])])
            rule_sets.append([(['C-Term', letters[-1]], [m])])
            rule_sets.append([([letters[0], letters[-1], 'N-Term'], [m, MODS[0]])])
        rule_sets.append([([letters[0]], [MODS[1]]), ([letters[-1]], [MODS[0]])])
        rule_sets.append([([letters[0], letters[-1]], [MODS[0]]), ([letters[0]], [MODS[2]])])      # later rule re-targets a residue
        rule_sets.append([(['N-Term'], [MODS[1]]), (['C-Term'], [MODS[2]]), ([letters[0]], [MODS[3]])])
        for rules in rule_sets:
            for pre in ({}, {0: ['1.5']}, {len(seq) - 1: ['Oxidation', '2.5']}):
                inp = dict(seq=seq, pre=pre, rules=rules)
                rec.guarded('static-rule-equals-explicit-form', inp, lambda: case_static(inp), fk_static)
    aa = 'ACDEFGHIKLMNPQRSTVWY'
    for _ in range(60 if tier == 'quick' else 1500):
        n = rnd.randint(1, 20)
        seq = ''.join(rnd.choice(aa[:8]) for _ in range(n))
        rules = []
        for _r in range(rnd.randint(1, 3)):
            targets = rnd.sample(sorted(set(seq)) + ['N-Term', 'C-Term'], rnd.randint(1, min(3, len(set(seq)) + 2)))
            rules.append((targets, rnd.sample(MODS, rnd.randint(1, 2))))
        pre = {i: [rnd.choice(MODS)] for i in range(n) if rnd.random() < 0.15}
        inp = dict(seq=seq, pre=pre, rules=rules)
        rec.guarded('static-rule-equals-explicit-form', inp, lambda: case_static(inp), fk_static)
    # isotope labels
    for seq in ['PEPTIDE', 'GG', 'MCK', 'AAAA', 'W']:
        for labels in [[l] for l in LABELS] + [['13C', '15N'], ['15N', 'D'], ['18O', '34S']]:
            for mod in ('', 'Formula:C2H3N', '10.5', 'Formula:[13C2]C4H2[15N1]N1'):
                for on_mods in (False, True):
                    if on_mods and mod == '10.5':
                        continue
                    inp = dict(seq=seq, labels=labels, mod=mod, use_isotope_on_mods=on_mods)
                    rec.guarded('isotope-label-shift', inp, lambda: case_label(inp), fk_label)


def main():
    a = args()
    if a.replay:
        replay_main(a, {'static-rule-equals-explicit-form': case_static, 'isotope-label-shift': case_label})
    rec = Recorder('C12-bounded',
                   'static rules with 1..3 targets among residues / N-Term / C-Term x 1..2 modifications (numeric, named, formula), several '
                   'rules at once incl. a later rule re-targeting a residue, residues already modified; rule form vs an independently built '
                   'explicit form: mass (p,b,y,c,z; both modes), composition + residual, condensation, residue counts, b/y fragments; labels '
                   '13C/15N/18O/17O/34S/D/2H and pairs x with/without use_isotope_on_mods against atoms x isotope mass difference from NIST',
                   bound='5 base sequences x 19 rule sets x 3 pre-modification layouts + 60 (quick) / 1500 (thorough) random; 5 sequences x 10 label sets x 5')
    run(rec, a.tier, a.seed)
    rec.dump(a.out, exhaustive=False)


if __name__ == '__main__':
    main()
