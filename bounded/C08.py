"""Bounded stand-in for C08 (queries never change their arguments or depend on call history).
For every call f in a table of ~70 public query functions / annotation methods and every generated shared object X:
  (a) argument-unchanged: a deep snapshot of every argument is the same before and after f(X)
  (b) no-shared-state: no mutable object reachable from the result is reachable from an argument (identity check)
  (c) history-independence: for every ordered pair (g, f): g(X); f(X) gives the same result as f on a fresh X
  (d) process-wide state: the random generator state and the modification databases are untouched
Labelled bounded."""
import copy
import itertools
import json
import os
import random
import sys
import warnings
warnings.simplefilter('ignore')
sys.path.insert(0, os.path.dirname(os.path.abspath(__file__)))
from common import Recorder, args, replay_main

import peptacular as pt
from peptacular.proforma.proforma_parser import parse, ProFormaAnnotation
from peptacular.proforma.proforma_dataclasses import Mod, Interval
from peptacular.fragmentation import Fragment, Fragmenter
import peptacular.score as sc
from peptacular.mods import mod_db_setup as mod_db


# ---------------------------------------------------------------- shared objects
ANNOTS = [
    'PEPTIDE',
    '{Glycan:Hex}[Acetyl]-PEM[Oxidation]TK-[Amidated]/2',
    '<13C><[Carbamidomethyl]@C>[Phospho]?[Acetyl]-PEC(TI)[1.5]DEK[Oxidation]-[Amidated]/2[+2Na+]',
    '{Glycan:Hex}{Glycan:HexNAc}PEPT[Phospho]IDEK/3',
    '<[+1.5]@N-Term,K>KPEPKTIDEK',
]


def canon(x, depth=0):
    """canonical, comparable form of a result / argument"""
    if isinstance(x, ProFormaAnnotation):
        return ('ANNOT', repr(x.dict()) if hasattr(x, 'dict') else repr(x))
    if isinstance(x, (Mod, Interval)):
        return repr(x)
    if isinstance(x, Fragment):
        return ('FRAG', repr({k: canon(v, depth + 1) for k, v in x.__dict__.items() if k not in ('label', 'number')}))
    if isinstance(x, dict):
        return ('DICT', tuple(sorted((repr(k), canon(v, depth + 1)) for k, v in x.items())))
    if isinstance(x, (list, tuple)):
        return (type(x).__name__, tuple(canon(v, depth + 1) for v in x))
    if isinstance(x, (set, frozenset)):
        return ('SET', tuple(sorted(repr(canon(v, depth + 1)) for v in x)))
    if hasattr(x, '__iter__') and not isinstance(x, (str, bytes)):
        return canon(list(x), depth)
    if isinstance(x, float):
        return ('F', repr(x))
    if hasattr(x, '__dict__') and not callable(x):
        return (type(x).__name__, canon(dict(x.__dict__), depth + 1))
    return repr(x)


MUTABLE = (list, dict, set, ProFormaAnnotation, Mod, Interval)


def reachable(x, acc=None):
    """ids of the mutable objects reachable from x"""
    acc = {} if acc is None else acc
    if isinstance(x, MUTABLE):
        if id(x) in acc:
            return acc
        acc[id(x)] = type(x).__name__
    if isinstance(x, dict):
        for k, v in x.items():
            reachable(v, acc)
    elif isinstance(x, (list, tuple, set, frozenset)):
        for v in x:
            reachable(v, acc)
    elif isinstance(x, (ProFormaAnnotation, Interval, Fragment, Fragmenter, sc.FragmentMatch)):
        for v in x.__dict__.values():
            reachable(v, acc)
    return acc


def force(r):
    if hasattr(r, '__next__'):
        return list(r)
    return r


def db_state():
    out = []
    for name in ('UNIMOD_DB', 'PSI_MOD_DB', 'XLMOD_DB', 'RESID_DB', 'GNO_DB', 'MONOSACCHARIDES_DB'):
        db = getattr(mod_db, name, None)
        if db is not None:
            out.append((name, len(db.id_map), len(db.name_map), len(db.synonym_map)))
    return out


# ---------------------------------------------------------------- the calls
def A_calls():
    """calls taking one shared annotation X (module functions and methods); (name, function)"""
    c = []
    add = lambda n, f: c.append((n, f))
    add('mass', lambda X: pt.mass(X))
    add('mass-avg-y', lambda X: pt.mass(X, monoisotopic=False, ion_type='y', charge=2))
    add('mz', lambda X: pt.mz(X, charge=2))
    add('comp', lambda X: pt.comp(X, estimate_delta=True))
    add('comp_mass', lambda X: pt.comp_mass(X))
    add('condense_to_mass_mods', lambda X: pt.condense_to_mass_mods(X))
    add('fragment', lambda X: pt.fragment(X, ['b', 'y'], [1, 2]))
    add('fragment-losses', lambda X: pt.fragment(X, ['b'], [1], water_loss=True, max_losses=2))
    add('fragment-mz', lambda X: pt.fragment(X, ['y'], [1], return_type='mz'))
    add('digest', lambda X: pt.digest(X, 'trypsin/P', missed_cleavages=1))
    add('digest-annot', lambda X: pt.digest(X, '(?<=E)', return_type='annotation-span', semi=True))
    add('left_semi', lambda X: pt.get_left_semi_enzymatic_sequences(X))
    add('non_enzymatic', lambda X: pt.get_non_enzymatic_sequences(X, max_len=2))
    add('get_mods', lambda X: pt.get_mods(X))
    add('strip_mods', lambda X: pt.strip_mods(X))
    add('f.reverse', lambda X: pt.reverse(X))
    add('f.shift', lambda X: pt.shift(X, 2))
    add('f.shuffle-seed', lambda X: pt.shuffle(X, seed=5))
    add('f.sort', lambda X: pt.sort(X))
    add('f.split', lambda X: pt.split(X))
    add('f.count_residues', lambda X: pt.count_residues(X))
    add('span_to_sequence', lambda X: pt.span_to_sequence(X, (0, 2, 0)))
    add('is_modified', lambda X: pt.is_modified(X))
    add('is_ambiguous', lambda X: pt.is_ambiguous(X))
    add('sequence_length', lambda X: pt.sequence_length(X))
    add('f.condense_static_mods', lambda X: pt.condense_static_mods(X))
    add('coverage', lambda X: pt.coverage(X, ['PE', 'K']))
    add('percent_coverage', lambda X: pt.percent_coverage(X, ['PE', 'K']))
    add('find_subsequence_indices', lambda X: pt.find_subsequence_indices(X, 'PE'))
    add('is_subsequence', lambda X: pt.is_subsequence('PE', X))
    add('is_subsequence-unordered', lambda X: pt.is_subsequence('EP', X, order=False))
    add('f.permutations', lambda X: pt.permutations(X, 2))
    add('f.combinations', lambda X: pt.combinations(X, 2))
    add('f.product', lambda X: pt.product(X, 1))
    add('f.combinations_wr', lambda X: pt.combinations_with_replacement(X, 2))
    add('apply_static_mods', lambda X: pt.apply_static_mods(X, {'P': ['Oxidation']}))
    add('apply_variable_mods', lambda X: pt.apply_variable_mods(X, {'E': [['Phospho']]}, 1))
    add('apply_variable_mods-none-allowed-annot', lambda X: pt.apply_variable_mods(X, {'E': [['Phospho']]}, 0, return_type='annotation'))
    add('apply_variable_mods-annot', lambda X: pt.apply_variable_mods(X, {'E': [['Phospho']]}, 1, nterm_mods=['Acetyl'], return_type='annotation'))
    add('apply_static_mods-no-match-annot', lambda X: pt.apply_static_mods(X, {'W': ['Oxidation']}, return_type='annotation'))
    add('count_aa', lambda X: pt.count_aa(X))
    add('is_sequence_valid', lambda X: pt.is_sequence_valid(X))
    add('serialize', lambda X: pt.serialize(X))
    # methods
    add('m.serialize', lambda X: X.serialize())
    add('m.serialize-plus', lambda X: X.serialize(include_plus=True))
    add('m.copy', lambda X: X.copy())
    add('m.dict', lambda X: X.dict())
    add('m.mod_dict', lambda X: X.mod_dict())
    add('m.strip', lambda X: X.strip())
    add('m.slice', lambda X: X.slice(0, 2))
    add('m.slice-end', lambda X: X.slice(1, None))
    add('m.shift', lambda X: X.shift(1))
    add('m.shuffle-seed', lambda X: X.shuffle(3))
    add('m.reverse', lambda X: X.reverse())
    add('m.reverse-swap', lambda X: X.reverse(swap_terms=True))
    add('m.sort_residues', lambda X: X.sort_residues())
    add('m.split', lambda X: X.split())
    add('m.count_residues', lambda X: X.count_residues())
    add('m.condense_static_mods', lambda X: X.condense_static_mods())
    add('m.is_subsequence', lambda X: parse('PE').is_subsequence(X))
    add('m.find_indices', lambda X: parse('PE').find_indices(X))
    add('m.permutations', lambda X: X.permutations(2))
    add('m.combinations', lambda X: X.combinations(2))
    add('m.product', lambda X: X.product(1))
    add('m.combinations_wr', lambda X: X.combinations_with_replacement(2))
    add('m.has_mods', lambda X: X.has_mods())
    add('m.count_modified_residues', lambda X: X.count_modified_residues())
    add('m.contains_sequence_ambiguity', lambda X: X.contains_sequence_ambiguity())
    add('m.eq', lambda X: X == X.copy())
    add('m.len', lambda X: len(X))
    add('Fragmenter', lambda X: Fragmenter(X, True).fragment(['b', 'y'], [1]))
    return c


def other_calls():
    """calls on other shared mutable arguments: (name, make_args, function(*args))"""
    c = []
    comp = lambda: {'C': 6, 'H': 12, 'O': 6, 'N': 0}
    c.append(('chem_mass', lambda: [comp()], lambda d: pt.chem_mass(d)))
    c.append(('write_chem_formula', lambda: [comp()], lambda d: pt.write_chem_formula(d, hill_order=True)))
    c.append(('isotopic_distribution', lambda: [comp()], lambda d: pt.isotopic_distribution(d, max_isotopes=4)))
    c.append(('isotopic_distribution-particles', lambda: [{'C': 2, 'H': 6, 'e': -1, 'p': 1}], lambda d: pt.isotopic_distribution(d, max_isotopes=3)))
    c.append(('apply_isotope_mods_to_composition', lambda: [comp(), ['13C']], lambda d, m: pt.apply_isotope_mods_to_composition(d, m)))
    c.append(('apply_isotope_mods_to_composition-str', lambda: ['C6H12O6', ['13C']], lambda d, m: pt.apply_isotope_mods_to_composition(d, m)))
    c.append(('parse_chem_formula', lambda: ['C6H12O6'], lambda s: pt.parse_chem_formula(s)))
    c.append(('mod_comp', lambda: ['Formula:C6H12O6'], lambda s: pt.mod_comp(s)))
    c.append(('mod_mass', lambda: [[Mod('Oxidation', 2), Mod(1.5, 1)]], lambda l: pt.mod_mass(l)))
    c.append(('glycan_comp', lambda: [{'Hex': 2, 'HexNAc': 1}], lambda d: pt.glycan_comp(d)))
    c.append(('fragment-custom-losses', lambda: ['PEPTSIDE', [('S', -18.01), ('[ST]', -97.98)]],
              lambda s, l: pt.fragment(s, ['b'], [1], losses=l, max_losses=2, return_type='mz')))
    c.append(('create_annotation', lambda: ['PEPTIDE', [Mod('Acetyl', 1)], {2: [Mod(1.5, 1)]}],
              lambda s, n, i: pt.create_annotation(s, nterm_mods=n, internal_mods=i)))
    c.append(('apply_static_mods-dict', lambda: ['PEPTIDE', {'P': ['Oxidation'], 'E': [Mod(1.5, 1)]}],
              lambda s, d: pt.apply_static_mods(s, d)))
    c.append(('apply_variable_mods-dict', lambda: ['PEPTIDE', {'P': [['Oxidation']], 'E': [[1.5]]}],
              lambda s, d: pt.apply_variable_mods(s, d, 2)))
    c.append(('add_mods-dict', lambda: ['PEPTIDE', {'nterm': 'Acetyl', 2: 1.5, 'cterm': [Mod('Amidated', 1)], 'intervals': [(0, 2, False, [1.0])],
                                                   'labile': ['Glycan:Hex'], 'isotope': '13C'}],
              lambda s, d: pt.add_mods(s, d)))
    c.append(('digest-rules', lambda: ['PEPKTIDERK', ['lys-c', 'arg-c']], lambda s, r: pt.digest(s, r)))
    c.append(('merge_isotopic_distributions', lambda: [[(100.0, 1.0), (101.0, 0.5)], [(100.0, 0.25)]],
              lambda a, b: pt.merge_isotopic_distributions(a, b)))

    def frags():
        return [Fragment(charge=1, ion_type='b', start=0, end=i + 1, monoisotopic=True, isotope=0, loss=0.0, parent_sequence='PEPT',
                         mass=m, neutral_mass=m, mz=m, sequence='PEPT'[:i + 1], unmod_sequence='PEPT'[:i + 1], internal=False)
                for i, m in enumerate([300.5, 100.0, 200.25])]
    c.append(('get_fragment_matches', lambda: [frags(), [200.25, 100.0, 150.0], [3.0, 1.0, 2.0]],
              lambda f, m, i: sc.get_fragment_matches(f, m, i, 0.1, 'th', 'all')))
    c.append(('binomial_score', lambda: [frags(), [100.0, 150.0, 200.25]], lambda f, m: sc.binomial_score(f, m, 0.1, 'th')))
    return c


def snap(args_):
    return [canon(a) for a in args_]


def check_call(name, make, f):
    """-> (ok, expected, observed) for clauses (a), (b), (d) on one call"""
    args1 = make()
    before = snap(args1)
    rs = random.getstate()
    dbs = db_state()
    try:
        r = force(f(*args1))
    except ValueError:
        r = None      # the call refuses this input (e.g. fragment() on an ambiguous sequence): it must still leave it unchanged
    after = snap(args1)
    if after != before:
        return False, ('argument-unchanged', before), after
    shared = set(reachable(r)) & set(reachable(args1))
    if shared:
        return False, 'no-shared-state: result shares no mutable object with an argument', \
            sorted(set(reachable(args1)[i] for i in shared))
    if random.getstate() != rs:
        return False, 'process-wide state: random generator untouched', 'random state changed'
    if db_state() != dbs:
        return False, 'process-wide state: modification databases untouched', db_state()
    return True, None, None


def fk(inp, exp, obs):
    n = inp.get('f') or inp.get('call')
    table = {
        'f.shuffle-seed': 'C08-shuffle-seed-global-rng', 'm.shuffle-seed': 'C08-shuffle-seed-global-rng',
    }
    if isinstance(obs, str) and 'random state' in obs and n in table:
        return table[n]
    return '?' + str(n)      # not a known finding: only groups the report per call


def run(rec, tier, seed, only=None):
    acalls = A_calls()
    ocalls = other_calls()
    if only:
        tok = only.split('.')[-1].lstrip('_')
        acalls = [(n, f) for n, f in acalls if tok in n]
        ocalls = [(n, m, f) for n, m, f in ocalls if tok in n]
    texts = ANNOTS if tier != 'quick' else ANNOTS[:4]
    # single calls: (a) (b) (d)
    for t in texts:
        for name, f in acalls:
            inp = dict(call=name, annotation=t)
            rec.guarded('single-call', inp, lambda: check_call(name, lambda: [parse(t)], f) + (('single', name),), fk)
    for name, make, f in ocalls:
        inp = dict(call=name)
        rec.guarded('single-call', inp, lambda: check_call(name, make, f) + (('single', name),), fk)
        # history: the same call twice on the same arguments, and after every other "other" call is pointless (different args)
        inp2 = dict(call=name, history='twice')
        rec.guarded('history-independence', inp2, lambda: twice(make, f) + (('twice', name),), fk)
    if only:
        return
    # ordered pairs of the calls on other arguments (fresh arguments each): coupling through process-wide state (caches, globals)
    fresh_o = {}
    for name, make, f in ocalls:
        try:
            fresh_o[name] = canon(force(f(*make())))
        except Exception as e:  # noqa
            fresh_o[name] = ('EXC', type(e).__name__)
    # the results must not depend on which calls the process made before: every call's result computed in two fresh
    # interpreters, once in table order and once in reverse table order (so each ordered pair (g before f) occurs in one of them)
    fwd, rev = order_run('fwd'), order_run('rev')
    for name in sorted(set(fwd) | set(rev)):
        inp = dict(call=name, history='process-order')
        rec.case('history-independence', fwd.get(name) == rev.get(name), inp, ('same result in both call orders', fwd.get(name)),
                 rev.get(name), nontrivial_key=('order', name), finding_key='?order:' + name)
    for (gn, gm, g), (fn, fm, f) in itertools.product(ocalls, ocalls):
        inp = dict(g_other=gn, f_other=fn)
        rec.guarded('history-independence', inp, lambda: opair(gm, g, fm, f, fresh_o[fn]) + (('opair', fn),), fk_pair)
    # ordered pairs on one shared annotation: (c)
    pairs_texts = texts[1:3] if tier == 'quick' else texts[1:]
    for t in pairs_texts:
        fresh = {}
        for name, f in acalls:
            try:
                fresh[name] = canon(force(f(parse(t))))
            except Exception as e:  # noqa
                fresh[name] = ('EXC', type(e).__name__)
        for (gn, g), (fn, f) in itertools.product(acalls, acalls):
            inp = dict(annotation=t, g=gn, f=fn)
            rec.guarded('history-independence', inp, lambda: pair(t, g, f, fresh[fn]) + (('pair', fn, gn == fn),), fk_pair)
    # random triples
    rnd = random.Random(seed)
    for _ in range(100 if tier == 'quick' else 3000):
        t = rnd.choice(texts)
        (gn, g), (hn, h), (fn, f) = rnd.choice(acalls), rnd.choice(acalls), rnd.choice(acalls)
        inp = dict(annotation=t, g=gn, h=hn, f=fn)
        rec.guarded('history-independence', inp, lambda: triple(t, g, h, f) + (('triple', fn),), fk_pair)


def fk_pair(inp, exp, obs):
    return '?after:' + str(inp.get('g') or inp.get('g_other')) + ('/' + str(inp.get('h')) if inp.get('h') else '')


def twice(make, f):
    a = make()
    try:
        r1 = canon(force(f(*a)))
    except Exception as e:  # noqa
        r1 = ('EXC', type(e).__name__)
    try:
        r2 = canon(force(f(*a)))
    except Exception as e:  # noqa
        r2 = ('EXC', type(e).__name__)
    b = make()
    try:
        r3 = canon(force(f(*b)))
    except Exception as e:  # noqa
        r3 = ('EXC', type(e).__name__)
    ok = r1 == r2 == r3
    return ok, ('same result on every call', r1), (r2, r3)


def pair(t, g, f, fresh_result):
    X = parse(t)
    random.seed(12345)
    try:
        force(g(X))
    except Exception:
        pass
    try:
        r = canon(force(f(X)))
    except Exception as e:  # noqa
        r = ('EXC', type(e).__name__)
    return r == fresh_result, ('same result as on a fresh object', fresh_result), r


def opair(gm, g, fm, f, fresh_result):
    try:
        force(g(*gm()))
    except Exception:
        pass
    try:
        r = canon(force(f(*fm())))
    except Exception as e:  # noqa
        r = ('EXC', type(e).__name__)
    return r == fresh_result, ('same result as in a fresh process state', fresh_result), r


def order_results(order):
    calls = [(n, (lambda f_=f, t_=ANNOTS[1]: [parse(t_)]), f) for n, f in A_calls()] + [(n, m, f) for n, m, f in other_calls()]
    if order == 'rev':
        calls = list(reversed(calls))
    out = {}
    for n, m, f in calls:
        random.seed(99)
        try:
            out[n] = repr(canon(force(f(*m()))))
        except Exception as e:  # noqa
            out[n] = 'EXC ' + type(e).__name__
    return out


def order_run(order):
    import subprocess
    p = subprocess.run([sys.executable, os.path.abspath(__file__), '--order', order], capture_output=True, text=True,
                       env=dict(os.environ))
    try:
        return json.loads(p.stdout.strip().split('\n')[-1])
    except Exception:
        return {'_error': p.stderr[-300:]}


def ref_again(make, f, ref):
    try:
        r = canon(force(f(*make())))
    except Exception as e:  # noqa
        r = ('EXC', type(e).__name__)
    return r == ref, ('same result as the first time it was computed in this process', ref), r


def triple(t, g, h, f):
    try:
        fresh = canon(force(f(parse(t))))
    except Exception as e:  # noqa
        fresh = ('EXC', type(e).__name__)
    X = parse(t)
    for c in (g, h):
        try:
            force(c(X))
        except Exception:
            pass
    try:
        r = canon(force(f(X)))
    except Exception as e:  # noqa
        r = ('EXC', type(e).__name__)
    return r == fresh, ('same result as on a fresh object', fresh), r


def replay_opair(gm, g, fm, f):
    try:
        fresh = canon(force(f(*fm())))
    except Exception as e:  # noqa
        fresh = ('EXC', type(e).__name__)
    return opair(gm, g, fm, f, fresh)


def replay_case(inp):
    ac = dict(A_calls())
    oc = {n: (m, f) for n, m, f in other_calls()}
    if 'g_other' in inp:
        gm, g = oc[inp['g_other']]
        fm, f = oc[inp['f_other']]
        return opair(gm, g, fm, f, None)[:1] + ('same result as in a fresh process state (replay: compare with a fresh interpreter)', None) \
            if False else replay_opair(gm, g, fm, f)
    if 'g' in inp and 'h' in inp:
        return triple(inp['annotation'], ac[inp['g']], ac[inp['h']], ac[inp['f']])
    if 'g' in inp:
        f = ac[inp['f']]
        try:
            fresh = canon(force(f(parse(inp['annotation']))))
        except Exception as e:  # noqa
            fresh = ('EXC', type(e).__name__)
        return pair(inp['annotation'], ac[inp['g']], f, fresh)
    if inp.get('history') == 'process-order':
        fwd, rev = order_run('fwd'), order_run('rev')
        n = inp['call']
        return fwd.get(n) == rev.get(n), ('same result in both call orders', fwd.get(n)), rev.get(n)
    if inp.get('history') == 'reference-order':
        # replay: the first computation in this process, then every other call, then again
        m, f = oc[inp['call']]
        try:
            ref = canon(force(f(*m())))
        except Exception as e:  # noqa
            ref = ('EXC', type(e).__name__)
        for n2, (m2, f2) in oc.items():
            try:
                force(f2(*m2()))
            except Exception:
                pass
        return ref_again(m, f, ref)
    if inp.get('history') == 'twice':
        m, f = oc[inp['call']]
        return twice(m, f)
    if 'annotation' in inp:
        t = inp['annotation']
        return check_call(inp['call'], lambda: [parse(t)], ac[inp['call']])
    m, f = oc[inp['call']]
    return check_call(inp['call'], m, f)


def main():
    if '--order' in sys.argv:
        print(json.dumps(order_results(sys.argv[sys.argv.index('--order') + 1])))
        return
    a = args()
    if a.replay:
        replay_main(a, {'single-call': replay_case, 'history-independence': replay_case})
    rec = Recorder('C08-bounded',
                   'table of ~70 public query functions / annotation methods + ~18 calls on dict / list arguments; single calls: deep '
                   'snapshot of every argument before/after, identity-disjointness of result and arguments, RNG and modification-DB '
                   'state; ALL ordered pairs of annotation calls on one shared object vs the result on a fresh object; seeded random '
                   'triples; non-trivial = distinct (kind, call)',
                   bound='4 (quick) / 5 (thorough) annotations for single calls; all ordered pairs on 2 / 4 annotations; 100 / 3000 triples')
    run(rec, a.tier, a.seed, a.only)
    rec.dump(a.out)


if __name__ == '__main__':
    main()
