"""Abstract, implementation-independent view of an annotation + a grammar-directed generator, shared by the bounded tiers.
view(a): what the notation denotes -- residues with their own modifications, terminal / global annotations, and for every
ambiguity interval the SET of residue indices it covers."""
import itertools
import random

from peptacular.proforma.proforma_parser import parse, ProFormaAnnotation


def modkey(m):
    return (repr(m.val), m.mult)


def mods_view(mods):
    return tuple(sorted(modkey(m) for m in mods)) if mods else ()


def view(a):
    n = len(a.sequence)
    im = a.internal_mods or {}
    res = [(aa, mods_view(im.get(i))) for i, aa in enumerate(a.sequence)]
    ivs = []
    for iv in (a.intervals or []):
        end = iv.end if iv.end is not None else n
        ivs.append((tuple(range(iv.start, end)), bool(iv.ambiguous), mods_view(iv.mods)))
    extra_keys = sorted(k for k in im if not (0 <= k < n))
    return dict(res=res, nterm=mods_view(a.nterm_mods), cterm=mods_view(a.cterm_mods), labile=mods_view(a.labile_mods),
                static=mods_view(a.static_mods), isotope=mods_view(a.isotope_mods), unknown=mods_view(a.unknown_mods),
                intervals=sorted(ivs), charge=a.charge, adducts=mods_view(a.charge_adducts), stray_mod_keys=extra_keys)


GLOBAL_KEYS = ('labile', 'static', 'isotope', 'unknown', 'charge', 'adducts')


def globals_of(v):
    return {k: v[k] for k in GLOBAL_KEYS}


RES_MODS = ['', '[Oxidation]', '[1.5]', '[Phospho][2.25]', '[-3.5]^2']


def build(letters, res_mods, nterm='', cterm='', labile='', static='', isotope='', unknown='', intervals=(), charge='',
          ):
    """ProForma text from a description; intervals: list of (start, end_exclusive, ambiguous, modtext)"""
    opens = {s: (amb, m) for s, e, amb, m in intervals}
    closes = {e: (amb, m) for s, e, amb, m in intervals}
    out = []
    for i, (aa, m) in enumerate(zip(letters, res_mods)):
        if i in closes:
            out.append(')' + closes[i][1])
        if i in opens:
            out.append('(' + ('?' if opens[i][0] else ''))
        out.append(aa + m)
    if len(letters) in closes:
        out.append(')' + closes[len(letters)][1])
    mid = ''.join(out)
    s = static + isotope + labile + unknown + nterm + mid + cterm + charge
    return s


def interval_layouts(n):
    """no interval; one at the start, middle, end; two adjacent"""
    yield ()
    if n >= 2:
        yield ((0, 2, False, '[1.25]'),)
        yield ((n - 2, n, False, '[1.25]'),)
        yield ((0, 1, True, ''),)
    if n >= 3:
        yield ((1, 2, False, '[3.5]'),)
        yield ((1, n, True, '[1.25]'),)
    if n >= 4:
        yield ((0, 2, False, '[1.25]'), (2, 4, False, '[3.5]'))
        yield ((1, 3, True, '[1.25]'),)


def annotations(tier, seed, max_len=None, with_intervals=True, letters='PEKT'):
    """yield (text, annotation): a structured family (every modification kind present somewhere) + seeded random ones"""
    rnd = random.Random(seed)
    L = max_len or (4 if tier == 'quick' else 5)
    decor = [dict(), dict(nterm='[Acetyl]-'), dict(cterm='-[Amidated]'), dict(labile='{Glycan:Hex}'),
             dict(static='<[Carbamidomethyl]@K>'), dict(isotope='<13C>'), dict(unknown='[Oxidation]?'), dict(charge='/2'),
             dict(nterm='[Acetyl][1.5]-', cterm='-[2.5]', labile='{Glycan:Hex}', static='<[1.5]@P,E>', isotope='<15N>',
                  unknown='[Phospho]^2?', charge='/3')]
    seen = set()
    for n in range(1, L + 1):
        # residue-modification patterns: none, first, last, all different, repeated
        pats = [[''] * n, [RES_MODS[1]] + [''] * (n - 1), [''] * (n - 1) + [RES_MODS[2]],
                [RES_MODS[(i % 4) + 1] for i in range(n)], [RES_MODS[1]] * n]
        lets = [''.join(letters[(i + j) % len(letters)] for i in range(n)) for j in range(2)] + [letters[0] * n]
        for ls in lets:
            for pat in pats:
                for d in decor:
                    for ivl in (interval_layouts(n) if with_intervals else [()]):
                        if tier == 'quick' and ivl and d and rnd.random() < 0.6:
                            continue
                        text = build(ls, pat, intervals=ivl, **d)
                        if text in seen:
                            continue
                        seen.add(text)
                        yield text, parse(text)
    for _ in range(150 if tier == 'quick' else 2500):
        n = rnd.randint(1, 25 if tier != 'quick' else 12)
        ls = ''.join(rnd.choice('ACDEFGHIKLMNPQRSTVWY') for _ in range(n))
        pat = [rnd.choice(RES_MODS) if rnd.random() < 0.35 else '' for _ in range(n)]
        d = dict(rnd.choice(decor))
        ivl = ()
        if with_intervals and n >= 3 and rnd.random() < 0.5:
            s = rnd.randint(0, n - 2)
            e = rnd.randint(s + 1, n)
            ivl = ((s, e, rnd.random() < 0.3, rnd.choice(['', '[1.25]'])),)
            if e + 2 <= n and rnd.random() < 0.4:
                ivl = ivl + ((e, e + 2, False, '[3.5]'),)
        text = build(ls, pat, intervals=ivl, **d)
        if text in seen:
            continue
        seen.add(text)
        yield text, parse(text)
