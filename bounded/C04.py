"""Bounded stand-in for C04: the fragmenter enumerates every ion exactly once and agrees with the mass calculator.
Oracle: independent enumeration of (ion type, span, charge, isotope, loss) keys; mass / mz of each ion recomputed with the real
mass()/mz() on the ion's own sequence (the property's own reference); projections compared with the Fragment list. Bounded."""
import itertools
import os
import random
import re
import sys
import warnings
warnings.simplefilter('ignore')
sys.path.insert(0, os.path.dirname(os.path.abspath(__file__)))
from common import Recorder, args, replay_main

import peptacular as pt
from peptacular.fragmentation import Fragmenter

FWD, BWD, INT = ['a', 'b', 'c'], ['x', 'y', 'z'], ['ax', 'ay', 'az', 'bx', 'by', 'bz', 'cx', 'cy', 'cz']
PEPS = ['P', 'PE', 'PEK', 'PEPTK', 'SETK', 'P[1.5]EK', '[Acetyl]-PEK', 'PEK-[Amidated]', 'PES[Phospho]TK[Oxidation]', '[1.5]-PES[2.5]K-[3.5]',
        '<[Carbamidomethyl]@C>PECK', '<[10]@N-Term>PEK', '<[10]@C-Term,K>PEK', '<13C>PEK', '<15N>P[Formula:C2H3N]EK']


def expected_keys(n, seq_plain, types, charges, isotopes, loss_specs, max_losses):
    keys = []
    spans = {}
    for t in types:
        if t in FWD:
            sp = [(0, e) for e in range(1, n + 1)]
        elif t in BWD:
            sp = [(s, n) for s in range(0, n)]
        elif t in INT:
            sp = [(s, e) for s in range(1, n) for e in range(s + 1, n)]
        else:
            sp = [(i, i + 1) for i in range(n)]
        spans[t] = sp
    for t in types:
        for (s, e) in spans[t]:
            sub = seq_plain[s:e]
            applicable = []
            for rx, val in loss_specs:
                applicable += [val] * len(re.findall(rx, sub))
            ls = {0.0} | set(applicable)
            for k in range(2, max_losses + 1):
                for comb in itertools.combinations(applicable, k):
                    ls.add(sum(comb))
            for c in charges:
                for iso in isotopes:
                    for l in ls:
                        keys.append((t, s, e, c, iso, round(l, 6)))
    return keys


def case(inp):
    text, types, charges, isotopes = inp['text'], inp['types'], inp['charges'], inp['isotopes']
    mono, prec = inp['mono'], inp['precision']
    water, ammonia, custom, maxl = inp['water'], inp['ammonia'], inp['custom'], inp['max_losses']
    a = pt.parse(text)
    n = len(a.sequence)
    loss_specs = [tuple(x) for x in custom] + ([('[STED]', -18.01056)] if water else []) + ([('[RKNQ]', -17.02655)] if ammonia else [])
    kw = dict(ion_types=types, charges=charges, monoisotopic=mono, isotopes=isotopes, water_loss=water, ammonia_loss=ammonia,
              losses=[tuple(x) for x in custom] or None, max_losses=maxl, precision=prec)
    frags = pt.fragment(text, **kw)
    got = [(f.ion_type, f.start, f.end, f.charge, f.isotope, round(f.loss, 6)) for f in frags]
    exp = expected_keys(n, a.sequence, types, charges, isotopes, loss_specs, maxl)
    if sorted(got) != sorted(exp):
        missing = sorted(set(exp) - set(got))[:4]
        extra = sorted(set(got) - set(exp))[:4]
        dup = len(got) - len(set(got))
        return False, ('exactly one ion per (type, span, charge, isotope, loss)', len(exp)), dict(n=len(got), missing=missing, extra=extra, dup=dup), None
    tol = 1e-6 if prec is None else 0.5 * 10 ** (-prec) + 1e-9
    for f in frags:
        ref = pt.mass(f.sequence, charge=f.charge, ion_type=f.ion_type, monoisotopic=mono, isotope=f.isotope, loss=f.loss, precision=prec)
        if abs(f.mass - ref) > tol:
            return False, ('ion mass == mass() of its own sequence', f.ion_type, f.start, f.end, f.charge, f.sequence, ref), f.mass, None
        refz = pt.mz(f.sequence, charge=f.charge, ion_type=f.ion_type, monoisotopic=mono, isotope=f.isotope, loss=f.loss, precision=prec)
        if abs(f.mz - refz) > tol * (2 if prec is not None else 1):
            return False, ('ion m/z == mz() of its own sequence', f.ion_type, f.start, f.end, f.charge, f.sequence, refz), f.mz, None
        # the ion carries the modifications that sit on its residues and termini
        want = a.slice(f.start, f.end)
        want.pop_labile_mods()
        if pt.parse(f.sequence) != want:
            return False, ('ion sequence == slice of the peptide', want.serialize()), f.sequence, None
        if f.monoisotopic != mono:
            return False, 'monoisotopic flag', f.monoisotopic, None
        refn = pt.mass(f.sequence, charge=0, ion_type=f.ion_type, monoisotopic=mono, isotope=f.isotope, loss=f.loss)
        if abs(f.neutral_mass - refn) > 1e-6:
            return False, ('ion neutral mass == mass() of its own sequence at charge 0', f.ion_type, f.start, f.end, f.charge, f.sequence, refn), f.neutral_mass, None
        if f.internal != (f.start != 0 and f.end != n) or f.unmod_sequence != a.sequence[f.start:f.end]:
            return False, ('internal flag / unmodified residues of the span', f.start, f.end), (f.internal, f.unmod_sequence), None
    # projections
    for rt, proj in (('mass', lambda f: f.mass), ('mz', lambda f: f.mz), ('label', lambda f: f.label),
                     ('mass-label', lambda f: (f.mass, f.label)), ('mz-label', lambda f: (f.mz, f.label))):
        r = pt.fragment(text, return_type=rt, **kw)
        if list(r) != [proj(f) for f in frags]:
            bad = [(x, proj(f)) for x, f in zip(r, frags) if x != proj(f)][:3]
            return False, ('return_type ' + rt + ' is a projection of the fragment list', [b[1] for b in bad]), [b[0] for b in bad], None
    fobj = Fragmenter(text, mono)
    key_ = lambda fs: [(f.ion_type, f.start, f.end, f.charge, f.isotope, f.loss, f.mass, f.mz, f.sequence) for f in fs]
    # the cached object is a projection of the same list on EVERY call (its cached masses survive a call)
    for nth in (1, 2, 3):
        fr2 = fobj.fragment(types, charges, isotopes, water, ammonia, [tuple(x) for x in custom] or None, maxl, 'fragment', prec)
        if key_(fr2) != key_(frags):
            return False, 'Fragmenter == fragment() (call number %d on the same object)' % nth, 'differs', None
    return True, None, None, ('c04', text, tuple(types)[:3], len(exp))


def fk(inp, exp, obs):
    e = str(exp)
    t = inp['text']
    if 'projection' in e and 'label' in e:
        return 'C04-label-number-from-fragment-length'
    if "mass() of its own sequence" in e or "mz() of its own sequence" in e:
        if inp['precision'] is not None and 'm/z' in e:
            return 'C04-mz-rounded-twice'
        if '<13C>' in t or '<15N>' in t:
            return 'C04-isotope-label-components'
        if 'N-Term' in t or 'C-Term' in t:
            return 'C04-terminal-static-rule-on-every-component'
    return '?' + e[:40]


def run(rec, tier, seed):
    rnd = random.Random(seed)
    allt = FWD + BWD + INT + ['i']
    type_sets = [['b'], ['y'], ['a', 'b', 'c'], ['x', 'y', 'z'], ['b', 'y'], ['by'], ['ax', 'cz'], ['i'], ['b', 'by', 'i'], allt]
    for text in PEPS:
        for types in type_sets:
            for (charges, isotopes, water, ammonia, custom, maxl, mono, prec) in (
                    ([1], [0], False, False, [], 1, True, None),
                    ([1, 2], [0, 1], True, False, [], 1, True, None),
                    ([2], [0], True, True, [], 2, False, None),
                    ([1, 3], [0, 2], False, False, [['[ST]', -97.98], ['E', -1.5]], 3, True, 4),
                    ([4], [3], False, True, [['K', -5.0]], 2, False, 0)):
                if tier == 'quick' and rnd.random() < 0.45:
                    continue
                inp = dict(text=text, types=types, charges=charges, isotopes=isotopes, water=water, ammonia=ammonia, custom=custom,
                           max_losses=maxl, mono=mono, precision=prec)
                rec.guarded('every-ion-once-and-agrees', inp, lambda: case(inp), fk)
    aa = 'ACDEFGHIKLMNPQRSTVWY'
    for _ in range(60 if tier == 'quick' else 1500):
        n = rnd.randint(1, 12 if tier != 'quick' else 7)
        parts = []
        for i in range(n):
            parts.append(rnd.choice(aa) + (rnd.choice(['[1.5]', '[Oxidation]', '[Formula:C2H2O]']) if rnd.random() < 0.25 else ''))
        text = (rnd.choice(['', '[Acetyl]-', '<[Carbamidomethyl]@C>']) + ''.join(parts) + rnd.choice(['', '-[Amidated]']))
        types = rnd.sample(allt, rnd.randint(1, 5))
        inp = dict(text=text, types=types, charges=sorted(rnd.sample([1, 2, 3, 4], rnd.randint(1, 2))),
                   isotopes=sorted(rnd.sample([0, 1, 2, 3], rnd.randint(1, 2))), water=rnd.random() < 0.4, ammonia=rnd.random() < 0.3,
                   custom=[['[ST]', -97.98]] if rnd.random() < 0.3 else [], max_losses=rnd.choice([1, 2, 3]), mono=rnd.random() < 0.6,
                   precision=rnd.choice([None, None, 0, 3, 6]))
        rec.guarded('every-ion-once-and-agrees', inp, lambda: case(inp), fk)


def main():
    a = args()
    if a.replay:
        replay_main(a, {'every-ion-once-and-agrees': case})
    rec = Recorder('C04-bounded',
                   '15 peptides (length 1..5; residue, terminal, static incl. N-Term/C-Term, isotope-label modifications) x 10 ion-type '
                   'subsets (incl. all 16) x 5 (charges, isotopes, water/ammonia/custom regex losses, max_losses 1..3, mode, precision) '
                   'tuples + random peptides to length 7/12; key set against an independent enumeration, each ion against mass()/mz() of '
                   'its own sequence, 5 projections and the cached Fragmenter against the Fragment list',
                   bound='15 fixed peptides x 10 type subsets x 5 parameter tuples (55% sampled in quick) + 60 / 1500 random cases')
    run(rec, a.tier, a.seed)
    rec.dump(a.out, exhaustive=False)


if __name__ == '__main__':
    main()
