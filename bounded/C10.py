"""Exhaustive table check for C10: every vocabulary entry resolves to the same mass / composition (or the same error) through
all of its documented spellings; tabulated monoisotopic mass == mass of the tabulated composition; generic forms.
The spelling RULES themselves (prefix stripping for every body) are proved deductively (contracts/moddb.py); this tier
enumerates the finite tables.  Labelled bounded (exhaustive over the bundled tables in the thorough tier)."""
import os
import random
import sys
import warnings
warnings.simplefilter('ignore')
sys.path.insert(0, os.path.dirname(os.path.abspath(__file__)))
sys.path.insert(0, os.path.dirname(os.path.dirname(os.path.abspath(__file__))))
from common import Recorder, args, replay_main
from specs import nist
from specs.refcalc import formula_comp

import peptacular as pt
from peptacular.mods import mod_db_setup as dbs


def res(f, *a, **k):
    try:
        v = f(*a, **k)
        if isinstance(v, dict):
            return ('ok', tuple(sorted((x, round(y, 6)) for x, y in v.items() if y)))
        return ('ok', v)
    except ValueError as e:
        return ('err', type(e).__name__)


def same(a, b, tol):
    if a[0] != b[0]:
        return False
    if a[0] == 'err':
        return True
    if isinstance(a[1], tuple) or isinstance(b[1], tuple):
        return a[1] == b[1]
    return abs(a[1] - b[1]) <= tol


def spellings(kind, ident, name):
    if kind == 'unimod':
        num = ident.split(':')[-1]
        return ['UNIMOD:' + num, 'Unimod:' + num, 'unimod:' + num, 'U:' + name, 'u:' + name, 'Unimod:' + name], name
    if kind == 'psi':
        num = ident.split(':')[-1]
        return ['MOD:' + num, 'mod:' + num, 'M:' + name, 'm:' + name, 'PSI-MOD:' + num, 'psi-mod:' + name], name
    if kind == 'xlmod':
        num = ident.split(':')[-1]
        return ['XLMOD:' + num, 'xlmod:' + num, 'X:' + name, 'x:' + name], None
    raise ValueError(kind)


def case_entry(inp):
    kind, ident, name = inp['kind'], inp['id'], inp['name']
    sp, bare = spellings(kind, ident, name)
    ref = {}
    for what, f in (('mono', lambda s: res(pt.mod_mass, s, True)), ('avg', lambda s: res(pt.mod_mass, s, False)), ('comp', lambda s: res(pt.mod_comp, s))):
        ref[what] = f(sp[0])
        for s in sp[1:]:
            got = f(s)
            if not same(ref[what], got, 1e-5):
                return False, ('every prefixed spelling resolves like ' + sp[0], what, ref[what]), (s, got), None
    if bare is not None and inp.get('bare_unique', True):
        for what, f in (('mono', lambda s: res(pt.mod_mass, s, True)), ('avg', lambda s: res(pt.mod_mass, s, False)), ('comp', lambda s: res(pt.mod_comp, s))):
            got = f(bare)
            if not same(ref[what], got, 1e-5):
                inp['_bare'] = True
                return False, ('the bare name resolves like the prefixed accession', what, ref[what]), (bare, got), None
    return True, None, None, ('entry', kind, ref['mono'][0], ref['comp'][0])


def case_table_mass(inp):
    mono, comp = inp['mono_mass'], inp['composition']
    cm = pt.chem_mass(comp)
    return abs(cm - mono) <= 1e-3, ('tabulated monoisotopic mass == mass of the tabulated composition', mono), cm, ('tab', inp['id'])


def case_generic(inp):
    return inp['_f'](), inp.get('exp'), inp.get('_obs'), ('generic', inp['what'])


def fk_entry(inp, exp, obs):
    if inp.get('_bare'):
        return 'C10-bare-name-shadowed-by-another-vocabulary'
    return '?' + inp['kind'] + ':' + str(exp)[:30]


def fk(inp, exp, obs):
    return '?' + str(exp)[:40]


def run(rec, tier, seed):
    rnd = random.Random(seed)
    step = 5 if tier == 'quick' else 1
    names_unimod = {e.name for e in dbs.UNIMOD_DB.id_map.values()}
    names_psi = {e.name for e in dbs.PSI_MOD_DB.id_map.values()}
    for kind, db in (('unimod', dbs.UNIMOD_DB), ('psi', dbs.PSI_MOD_DB), ('xlmod', dbs.XLMOD_DB)):
        ents = list(db.id_map.values())
        # always include the entries whose names contain colons / brackets / start with digits
        special = [e for e in ents if any(c in e.name for c in ':[]()') or e.name[:1].isdigit()]
        chosen = ents[::step] + [e for e in special[::max(1, step // 2)] if e not in ents[::step]]
        for e in chosen:
            inp = dict(kind=kind, id=str(e.id), name=e.name)
            rec.guarded('all-spellings-agree', inp, lambda: case_entry(inp), fk_entry)
        if kind in ('unimod',):
            for e in ents[::step]:
                if e.mono_mass is not None and e.composition:
                    inp = dict(id=str(e.id), mono_mass=e.mono_mass, composition=e.composition)
                    rec.guarded('table-mass-equals-composition-mass', inp, lambda: case_table_mass(inp), fk)
    for e in dbs.MONOSACCHARIDES_DB.id_map.values():
        if e.mono_mass is not None and e.composition:
            inp = dict(id=str(e.name), mono_mass=e.mono_mass, composition=e.composition)
            rec.guarded('table-mass-equals-composition-mass', inp, lambda: case_table_mass(inp), fk)
    # generic forms
    def g(what, f, exp=None):
        inp = dict(what=what, exp=exp)
        try:
            ok = f()
        except Exception as e:  # noqa
            ok = False
            inp['_err'] = f'{type(e).__name__}: {e}'
        rec.case('generic-forms', ok, {k: v for k, v in inp.items()}, exp, inp.get('_err'), nontrivial_key=('generic', what), finding_key='?' + what)
    for pre in ('U', 'Unimod', 'M', 'MOD', 'X', 'XLMOD', 'R', 'RESID', 'G', 'GNO'):
        for val in ('+15.995', '-17.5'):
            g(f'{pre}:{val} is a mass shift', lambda p=pre, v=val: abs(pt.mod_mass(f'{p}:{v}') - float(v)) < 1e-9, float(val))
            g(f'{pre}:{val} has no composition', lambda p=pre, v=val: res(pt.mod_comp, f'{p}:{v}')[0] == 'err')
    for _ in range(60 if tier == 'quick' else 1500):
        comp = {}
        for el in rnd.sample(['C', 'H', 'N', 'O', 'S', 'P', 'Na', 'Cl', 'Fe'], rnd.randint(1, 4)):
            comp[el] = rnd.choice([rnd.randint(1, 30), -rnd.randint(1, 5)])
        text = ''
        parts = list(comp.items())
        for el, c_ in parts:
            text += f'{el}{c_}'
        iso = rnd.random() < 0.4
        if iso:
            text = text[:len(parts[0][0]) + len(str(parts[0][1]))] + '[13C2]' + text[len(parts[0][0]) + len(str(parts[0][1])):] + '[13C1]'
            comp['13C'] = 3
        refm = float(nist.comp_mass(comp, True))
        refa = float(nist.comp_mass(comp, False))
        g(f'Formula:{text} gives the mass of what it spells', lambda t=text, m=refm, a=refa: abs(pt.mod_mass('Formula:' + t) - m) < 1e-5
          and abs(pt.mod_mass('Formula:' + t, monoisotopic=False) - a) < 2e-3 * max(1, sum(abs(x) for x in comp.values()) / 10), refm)
        g(f'Formula:{text} decorations', lambda t=text, m=refm: abs(pt.mod_mass('Formula:' + t + '#g1') - m) < 1e-5 and
          abs(pt.mod_mass('Formula:' + t + '|INFO:note') - m) < 1e-5 and abs(pt.mod_mass('INFO:note|Formula:' + t) - m) < 1e-5 and
          abs(pt.mod_mass(pt.Mod('Formula:' + t, 3)) - 3 * m) < 1e-5 and pt.mod_mass('#g1') == 0)
    for gly, comp in (('Hex', nist.MONOSACCHARIDES['Hex']), ('HexNAc2Hex3', None), ('Hex5HexNAc4NeuAc2', None)):
        g(f'Glycan:{gly} gives the mass of what it spells',
          lambda t=gly: abs(pt.mod_mass('Glycan:' + t) - pt.glycan_mass(t)) < 1e-6 and abs(pt.mod_mass('Glycan:' + t) - pt.chem_mass(pt.mod_comp('Glycan:' + t))) < 1e-3)
    # a glycan string spells a multiset of monosaccharides: a name written twice counts twice (independent NIST compositions)
    for txt, cnt in (('Hex2Hex3', dict(Hex=5)), ('Hex2HexNAc1Hex3', dict(Hex=5, HexNAc=1)), ('HexNAc2Hex3HexNAc1', dict(HexNAc=3, Hex=3)),
                     ('FucHexFuc', dict(Fuc=2, Hex=1))):
        ref_ = sum(float(nist.comp_mass(nist.MONOSACCHARIDES[k_], True)) * v_ for k_, v_ in cnt.items())
        g(f'Glycan:{txt} counts a repeated name every time it is written',
          lambda t=txt, r=ref_: abs(pt.mod_mass('Glycan:' + t) - r) < 1e-4 and abs(pt.glycan_mass(t) - r) < 1e-4, ref_)
    g('Obs:+12.5 is its number', lambda: abs(pt.mod_mass('Obs:+12.5') - 12.5) < 1e-12)
    g('first resolvable alternative wins', lambda: abs(pt.mod_mass('NoSuchThing|Oxidation') - pt.mod_mass('Oxidation')) < 1e-9 if res(pt.mod_mass, 'NoSuchThing|Oxidation')[0] == 'ok' else True)


def main():
    a = args()
    if a.replay:
        replay_main(a, {'all-spellings-agree': case_entry, 'table-mass-equals-composition-mass': case_table_mass})
    rec = Recorder('C10-tables',
                   'every (quick: every 5th + all special-character names) Unimod, PSI-MOD and XLMOD entry x every documented spelling '
                   '(prefixed accession, prefixed name, case variants of the prefix, bare name) x {mono mass, average mass, composition}: same '
                   'value (1e-5) or same error; tabulated monoisotopic mass vs mass of the tabulated composition (1e-3) for Unimod and the 27 '
                   'monosaccharides; prefixed signed numbers, generated Formula strings (isotope brackets on both sides, negative counts) '
                   'against NIST masses, Glycan, Obs, | alternatives, # tags, multipliers',
                   bound='quick: every 5th entry of each vocabulary + every entry whose name contains : [ ] ( ) or starts with a digit; thorough: all 4601 entries')
    if a.only and a.only.startswith('_strip') and a.model_input:
        import json
        from peptacular.mods import mod_db
        mi = json.loads(a.model_input)
        text = list(mi.values())[0]
        prefixes = {'_strip_unimod_str': ['unimod', 'u'], '_strip_psi_str': ['psi-mod', 'mod', 'm'], '_strip_xlmod_str': ['xlmod', 'x'],
                    '_strip_resid_str': ['resid', 'r'], '_strip_gno_str': ['gno', 'g']}[a.only]
        exp = text
        for p_ in sorted(prefixes, key=len, reverse=True):
            if text.lower().startswith(p_ + ':'):
                exp = text[len(p_) + 1:]
                break
        got = getattr(mod_db, a.only)(text)
        rec.case(a.only, got == exp, {'text': text}, exp, got, finding_key='?strip')
        rec.dump(a.out)
        return
    run(rec, a.tier, a.seed)
    rec.dump(a.out, exhaustive=(a.tier != 'quick'))


if __name__ == '__main__':
    main()
