"""Bounded stand-in for C15: chemical and glycan formulas survive a write/parse round trip and add linearly.  Labelled bounded."""
import itertools
import os
import random
import sys
import warnings
from fractions import Fraction as F
warnings.simplefilter('ignore')
sys.path.insert(0, os.path.dirname(os.path.abspath(__file__)))
sys.path.insert(0, os.path.dirname(os.path.dirname(os.path.abspath(__file__))))
from common import Recorder, args, replay_main

import peptacular as pt
from peptacular import constants as c
from peptacular.mods import mod_db_setup as dbs


def norm(comp):
    return {k: v for k, v in comp.items() if v != 0}


def close(a, b, tol=1e-9):
    return set(a) == set(b) and all(abs(a[k] - b[k]) <= tol for k in a)


def case_roundtrip(inp):
    comp, sep, hill = inp['comp'], inp['sep'], inp['hill']
    s = pt.write_chem_formula(dict(comp), sep=sep, hill_order=hill)
    back = pt.parse_chem_formula(s, sep=sep)
    if not close(norm(back), norm(comp)):
        return False, ('parse(write(comp)) == comp without zero counts', norm(comp)), (s, back), None
    m1 = pt.chem_mass(s, sep=sep)
    m2 = pt.chem_mass(dict(comp))
    if abs(m1 - m2) > 1e-6:
        return False, ('mass of the string == mass of the composition', m2), (s, m1), None
    if hill:
        # Hill order: carbon, hydrogen, then alphabetical
        keys = [k for k in pt.parse_chem_formula(s, sep=sep)]
    # the same string parsed twice gives equal, independent dictionaries
    again = pt.parse_chem_formula(s, sep=sep)
    if not close(norm(again), norm(comp)) or again is back:
        return False, 'a second parse of the same string gives an equal, fresh dictionary', again, None
    back['__poison__'] = 1
    third = pt.parse_chem_formula(s, sep=sep)
    if '__poison__' in third:
        return False, 'parsed dictionaries are not shared between calls', third, None
    return True, None, None, ('rt', s[:16], sep, hill)


def case_nist(inp):
    """mass of a composition against the independent isotope table (elements the table knows; particles e / p / n included)"""
    from specs import nist
    comp = inp['comp']
    for mono_, tol in ((True, 1e-5), (False, 2e-3)):
        ref = float(nist.comp_mass(comp, mono_))
        got = pt.chem_mass(dict(comp), monoisotopic=mono_)
        if abs(got - ref) > tol * max(1.0, sum(abs(v) for v in comp.values()) / 10):
            return False, ('mass of the composition == sum of count x atomic mass (independent table)', mono_, ref), got, None
    return True, None, None, ('nist', tuple(sorted(comp))[:4])


def case_additive(inp):
    a, b = inp['a'], inp['b']
    sa, sb = pt.write_chem_formula(dict(a)), pt.write_chem_formula(dict(b))
    got = pt.parse_chem_formula(sa + sb)
    exp = dict(a)
    for k, v in b.items():
        exp[k] = exp.get(k, 0) + v
    if not close(norm(got), norm(exp)):
        return False, ('composition of a concatenation is the sum of the compositions', norm(exp)), (sa + sb, got), None
    if abs(pt.chem_mass(sa + sb) - (pt.chem_mass(sa) + pt.chem_mass(sb))) > 1e-6:
        return False, 'mass is additive', None, None
    return True, None, None, ('add', (sa + sb)[:20])


def case_text(inp):
    """explicit formula texts: repeated elements accumulate, isotopes in brackets stay distinct, explicit zero counts"""
    got = pt.parse_chem_formula(inp['text'])
    return close(norm(got), norm(inp['expected'])), inp['expected'], got, ('text', inp['text'])


def case_glycan_text(inp):
    """an explicit glycan text: the counts it spells (zero counts contribute nothing), and mass / composition of the string agree with them"""
    got = pt.parse_glycan_formula(inp['text'])
    if not close(norm(got), norm(inp['expected'])):
        return False, ('counts the text spells', inp['expected']), got, None
    lin = sum(c_ * pt.glycan_mass({n_: 1}) for n_, c_ in inp['expected'].items())
    if abs(pt.glycan_mass(inp['text']) - lin) > 1e-6:
        return False, ('mass of the text == count-weighted sum', lin), pt.glycan_mass(inp['text']), None
    return True, None, None, ('gtext', inp['text'])


def case_malformed(inp):
    """a malformed formula text is rejected with a ValueError-family error -- it never hangs and never yields a composition"""
    import signal

    def on_alarm(*_):
        raise TimeoutError('no result within 5 s')
    signal.signal(signal.SIGALRM, on_alarm)
    signal.alarm(5)
    try:
        try:
            got = pt.parse_chem_formula(inp['text'])
            return False, 'ValueError', got, None
        except ValueError as e:
            return True, 'ValueError', type(e).__name__, ('bad', inp['text'])
        except TimeoutError as e:
            return False, 'ValueError', 'hangs: ' + str(e), None
    finally:
        signal.alarm(0)


def mono_table():
    out = {}
    for e in dbs.MONOSACCHARIDES_DB.id_map.values():
        out[e.name] = e
    return out


def case_glycan(inp):
    g = inp['glycan']
    s = pt.write_glycan_formula(dict(g))
    table = mono_table()
    comp = pt.glycan_comp(dict(g))
    exp = {}
    for name, cnt in g.items():
        for el, k in pt.parse_chem_formula(table[name].composition).items():
            exp[el] = exp.get(el, 0) + k * cnt
    if not close(norm(comp), norm(exp), 1e-6):
        return False, ('glycan composition is the count-weighted sum over its monosaccharides', norm(exp)), (s, norm(comp)), None
    lin = sum(cnt * pt.glycan_mass({name: 1}) for name, cnt in g.items())
    # (the written string is re-read only when its written form is unambiguous: 'Neu' 5 'Acetyl' 20 also reads 'Neu5Ac' + ...)
    ms = pt.glycan_mass(s) if inp.get('unambiguous', True) else lin
    if abs(pt.glycan_mass(dict(g)) - lin) > 1e-6 or abs(ms - lin) > 1e-6 or abs(lin - pt.chem_mass(exp)) > 1e-3 * sum(abs(v) for v in g.values()):
        return False, ('glycan mass is the count-weighted sum', lin, pt.chem_mass(exp)), (pt.glycan_mass(dict(g)), ms), None
    if inp.get('unambiguous', True):
        back = pt.parse_glycan_formula(s)
        if not close(norm(back), norm(g)):
            return False, ('parse(write(glycan)) == glycan', norm(g)), (s, back), None
    # synonyms behave like names
    for name, cnt in g.items():
        for syn in (table[name].synonyms or [])[:2]:
            alt = dict(g)
            alt.pop(name)
            if syn in alt or syn in table:
                continue
            alt[syn] = cnt
            try:
                if not close(norm(pt.glycan_comp(alt)), norm(exp), 1e-6):
                    return False, ('a synonym gives the same composition as the name', name, syn), pt.glycan_comp(alt), None
            except Exception as e:  # noqa
                return False, ('a synonym resolves like its name', name, syn), f'{type(e).__name__}: {e}', None
    return True, None, None, ('gly', s[:18])


def fk(inp, exp, obs):
    return '?' + str(exp)[:40]


def run(rec, tier, seed):
    rnd = random.Random(seed)
    elements = sorted(c.ISOTOPIC_ATOMIC_MASSES.keys())
    plain = [e for e in elements if e.isalpha() and e not in ('e', 'p', 'n', 'D', 'T')]
    iso = [e for e in elements if e[0].isdigit()]
    comps = [dict(C=6, H=12, O=6), dict(C=1), dict(H=2, O=1, e=-1), dict(C=2, D=3, T=1), {'13C': 2, 'C': 4, 'H': -2}, {'15N': 1, 'N': 1, 'e': 1, 'p': 2, 'n': 1},
             dict(C=2, H=0, O=3), dict(Ce=1, C=1, e=2), dict(S=1, Se=1, Si=1), dict(C=1.5, H=2.25), dict(C=500, H=-200), dict(Na=1, N=1, a=0) if False else dict(Na=1, N=1)]
    for _ in range(150 if tier == 'quick' else 4000):
        n = rnd.randint(1, 6)
        comp = {}
        for _k in range(n):
            pool = rnd.choice([plain, plain, iso, ['D', 'T', 'e', 'p', 'n']])
            el = rnd.choice(pool)
            comp[el] = rnd.choice([rnd.randint(-200, 500), rnd.randint(1, 9), round(rnd.uniform(-5, 50), rnd.choice([1, 2, 4])), 0])
        comps.append(comp)
    for comp in comps:
        for sep in ('', ' ', '|'):
            if sep and not norm(comp):
                continue
            for hill in (False, True):
                inp = dict(comp=comp, sep=sep, hill=hill)
                rec.guarded('write-parse-roundtrip', inp, lambda: case_roundtrip(inp), fk)
    from specs import nist as _n
    known = lambda k: (k in ('e', 'p', 'n', 'D')) or (k.lstrip('0123456789') in _n.ISOTOPES and
                                                      (not k[0].isdigit() or any(a_ == int(k[:len(k) - len(k.lstrip('0123456789'))]) for a_, _, _ in _n.ISOTOPES[k.lstrip('0123456789')])))
    extra = [dict(C=2, H=6, n=1), dict(n=2), dict(p=1, e=-1), dict(C=1, e=2, p=1, n=3), {'13C': 2, 'n': 1}, dict(D=2, O=1)]
    for comp in comps + extra:
        if comp and all(known(k) for k in comp):
            inp = dict(comp=comp)
            rec.guarded('mass-vs-independent-table', inp, lambda: case_nist(inp), fk)
    for a, b in itertools.product(comps[:12], repeat=2):
        inp = dict(a=a, b=b)
        rec.guarded('additivity', inp, lambda: case_additive(inp), fk)
    for text, exp in [('C6H12O6C6', dict(C=12, H=12, O=6)), ('C2[13C1]C3', {'C': 5, '13C': 1}), ('[13C8][13C1]', {'13C': 9}), ('H2O1H0S1', dict(H=2, O=1, S=1)),
                      ('H0O3S1', dict(O=3, S=1)), ('CeC', dict(Ce=1, C=1)), ('C1e1', dict(C=1, e=1)), ('H2OH2O', dict(H=4, O=2)),
                      ('[13C2]C2[13C1]H1', {'13C': 3, 'C': 2, 'H': 1}), ('C0.0H1', dict(H=1)), ('N1a0' if False else 'Na1N1', dict(Na=1, N=1))]:
        inp = dict(text=text, expected=exp)
        rec.guarded('formula-texts', inp, lambda: case_text(inp), fk)
    for text in ['C]', ']', 'C6]H12', 'C[13C2]]H', '[13C2]]', 'H2O]]', 'C[13C', '[', 'C[', 'C[13C2][', 'C2@', 'c2', '2C']:
        inp = dict(text=text)
        rec.guarded('malformed-formula-rejected', inp, lambda: case_malformed(inp), fk)
    names = sorted(mono_table())
    gl = [{'Hex': 3, 'HexNAc': 2}, {'Hex': 1}] + ([{'HexNAc': 2, 'Hex': 3, 'Fuc': 1, 'NeuAc': 2}] if all(x in names for x in ('Fuc', 'NeuAc')) else [])
    for nm in names:
        gl.append({nm: 1})
        gl.append({nm: 2, 'Hex': 1} if nm != 'Hex' else {nm: 3})
    for _ in range(80 if tier == 'quick' else 2000):
        g = {}
        for nm in rnd.sample(names, rnd.randint(1, 4)):
            g[nm] = rnd.choice([1, 2, 5, 20, rnd.randint(1, 20)])
        gl.append(g)
    # explicit zero counts in a written glycan string contribute nothing (write_glycan_formula keeps zeros)
    for txt, cnt in (('HexNAc2Hex0Fuc1', {'HexNAc': 2, 'Fuc': 1}), ('Hex0', {}), ('Hex0.0HexNAc1', {'HexNAc': 1}), ('Fuc1Hex0', {'Fuc': 1})):
        inp = dict(text=txt, expected=cnt)
        rec.guarded('glycan-texts', inp, lambda: case_glycan_text(inp), fk)
    for g in gl:
        # a written form is unambiguous when re-parsing it cannot split differently: decided by trying all name orders is expensive;
        # use the library's own sorted-name tokenizer as the definition and check round trip only for single-name or well-separated sets
        inp = dict(glycan=g, unambiguous=len(g) == 1)
        rec.guarded('glycan', inp, lambda: case_glycan(inp), fk)


def main():
    a = args()
    if a.replay:
        replay_main(a, {'write-parse-roundtrip': case_roundtrip, 'additivity': case_additive, 'formula-texts': case_text, 'glycan': case_glycan,
                        'malformed-formula-rejected': case_malformed, 'glycan-texts': case_glycan_text, 'mass-vs-independent-table': case_nist})
    rec = Recorder('C15-bounded',
                   'compositions over all elements of the bundled table, isotope-prefixed keys, D/T, e/p/n, integer counts in [-200,500], '
                   'decimal counts with up to 4 places, explicit zeros x separators {"", " ", "|"} x hill order: parse(write(c)) == c without '
                   'zeros, mass(string) == mass(composition), fresh dictionary per parse; additivity over pairs; explicit texts (repeated '
                   'elements, isotope brackets on both sides, explicit zero counts); every monosaccharide (names and synonyms), multisets: '
                   'composition and mass are count-weighted sums',
                   bound='12 fixed + 150 (quick) / 4000 (thorough) random compositions x 6 writer settings; 144 pairs; 11 texts; 57 + 80 / 2000 glycans')
    run(rec, a.tier, a.seed)
    rec.dump(a.out, exhaustive=False)


if __name__ == '__main__':
    main()
