"""Bounded stand-in + replay finder for C06 (digestion spans).  Oracles are written from the property statement:

  S = sorted({0, n} | sites);  E = {(S[a], S[b], b-a-1) : a < b <= a+mc+1}
  semi adds every (S[a], i, #sites strictly inside) and (j, S[b], #...) sharing one end with a member of E and lying
  strictly inside it; then the inclusive length filter.  Non-specific rule: every proper sub-span, value 0.

Bounds are stated in the `bound` field of the output.  Labelled bounded -- never counted as proved.
"""
import itertools
import zlib
import warnings
warnings.simplefilter('ignore')
import sys
import os
sys.path.insert(0, os.path.dirname(os.path.abspath(__file__)))
from common import Recorder, args, replay_main, run_parallel

import regex
import peptacular.spans as sp
import peptacular.digestion as dg

# ---------------------------------------------------------------- oracles (from the statement)

def o_sites(S, n):
    return sorted(set(S) | {0, n})


def o_inside(S, s, e):
    return sum(1 for x in S if s < x < e)


def o_enzymatic(n, sites, mc):
    S = o_sites(sites, n)
    return {(S[a], S[b], b - a - 1) for a in range(len(S)) for b in range(a + 1, len(S)) if b - a - 1 <= mc}


def o_spans(n, sites, mc, min_len, max_len, semi):
    mn = 1 if min_len is None else min_len
    mx = n if max_len is None else max_len
    S = o_sites(sites, n)
    E = o_enzymatic(n, sites, mc)
    out = set(E)
    if semi:
        for (s, e, _) in E:
            for i in range(s + 1, e):
                out.add((s, i, o_inside(S, s, i)))
                out.add((i, e, o_inside(S, i, e)))
    return {t for t in out if mn <= t[1] - t[0] <= mx}


def o_nonspecific(n, min_len, max_len):
    mn = 1 if min_len is None else min_len
    mx = n if max_len is None else max_len
    return {(i, j, 0) for i in range(n + 1) for j in range(i + 1, n + 1) if (j - i) < n and mn <= j - i <= mx}


# named proteases, typed in from their biochemical definition (independent of constants.PROTEASES):
#   (residues before the cut, residues after the cut, residues forbidden after the cut)
NAMED = {
    'arg-c': ('R', None, None), 'asp-n': (None, 'D', None), 'chymotrypsin': ('FWYL', None, 'P'),
    'chymotrypsin/P': ('FWYL', None, None), 'glu-c': ('E', None, None), 'lys-c': ('K', None, None),
    'lys-n': (None, 'K', None), 'trypsin': ('KR', None, 'P'), 'trypsin/P': ('KR', None, None),
    'proteinase k': ('AEFILTVWY', None, None), 'proalanase': ('PA', None, None), 'elastase': ('AGSVLI', None, None),
    'pepsin': ('FLWY', None, None), 'thermolysin': ('LFIAVM', None, None),
    'promega-chymotrypsin-high-specificity': ('YFW', None, None),
    'promega-chymotrypsin-low-specificity': ('YFWLM', None, None),
    'proalanase-low-specificity': ('PASG', None, None),
}


def o_rule_sites(seq, rule):
    n = len(seq)
    if rule in NAMED:
        before, after, forbid = NAMED[rule]
        out = set()
        for i in range(n + 1):
            ok = True
            if before is not None:
                ok = ok and i >= 1 and seq[i - 1] in before
            if after is not None:
                ok = ok and i < n and seq[i] in after
            if forbid is not None:
                # trypsin/chymotrypsin: "(?=[^P])" / "(?!P)": not before proline
                if rule == 'trypsin':
                    ok = ok and i < n and seq[i] not in forbid
                else:
                    ok = ok and not (i < n and seq[i] in forbid)
            if ok:
                out.add(i)
        return out
    if rule == 'non-specific':
        return set(range(n + 1))
    if rule == 'no-cleave':
        return set()
    # user regex: zero-width match => site at the match; consuming match => site after the first consumed residue
    out = set()
    for m in regex.finditer(rule, seq, overlapped=True):
        out.add(m.start() + 1 if m.end() != m.start() else m.start())
    return out


def o_digest(seq, rules, mc, semi, min_len, max_len, complete):
    n = len(seq)
    if 'non-specific' in rules:
        out = o_nonspecific(n, min_len, max_len)
    else:
        sites = set()
        for r in rules:
            sites |= o_rule_sites(seq, r)
        out = o_spans(n, sites, mc, min_len, max_len, semi)
    if not complete:
        out = out | {(0, n, 0)}
    return out


# ---------------------------------------------------------------- finding classification

def fk_digest(inp, exp, obs):
    seq, rules, mc, semi, mn, mx, complete = inp['seq'], inp['rules'], inp['mc'], inp['semi'], inp['min_len'], \
        inp['max_len'], inp['complete']
    n = len(seq)
    if 'non-specific' not in rules:
        sites = set()
        for r in rules:
            sites |= o_rule_sites(seq, r)
        if sites | {0, n} == set(range(n + 1)) and len(sites) == n + 1:
            return 'C06-allsites-shortcut'
    return None


# ---------------------------------------------------------------- cases

def bag(gen):
    lst = list(gen)
    return lst


def check_builder(rec, clause, inp, got_list, expected_set):
    got = list(got_list)
    ok = len(got) == len(set(got)) and set(got) == expected_set
    return rec.case(clause, ok, inp, sorted(expected_set), sorted(got),
                    nontrivial_key=(clause, len(expected_set) > 0, len(expected_set) > 3, str(inp)[:0]) if False else
                    (clause, tuple(sorted(expected_set))[:6]))


def families(nmax):
    """all (n, sites) with sites a subset of 0..n"""
    for n in range(0, nmax + 1):
        for k in range(0, n + 2):
            for sites in itertools.combinations(range(n + 1), k):
                yield n, list(sites)


def run_builders(rec, tier, only=None):
    nmax = 5 if tier == 'quick' else 7
    lens = [None, 1, 2, 3, 5]
    def want(name):
        return only is None or only == name
    # simple builders on one parent span
    for s in range(0, 3):
        for e in range(s, s + nmax + 1):
            for v in (0, 2):
                for mn in lens:
                    for mx in lens + [nmax + 3]:
                        span = (s, e, v)
                        m, M = (1 if mn is None else mn), mx
                        if want('build_left_semi_spans'):
                            MM = (e - s) if M is None else M
                            exp = {(s, i, v) for i in range(s + 1, e) if m <= i - s <= MM}
                            check_builder(rec, 'build_left_semi_spans', dict(span=span, min_len=mn, max_len=mx),
                                          sp.build_left_semi_spans(span, mn, mx), exp)
                        if want('build_right_semi_spans'):
                            MM = (e - s) if M is None else M
                            exp = {(i, e, v) for i in range(s + 1, e) if m <= e - i <= MM}
                            check_builder(rec, 'build_right_semi_spans', dict(span=span, min_len=mn, max_len=mx),
                                          sp.build_right_semi_spans(span, mn, mx), exp)
                        if want('build_non_enzymatic_spans'):
                            MM = (e - s - 1) if M is None else min(M, e - s - 1)
                            exp = {(i, j, 0) for i in range(s, e) for j in range(i + 1, e + 1) if m <= j - i <= MM}
                            check_builder(rec, 'build_non_enzymatic_spans', dict(span=span, min_len=mn, max_len=mx),
                                          sp.build_non_enzymatic_spans(span, mn, mx), exp)
    # family-level builders
    for n, sites in families(nmax):
        for mc in range(0, 4 if tier == 'quick' else 5):
            S = o_sites(sites, n)
            for mn in lens:
                m = 1 if mn is None else mn
                fam_parent = [t for t in o_enzymatic(n, sites, mc) if t[1] - t[0] >= m]
                for mx in lens:
                    M = n if mx is None else mx
                    inp = dict(n=n, sites=sites, mc=mc, min_len=mn, max_len=mx)
                    if want('build_enzymatic_spans'):
                        exp = {t for t in o_enzymatic(n, sites, mc) if m <= t[1] - t[0] <= M}
                        check_builder(rec, 'build_enzymatic_spans', inp,
                                      sp.build_enzymatic_spans(n, list(sites), mc, mn, mx), exp)
                    # grouped builders: ASSUMED contract of the deductive tier, checked here on the real functions
                    left = {(s, i, o_inside(S, s, i)) for (s, e, _) in o_enzymatic(n, sites, mc)
                            for i in range(s + 1, e) if i not in S or True}
                    left = {(s, i, v) for (s, i, v) in left if i not in S and m <= i - s and (mx is None or i - s <= mx)}
                    right = {(i, e, o_inside(S, i, e)) for (s, e, _) in o_enzymatic(n, sites, mc) for i in range(s + 1, e)
                             if i not in S and m <= e - i and (mx is None or e - i <= mx)}
                    if want('_grouped_left_semi_span_builder'):
                        check_builder(rec, '_grouped_left_semi_span_builder', dict(inp, spans=fam_parent),
                                      sp._grouped_left_semi_span_builder(list(fam_parent), mn, mx), left)
                    if want('_grouped_right_semi_span_builder'):
                        check_builder(rec, '_grouped_right_semi_span_builder', dict(inp, spans=fam_parent),
                                      sp._grouped_right_semi_span_builder(list(fam_parent), mn, mx), right)
                    if want('build_semi_spans'):
                        got = list(sp.build_semi_spans(list(fam_parent), mn, mx))
                        rec.case('build_semi_spans', sorted(got) == sorted(list(left) + list(right)),
                                 dict(inp, spans=fam_parent), sorted(list(left) + list(right)), sorted(got),
                                 nontrivial_key=('semi', tuple(sorted(left))[:4], tuple(sorted(right))[:4]))
                    if want('build_spans'):
                        for semi in (False, True):
                            if len(set(sites)) == n + 1:
                                exp = o_nonspecific(n, mn, mx)
                            else:
                                exp = o_spans(n, sites, mc, mn, mx, semi)
                            check_builder(rec, 'build_spans', dict(inp, semi=semi),
                                          sp.build_spans(n, list(sites), mc, mn, mx, semi), exp)


ALPHABET = 'KRPDEA'
USER_RULES = ['(?<=K)', '(?=D)', '([KR])', '(K)(?!P)', 'K', '(?<=[KR])(?=[^P])', 'DE', '(?<=P)|(?=A)']


def _digest_seqs(rec, seqs, tier, rule_sets, params):
    for seq in seqs:
        for rules in rule_sets:
            # one parameter tuple per (seq, rules) chosen round-robin + a few fixed: keeps the quick tier < 1 min
            chosen = [params[(zlib.crc32(repr((seq, rules)).encode()) + 7 * j) % len(params)] for j in range(2 if tier == 'quick' else 6)]
            chosen += [(0, False, None, None, True), (1, True, None, None, True)]
            for (mc, semi, mn, mx, complete) in chosen:
                inp = dict(seq=seq, rules=rules, mc=mc, semi=semi, min_len=mn, max_len=mx, complete=complete)
                rec.guarded('digest-span-set', inp, lambda: digest_case(inp), fk_digest)


def _digest_worker(job):
    seqs, tier, rule_sets, params = job
    r = Recorder('w', '', '')
    _digest_seqs(r, seqs, tier, rule_sets, params)
    return r.state()


def run_digest(rec, tier, seed):
    import random
    rnd = random.Random(seed)
    L = 5 if tier == 'quick' else 6
    named = ['trypsin', 'trypsin/P', 'lys-c', 'lys-n', 'asp-n', 'glu-c', 'arg-c', 'proalanase', 'non-specific',
             'no-cleave', 'chymotrypsin', 'proteinase k']
    if tier != 'quick':
        named = sorted(NAMED) + ['non-specific', 'no-cleave']
    rule_sets = [[r] for r in named] + [[r] for r in USER_RULES] + \
                [['lys-c', 'glu-c'], ['lys-n', 'lys-c'], ['trypsin', 'asp-n'], ['arg-c', '(?=D)', 'proalanase'],
                 ['([KR])', 'lys-n'], ['asp-n', 'glu-c', 'lys-c']]
    params = []
    for mc in (0, 1, 2, 4):
        for semi in (False, True):
            for mn, mx in ((None, None), (1, 3), (2, None), (None, 2), (3, 12), (4, 4)):
                for complete in (True, False):
                    params.append((mc, semi, mn, mx, complete))
    seqs = []
    for n in range(0, L + 1):
        for tup in itertools.product(ALPHABET, repeat=n):
            seqs.append(''.join(tup))
    if tier == 'quick':
        # all strings up to length 4, a seeded third of the length-5 strings (stated bound)
        short = [s for s in seqs if len(s) <= 4]
        long_ = [s for s in seqs if len(s) == 5]
        rnd.shuffle(long_)
        seqs = short + long_[:len(long_) // 6]
    if tier == 'quick':
        _digest_seqs(rec, seqs, tier, rule_sets, params)
    else:
        # thorough: the strings are dealt round-robin to worker processes (same cases as a serial run)
        jobs = [(seqs[i::56], tier, rule_sets, params) for i in range(56)]
        for st_ in run_parallel(_digest_worker, jobs):
            rec.absorb(st_)
    # random longer proteins over all residues
    aa = 'ACDEFGHIKLMNPQRSTVWY'
    for _ in range(150 if tier == 'quick' else 3000):
        seq = ''.join(rnd.choice(aa) for _ in range(rnd.randint(9, 60)))
        rules = rnd.choice(rule_sets)
        mc, semi, mn, mx, complete = rnd.choice(params)
        inp = dict(seq=seq, rules=rules, mc=mc, semi=semi, min_len=mn, max_len=mx, complete=complete)
        rec.guarded('digest-span-set', inp, lambda: digest_case(inp), fk_digest)


def digest_case(inp):
    seq, rules, mc, semi, mn, mx, complete = inp['seq'], inp['rules'], inp['mc'], inp['semi'], inp['min_len'], \
        inp['max_len'], inp['complete']
    exp = o_digest(seq, rules, mc, semi, mn, mx, complete)
    got = list(dg.digest(seq, rules if len(rules) > 1 else rules[0], mc, semi, mn, mx, complete, 'span', True))
    ok = set(got) == exp and len(got) == len(set(got)) and got == sorted(got)
    if ok:
        # return types describe the same peptides, in the same order
        strs = list(dg.digest(seq, rules, mc, semi, mn, mx, complete, 'str', True))
        ss = list(dg.digest(seq, rules, mc, semi, mn, mx, complete, 'str-span', True))
        ans = list(dg.digest(seq, rules, mc, semi, mn, mx, complete, 'annotation-span', True))
        an = list(dg.digest(seq, rules, mc, semi, mn, mx, complete, 'annotation', True))
        unsorted = list(dg.digest(seq, rules, mc, semi, mn, mx, complete, 'span', False))
        ok = strs == [seq[s:e] for s, e, _ in got] and [x[1] for x in ss] == got and [x[0] for x in ss] == strs \
            and [x[1] for x in ans] == got and [a.serialize() for a in an] == strs \
            and [x[0].serialize() for x in ans] == strs and sorted(unsorted) == got
        if not ok:
            return False, 'all return types project the same sorted span list', dict(spans=got, strs=strs), None
    return ok, sorted(exp), got, ('digest', tuple(sorted(exp))[:5], len(exp) > 2)


def run_sequential(rec, tier, seed):
    """a sequential digest with complete, zero-missed-cleavage stages equals the simultaneous digest with all rules"""
    L = 5 if tier == 'quick' else 6
    pairs = [('lys-c', 'glu-c'), ('trypsin/P', 'asp-n'), ('arg-c', 'lys-n'), ('glu-c', 'arg-c'), ('lys-c', 'asp-n'),
             ('proalanase', 'lys-c')]
    for n in range(0, L + 1):
        for tup in itertools.product(ALPHABET, repeat=n):
            seq = ''.join(tup)
            if tier == 'quick' and n == 5 and zlib.crc32(seq.encode()) % 5:
                continue
            for pr in pairs:
                for mn, mx in ((None, None), (2, 4)):
                    inp = dict(seq=seq, rules=list(pr), min_len=mn, max_len=mx)
                    rec.guarded('sequential-equals-simultaneous', inp, lambda: seq_case(inp))


def seq_case(inp):
    seq, rules, mn, mx = inp['seq'], inp['rules'], inp['min_len'], inp['max_len']
    cfgs = [dg.EnzymeConfig(regex=[r], missed_cleavages=0, semi_enzymatic=False, complete_digestion=True) for r in rules]
    got = sorted(set(dg.sequential_digest(seq, cfgs, mn, mx, 'span')))
    # the simultaneous digest; span values of a sequential digest are inherited from the first stage (all 0 here)
    exp = sorted(set(o_digest(seq, rules, 0, False, mn, mx, True)))
    return got == exp, exp, got, ('seq', tuple(exp)[:5])


def main():
    a = args()
    replayers = {
        'digest-span-set': lambda inp: digest_case(inp),
        'sequential-equals-simultaneous': lambda inp: seq_case(inp),
    }
    if a.replay:
        import json
        rec = json.load(open(a.replay))
        if rec['clause'] in replayers:
            replay_main(a, replayers)
        # builder-level replays: re-run the single builder case
        r = Recorder('replay', '', '')
        inp = rec['input']
        name = rec['clause']
        run_one_builder(r, name, inp)
        print(json.dumps(dict(clause=name, input=inp, reproduces=bool(r.violations),
                              detail=r.violations[:1]), default=str))
        sys.exit(1 if r.violations else 0)
    rec = Recorder('C06-bounded',
                   'exhaustive: every parent span / site family (n, sites subset of 0..n) x mc x min/max lengths through each '
                   'real span builder; every protein over {K,R,P,D,E,A} up to the stated length x rule sets x parameters '
                   'through the real digest(); non-trivial = distinct (clause, expected span set prefix)',
                   bound=('builders: n<=5 (quick) / n<=7 (thorough), mc<=3/4, min/max in {None,1,2,3,5}; digest: all proteins of '
                          'length<=4 + 1/6 of length 5 (quick) / all of length<=6 (thorough) over {K,R,P,D,E,A}, '
                          '12/19 named proteases + 8 user regexes + 6 multi-rule sets; random proteins to length 60'))
    if a.only and a.model_input:
        import json
        mi = json.loads(a.model_input)
        ren = dict(max_index='n', enzyme_sites='sites', missed_cleavages='mc')
        inp = {ren.get(k, k): v for k, v in mi.items()}
        try:
            run_one_builder(rec, a.only, inp)
        except Exception:
            pass
    elif a.only:
        run_builders(rec, a.tier, a.only)
    else:
        run_builders(rec, a.tier)
        run_digest(rec, a.tier, a.seed)
        run_sequential(rec, a.tier, a.seed)
    rec.dump(a.out)


def run_one_builder(r, name, inp):
    n, sites, mc, mn, mx = inp.get('n'), inp.get('sites'), inp.get('mc'), inp.get('min_len'), inp.get('max_len')
    m = 1 if mn is None else mn
    if name in ('build_left_semi_spans', 'build_right_semi_spans', 'build_non_enzymatic_spans'):
        s, e, v = inp['span']
        if name == 'build_left_semi_spans':
            MM = (e - s) if mx is None else mx
            exp = {(s, i, v) for i in range(s + 1, e) if m <= i - s <= MM}
        elif name == 'build_right_semi_spans':
            MM = (e - s) if mx is None else mx
            exp = {(i, e, v) for i in range(s + 1, e) if m <= e - i <= MM}
        else:
            MM = (e - s - 1) if mx is None else min(mx, e - s - 1)
            exp = {(i, j, 0) for i in range(s, e) for j in range(i + 1, e + 1) if m <= j - i <= MM}
        check_builder(r, name, inp, getattr(sp, name)(tuple(inp['span']), mn, mx), exp)
        return
    S = o_sites(sites, n)
    M = n if mx is None else mx
    fam_parent = [t for t in o_enzymatic(n, sites, mc) if t[1] - t[0] >= m]
    left = {(s, i, o_inside(S, s, i)) for (s, e, _) in o_enzymatic(n, sites, mc) for i in range(s + 1, e)
            if i not in S and m <= i - s and (mx is None or i - s <= mx)}
    right = {(i, e, o_inside(S, i, e)) for (s, e, _) in o_enzymatic(n, sites, mc) for i in range(s + 1, e)
             if i not in S and m <= e - i and (mx is None or e - i <= mx)}
    if name == 'build_enzymatic_spans':
        check_builder(r, name, inp, sp.build_enzymatic_spans(n, list(sites), mc, mn, mx),
                      {t for t in o_enzymatic(n, sites, mc) if m <= t[1] - t[0] <= M})
    elif name == '_grouped_left_semi_span_builder':
        check_builder(r, name, inp, sp._grouped_left_semi_span_builder(list(fam_parent), mn, mx), left)
    elif name == '_grouped_right_semi_span_builder':
        check_builder(r, name, inp, sp._grouped_right_semi_span_builder(list(fam_parent), mn, mx), right)
    elif name == 'build_semi_spans':
        got = list(sp.build_semi_spans(list(fam_parent), mn, mx))
        r.case(name, sorted(got) == sorted(list(left) + list(right)), inp, None, got)
    elif name == 'build_spans':
        semi = inp['semi']
        exp = o_nonspecific(n, mn, mx) if len(set(sites)) == n + 1 else o_spans(n, sites, mc, mn, mx, semi)
        check_builder(r, name, inp, sp.build_spans(n, list(sites), mc, mn, mx, semi), exp)


if __name__ == '__main__':
    main()
