"""Bounded stand-in for C03: the mass calculator and the composition calculator agree.
mass(a, ...) == chem_mass(composition part) + residual shift reported by comp_mass(a, ...); with estimate_delta the estimated
composition has the same monoisotopic mass.  Exhaustive over the Unimod / PSI-MOD tables for the per-entry clause.  Bounded."""
import itertools
import os
import random
import sys
import warnings
warnings.simplefilter('ignore')
sys.path.insert(0, os.path.dirname(os.path.abspath(__file__)))
from common import Recorder, args, replay_main

import peptacular as pt
from peptacular.mods import mod_db_setup as dbs

ION_TYPES = ['p', 'n', 'a', 'b', 'c', 'x', 'y', 'z', 'ax', 'ay', 'az', 'bx', 'by', 'bz', 'cx', 'cy', 'cz', 'i']
TEXTS = [
    'PEPTIDE', 'PEP[Oxidation]TIDE', 'PEP[1.5]TIDE', '[Acetyl]-PEPTIDE-[Amidated]', 'PEP[Phospho]^2TIDE', 'PEP[+10.25]^3TIDE',
    '{Glycan:Hex}PEPTIDE', '[Formula:C2H3N]?PEPTIDE', 'P(EP)[Oxidation]TIDE', 'PEP[Oxidation|+15.99]TIDE', 'PEP[Obs:+5.5|Acetyl]TIDE',
    'PEP[Phospho#g1]TID[#g1]E', '<[Carbamidomethyl]@C>PECTCIDE', '<[+10.5]@T>PEPTTIDET', '<[Formula:C2H2O]@N-Term>PEPTIDE',
    '<[Oxidation]@C-Term,E>PEPTIDE', '<13C>PEPTIDE', '<15N>PEP[Acetyl]TIDE', '<18O>PEPTIDE-[Amidated]', '<D>PEPTIDE', '<13C><15N>PEPTK',
    'PEPTIDE/2', 'PEPTIDE/-2', 'PEPTIDE/2[+Na+,+H+]', 'PEPTIDE/3[+2Na+,+H+]', 'PEP[1.5][Oxidation]TIDE/2', '[1.5]-PEPT[Formula:[13C2]H4]IDE',
    'PEP[Glycan:HexNAc2Hex3]TIDE', 'PEM[Unimod:35]TIDE', 'PEP[MOD:00046]TIDE', '<T>PEPTIDE',
    # labile modifications that are plain mass shifts (lost on every fragment ion), alone / with a labelled peptide
    '{100}PEPTIDE', '{+3.5}{Glycan:Hex}PEPT[1]IDE', '<13C>{100}PEPTIDE',
    # a static mass-shift rule hitting the same residue three times / beside another modification / with a multiplier
    '<[10]@T>PEPTTTIDE', '<[10]^2@T>PEPTTTIDE', '<[10]@T>PEPTT[1]TIDE',
]


def case(inp):
    text, ion, charge, isotope, mono = inp['text'], inp['ion'], inp['charge'], inp['isotope'], inp['mono']
    kw = dict(ion_type=ion, isotope=isotope)
    if charge is not None:
        kw['charge'] = charge
    if inp.get('adducts'):
        kw['charge_adducts'] = inp['adducts']
    try:
        m = pt.mass(text, monoisotopic=mono, **kw)
    except ValueError as e:
        try:
            pt.comp_mass(text, **kw)
        except ValueError:
            return True, None, None, ('both-raise', text)
        return False, 'both calculators raise for the same input', f'mass raised {type(e).__name__}, comp_mass did not', None
    comp, delta = pt.comp_mass(text, **kw)
    cm = pt.chem_mass(comp, monoisotopic=mono)
    tol = 1e-4 if mono else 1e-3 + 5e-6 * abs(m)
    if abs(m - (cm + delta)) > tol:
        return False, ('mass == chem_mass(composition) + residual shift', m), dict(comp_mass=cm, delta=delta, sum=cm + delta, diff=m - cm - delta), None
    if delta != 0 and mono:
        est = pt.comp(text, estimate_delta=True, **kw)
        em = pt.chem_mass(est, monoisotopic=True)
        if abs(em - m) > 1e-3:
            return False, ('estimated composition has the same monoisotopic mass', m), em, None
    return True, None, None, ('agree', text, ion, mono)


def fk(inp, exp, obs):
    t = inp['text']
    import re
    if re.search(r'\[[+-]?\d+[A-Za-z]+\d*[+-]', t) and re.search(r'[\[,][+-]\d+[A-Za-z]', t):
        return 'C03-adduct-count-electron'
    if inp.get('adducts'):
        for a_ in inp['adducts'].split(','):
            m_ = re.fullmatch(r'([+-])(\d*)([A-Za-z]+)(\d*)([+-])', a_)
            if m_ and (1 if m_.group(1) == '+' else -1) * (int(m_.group(2)) if m_.group(2) else 1) != 1:
                return 'C03-adduct-count-electron'
    if re.search(r'\[(Obs:)?[+-]?\d[^\]|]*\|[A-Za-z]', t):
        return 'C03-alternatives-mass-vs-composition'
    return '?' + t[:24]


def case_entry(inp):
    """per vocabulary entry: mass of the entry == mass of its composition, in the requested mode"""
    val, mono = inp['value'], inp['mono']
    try:
        m = pt.mod_mass(val, monoisotopic=mono)
    except ValueError:
        try:
            pt.mod_comp(val)
        except ValueError:
            return True, None, None, ('both-raise',)
        return True, None, None, ('mass-raises-only',)   # an entry with a composition but no resolvable mass is C10's clause
    try:
        comp = pt.mod_comp(val)
    except ValueError:
        return True, None, None, ('no-composition',)
    cm = pt.chem_mass(comp, monoisotopic=mono)
    tol = 1e-4 if mono else 1e-3 + 5e-6 * abs(m)
    return abs(m - cm) <= tol, ('entry mass == mass of its composition', m), cm, ('entry', val)


def fk_entry(inp, exp, obs):
    return '?' + inp['value'].split(':')[0]


def chnops(comp):
    import re
    return all(re.sub(r'^\d+', '', k) in ('C', 'H', 'N', 'O', 'P', 'S') for k in comp)


def run(rec, tier, seed):
    rnd = random.Random(seed)
    for text in TEXTS:
        for ion in ION_TYPES:
            combos = [(None, 0, True), (2, 1, False), (-3, 0, True), (4, 3, False), (1, 2, True)]
            for charge, iso, mono in combos:
                if '/' in text and charge is not None and rnd.random() < 0.5:
                    charge = None
                if tier == 'quick' and ion not in ('p', 'b', 'y') and rnd.random() < 0.6:
                    continue
                inp = dict(text=text, ion=ion, charge=charge, isotope=iso, mono=mono)
                rec.guarded('mass-equals-composition', inp, lambda: case(inp), fk)
    for ad in ('+Na+', '+H+,+K+', '+2H+', '-H+'):
        for mono in (True, False):
            inp = dict(text='PEPTIDE', ion='p', charge=2, isotope=0, mono=mono, adducts=ad)
            rec.guarded('mass-equals-composition', inp, lambda: case(inp), fk)
    # the adduct ARGUMENT on labelled / already charged peptides and on fragment ions (it overrides what the text says)
    for text in ('<13C>PEPTIDE', '<15N>PEP[Acetyl]TIDE', 'PEP[1.5]TIDE/2[+H+,+K+]', '{100}PEPTIDE'):
        for ion in ('p', 'b', 'y', 'cz'):
            for ad, q in (('+Na+', 1), ('+Na+,+H+', 2)):
                for mono in (True, False):
                    inp = dict(text=text, ion=ion, charge=q, isotope=0, mono=mono, adducts=ad)
                    rec.guarded('mass-equals-composition', inp, lambda: case(inp), fk)
    # exhaustive over the vocabularies
    for db, prefix in ((dbs.UNIMOD_DB, 'UNIMOD:'), (dbs.PSI_MOD_DB, 'MOD:')):
        ents = list(db.id_map.values())
        if tier == 'quick':
            ents = ents[::4]
        for e in ents:
            ident = str(e.id)
            val = ident if ':' in ident else prefix + ident
            for mono in (True, False):
                if not mono:
                    try:
                        if not chnops(pt.mod_comp(val)):
                            continue     # the statement: average mode only for entries composed of C,H,N,O,P,S
                    except ValueError:
                        continue
                if prefix == 'MOD:' and (e.mono_mass is None or not e.composition):
                    continue
                if prefix == 'MOD:':
                    # "every PSI-MOD entry whose own table row is self-consistent"
                    try:
                        if abs(pt.chem_mass(e.composition) - e.mono_mass) > 1e-4:
                            continue
                        if not mono and (e.avg_mass is None or abs(pt.chem_mass(e.composition, monoisotopic=False) - e.avg_mass) > 1e-3):
                            continue
                    except Exception:
                        continue
                inp = dict(value=val, mono=mono)
                rec.guarded('vocabulary-entry', inp, lambda: case_entry(inp), fk_entry)


def main():
    a = args()
    if a.replay:
        replay_main(a, {'mass-equals-composition': case, 'vocabulary-entry': case_entry})
    rec = Recorder('C03-bounded',
                   '31 annotation texts (every modification position and kind, multipliers, | alternatives, # tags, intervals, labile, '
                   'unknown, static rules incl. N-Term / C-Term / multi-residue, isotope labels 13C / 15N / 18O / D / T, charge and adducts '
                   'in the text) x 18 ion types x 5 (charge, isotope, mode) tuples + adduct arguments; every Unimod entry (average mode: '
                   'CHNOPS only) and every self-consistent PSI-MOD entry; mass() against chem_mass(comp_mass()) + residual, and the averagine '
                   'estimate against the monoisotopic mass',
                   bound='31 texts x 18 ion types x 5 tuples (40% of the non p/b/y types sampled out in quick); Unimod / PSI-MOD every 4th '
                         'entry (quick) / every entry (thorough)')
    run(rec, a.tier, a.seed)
    rec.dump(a.out, exhaustive=False)


if __name__ == '__main__':
    main()
