"""Bounded stand-in for C09 (the parser is total; deferred validation raises instead of counting a modification as zero).
Exhaustive over all token strings up to a stated length over the notation alphabet; mutations of valid strings; the deferred
validation clause over every modification position x a corpus of unresolvable values.  Labelled bounded."""
import itertools
import json
import os
import random
import signal
import sys
import warnings
warnings.simplefilter('ignore')
sys.path.insert(0, os.path.dirname(os.path.abspath(__file__)))
from common import Recorder, args, replay_main

import peptacular as pt
from peptacular.proforma.proforma_parser import parse, serialize

TOKENS = ['P', 'K', 'B', 'X', '[', ']', '(', ')', '{', '}', '<', '>', '?', '-', '+', '/', '^', '@', '#', '|', ':', ',', '.', '1', '23', '0',
          'Oxidation', '\\', ' ', 'e']


class Hang(Exception):
    pass


def _alarm(signum, frame):
    raise Hang()


signal.signal(signal.SIGALRM, _alarm)


def case_parse(inp):
    s = inp['text']
    signal.setitimer(signal.ITIMER_REAL, 5.0)
    try:
        try:
            a = parse(s)
        except ValueError:
            return True, None, None, ('rejected',)
        try:
            out = serialize(a)
            if not isinstance(out, str):
                return False, 'serialize returns a string', repr(out), None
            out2 = serialize(a, include_plus=True)
        except Exception as e:  # noqa
            return False, 'accepted text can be serialized', f'serialize raised {type(e).__name__}: {e}', None
        return True, None, None, ('accepted', out[:12])
    except Hang:
        return False, 'parse terminates', 'no result after 5 s', None
    except Exception as e:  # noqa
        return False, 'ValueError or an annotation', f'{type(e).__name__}: {e}', None
    finally:
        signal.setitimer(signal.ITIMER_REAL, 0)


def fk_parse(inp, exp, obs):
    return '?' + str(obs).split(':')[0]


VALID = ['PEPTIDE', '[Acetyl]-PEP[Oxidation]TIDE-[Amidated]/2', '<13C><[Carbamidomethyl]@C>{Glycan:Hex}[Phospho]?PEC(TI)[1.5]^2DE/2[+2Na+,+H+]',
         'PEPT[+79.966]^2IDE+ELVIS//LIVER', '(?PE)PTK[Formula:C2H3[13C1]]|INFO:x#g1(0.5)]/-2', 'EM[U:Oxidation]EVT[#g1]S[Obs:+15.9]K']

# values no resolver can give a mass / composition
UNRESOLVABLE = ['Foo', 'Unimod:999999', 'U:NoSuchName', 'MOD:99999999', 'Glycan:Foo3', 'Obs:abc', 'XLMOD:99999999',
                'RESID:ZZ9999', 'GNO:G0000000X', 'M:NoSuchName', 'R:NoSuchName', 'X:NoSuchName', 'G:NoSuchName',
                'INFO:only information|Foo', '', 'Foo|', '|Foo', 'Foo|Bar']
POSITIONS = ['PEP[{m}]TIDE', '[{m}]-PEPTIDE', 'PEPTIDE-[{m}]', '[{m}]?PEPTIDE', '{{{m}}}PEPTIDE', 'P(EP)[{m}]TIDE', '<[{m}]@P>PEPTIDE',
             'PEP[{m}]^2TIDE', 'PEP[Oxidation][{m}]TIDE']
# charge adducts are modification values too: an adduct no table resolves
ADDUCT_TEXTS = ['PEPTIDE/1[+Xx+]', 'PEPTIDE/2[+Na+,+Zz+]', 'PEPTIDE/1[+2Qq2+]', '[Acetyl]-PEPTIDE/1[-Xx-]']


def case_deferred(inp):
    s = inp['text']
    try:
        a = parse(s)
    except ValueError:
        return True, None, None, ('rejected-at-parse',)
    for name, f in (('mass', lambda: pt.mass(a.copy())), ('mass-avg', lambda: pt.mass(a.copy(), monoisotopic=False)),
                    ('comp', lambda: pt.comp(a.copy(), estimate_delta=True))):
        try:
            r = f()
        except ValueError:
            continue
        except Exception as e:  # noqa
            return False, f'{name}: a ValueError-family error', f'{type(e).__name__}: {e}', None
        return False, f'{name} raises instead of counting the modification as zero', repr(r)[:80], None
    return True, None, None, ('deferred', inp['value'], inp['position'])


def case_adduct(inp):
    a = parse(inp['text'])
    for name, f in (('mass', lambda: pt.mass(a.copy())), ('mass-avg', lambda: pt.mass(a.copy(), monoisotopic=False)), ('mz', lambda: pt.mz(a.copy()))):     # (comp() keeps the unknown symbol in the composition: not "counted as zero")
        try:
            r = f()
        except ValueError:
            continue
        except Exception as e:  # noqa
            return False, f'{name}: a ValueError-family error', f'{type(e).__name__}: {e}', None
        return False, f'{name} raises for an unresolvable adduct', repr(r)[:80], None
    return True, None, None, ('adduct', inp['text'])


def fk_def(inp, exp, obs):
    return '?' + inp.get('value', '') + ':' + str(exp)[:14]


def run(rec, tier, seed):
    rnd = random.Random(seed)
    L = 4 if tier == 'quick' else 5
    for n in range(0, L + 1):
        for toks in itertools.product(TOKENS, repeat=n):
            inp = dict(text=''.join(toks))
            rec.guarded('parse-total', inp, lambda: case_parse(inp), fk_parse)
    # length L+1 and L+2: seeded sample (stated)
    for n, cnt in ((L + 1, 60000 if tier == 'quick' else 400000), (L + 2, 20000 if tier == 'quick' else 200000)):
        for _ in range(cnt):
            inp = dict(text=''.join(rnd.choice(TOKENS) for _ in range(n)))
            rec.guarded('parse-total', inp, lambda: case_parse(inp), fk_parse)
    # random up to 40 tokens, and single-token mutations of valid strings
    for _ in range(3000 if tier == 'quick' else 60000):
        inp = dict(text=''.join(rnd.choice(TOKENS) for _ in range(rnd.randint(6, 40))))
        rec.guarded('parse-total', inp, lambda: case_parse(inp), fk_parse)
    for v in VALID:
        chars = list(v)
        for i in range(len(chars) + 1):
            variants = [chars[:i] + chars[i + 1:], chars[:i] + chars[i:i + 1] + chars[i:]]
            for t in TOKENS:
                variants.append(chars[:i] + [t] + chars[i:])
            if i + 1 < len(chars):
                variants.append(chars[:i] + [chars[i + 1], chars[i]] + chars[i + 2:])
            for var in variants:
                inp = dict(text=''.join(var))
                rec.guarded('parse-total', inp, lambda: case_parse(inp), fk_parse)
    for t_ in ADDUCT_TEXTS:
        inp = dict(text=t_, value=t_, position='adduct')
        rec.guarded('deferred-validation-adducts', inp, lambda: case_adduct(inp), fk_def)
    # deferred validation
    for pos in POSITIONS:
        for val in UNRESOLVABLE:
            inp = dict(text=pos.format(m=val), value=val, position=pos)
            rec.guarded('deferred-validation', inp, lambda: case_deferred(inp), fk_def)
    # every entry of the bundled ontologies that has neither a mass nor a formula must raise as well
    from peptacular.mods import mod_db_setup as mod_db
    for dbname, prefix in (('PSI_MOD_DB', 'MOD:'), ('XLMOD_DB', 'XLMOD:')):
        db = getattr(mod_db, dbname, None)
        ents = []
        try:
            ents = [e for e in db.id_map.values() if e.mono_mass is None and e.avg_mass is None and not e.composition]
        except Exception:
            pass
        ents = ents if tier != 'quick' else ents[:60]
        for e in ents:
            ident = str(getattr(e, 'id', ''))
            val = ident if ':' in ident else prefix + ident
            for pos in POSITIONS[:2]:
                inp = dict(text=pos.format(m=val), value=val, position=pos)
                rec.guarded('deferred-validation', inp, lambda: case_deferred(inp), fk_def)


def main():
    a = args()
    if a.replay:
        replay_main(a, {'parse-total': case_parse, 'deferred-validation': case_deferred, 'deferred-validation-adducts': case_adduct})
    rec = Recorder('C09-bounded',
                   'every string of up to L tokens over a 30-token notation alphabet (residues, every bracket, ? - + / ^ @ # | : , . digits, '
                   'a known modification name, backslash, space), seeded samples of L+1 / L+2 tokens and of 6..40 tokens, every '
                   'delete / duplicate / insert / swap of one token in 6 valid strings; parse() must return (and the result serialize) or raise '
                   'ValueError within 5 s.  Deferred validation: 9 modification positions x 18 unresolvable values, and the ontology '
                   'entries without mass and formula: mass()/comp() must raise a ValueError-family error. non-trivial = distinct outcome class',
                   bound='L = 4 (quick: 837 931 strings) / 5 (thorough: 25 137 931 strings); 83 000 / 660 000 sampled longer strings')
    if a.only and a.model_input:
        # a refuted parser obligation: the solver's text is replayed on the real parse()
        mi = json.loads(a.model_input)
        text = None
        for v in mi.values():
            if isinstance(v, dict) and 'sequence' in v:
                text = v['sequence']
            elif isinstance(v, str) and text is None:
                text = v
        if text is not None:
            inp = dict(text=text)
            rec.guarded('parse-total', inp, lambda: case_parse(inp), fk_parse)
        rec.dump(a.out)
        return
    run(rec, a.tier, a.seed)
    rec.dump(a.out, exhaustive=False)


if __name__ == '__main__':
    main()
