"""Bounded stand-in + replay finder for C16 (subsequence search, coverage, unordered containment).
Oracle (from the statement): offset i is an occurrence iff target residues [i, i+m) equal the query residues and the query's
modifications equal the target's on that stretch (compared through the real slice + equality, see C11/C20), overlapping
occurrences included.  Labelled bounded."""
import itertools
import json
import os
import sys
import warnings
from collections import Counter
warnings.simplefilter('ignore')
sys.path.insert(0, os.path.dirname(os.path.abspath(__file__)))
from common import Recorder, args, replay_main

import peptacular as pt
from peptacular.sequence import sequence_funcs as sf
from peptacular.proforma.proforma_parser import parse


def residues(annot):
    """list of (letter, sorted mods text) per residue, plus terminal mod texts"""
    out = []
    im = annot.internal_mods or {}
    for i, aa in enumerate(annot.sequence):
        mods = tuple(sorted(repr((m.val, m.mult)) for m in im.get(i, [])))
        out.append((aa, mods))
    return out


def o_occurrences(target, query, ignore_mods):
    t, q = parse(target), parse(query)
    if not t.sequence or not q.sequence:
        return []
    tr, qr = residues(t), residues(q)
    m = len(qr)
    out = []
    for i in range(0, len(tr) - m + 1):
        if ignore_mods:
            if [a for a, _ in tr[i:i + m]] == [a for a, _ in qr]:
                out.append(i)
        else:
            if tr[i:i + m] == qr:
                # terminal modifications of the query must be those the target slice carries
                qn = sorted(repr((x.val, x.mult)) for x in (q.nterm_mods or []))
                qc = sorted(repr((x.val, x.mult)) for x in (q.cterm_mods or []))
                tn = sorted(repr((x.val, x.mult)) for x in (t.nterm_mods or [])) if i == 0 else []
                tc = sorted(repr((x.val, x.mult)) for x in (t.cterm_mods or [])) if i + m == len(tr) else []
                if qn == tn and qc == tc:
                    out.append(i)
    return out


def case_find(inp):
    exp = o_occurrences(inp['target'], inp['query'], inp['ignore_mods'])
    got = sf.find_subsequence_indices(inp['target'], inp['query'], ignore_mods=inp['ignore_mods'])
    ok = list(got) == exp
    if ok and inp['ignore_mods']:
        # "with modifications ignored it equals plain substring search"
        ts, qs = pt.strip_mods(inp['target']), pt.strip_mods(inp['query'])
        plain = [i for i in range(len(ts) - len(qs) + 1) if ts.startswith(qs, i)] if ts and qs else []
        ok = list(got) == plain
    if ok:
        ok = sf.is_subsequence(inp['query'], inp['target'], order=True) == (len(exp) > 0) or inp['ignore_mods']
    return ok, exp, list(got), ('find', tuple(exp), len(exp) > 1)


def fk_find(inp, exp, obs):
    # overlapping occurrences skipped by the non-overlapping regex scan
    if isinstance(obs, list) and isinstance(exp, list) and set(obs) <= set(exp):
        m = len(pt.strip_mods(inp['query']))
        missing = [i for i in exp if i not in obs]
        if missing and all(any(0 < abs(i - j) < m for j in exp) for i in missing):
            return 'C16-overlap-skipped'
    return None


def case_coverage(inp):
    target, subs, acc, ign = inp['target'], inp['subs'], inp['accumulate'], inp['ignore_mods']
    n = len(pt.strip_mods(target))
    exp = [0] * n
    for s in subs:
        m = len(pt.strip_mods(s))
        for i in o_occurrences(target, s, ign):
            for x in range(i, i + m):
                exp[x] = exp[x] + 1 if acc else 1
    got = sf.coverage(target, list(subs), accumulate=acc, ignore_mods=ign)
    ok = list(got) == exp
    if ok and not acc:
        pc = sf.percent_coverage(target, list(subs), ignore_mods=ign)
        ok = (pc == (sum(exp) / n if n else 0)) and 0 <= pc <= 1
    return ok, exp, list(got), ('cov', tuple(exp))


def fk_cov(inp, exp, obs):
    # coverage inherits the overlap defect of the search
    for s in inp['subs']:
        e = o_occurrences(inp['target'], s, inp['ignore_mods'])
        g = list(sf.find_subsequence_indices(inp['target'], s, ignore_mods=inp['ignore_mods']))
        if e != g and fk_find(dict(target=inp['target'], query=s, ignore_mods=inp['ignore_mods']), e, g):
            return 'C16-overlap-skipped'
    return None


def modres_multiset(s):
    a = parse(s)
    return Counter(residues(a))


def case_unordered(inp):
    q, t = inp['query'], inp['target']
    if '-' in q or '-' in t:
        # terminal modifications: the statement speaks of modified residues only; whether a terminal modification belongs to
        # the terminal residue's key is not fixed by it -- outside the clause's domain, not checked
        return True, None, None, None
    exp = not (modres_multiset(q) - modres_multiset(t))
    got = sf.is_subsequence(q, t, order=False)
    return bool(got) == exp, exp, got, ('unord', exp, q, t)


MODS = ['', '[Oxidation]', '[1.5]', '[Oxidation][1.5]', '[1.5][1.5]']


def run(rec, tier, seed, only=None):
    import random
    rnd = random.Random(seed)
    T = 7 if tier == 'quick' else 9
    Q = 3 if tier == 'quick' else 4
    # exhaustive two-letter alphabet (forces overlaps)
    for n in range(0, T + 1):
        for tt in itertools.product('AB', repeat=n):
            target = ''.join(tt)
            for m in range(1, Q + 1):
                for qq in itertools.product('AB', repeat=m):
                    query = ''.join(qq)
                    for ign in (False, True):
                        inp = dict(target=target, query=query, ignore_mods=ign)
                        rec.guarded('find-occurrences', inp, lambda: case_find(inp), fk_find)
                    if n <= 5 and m <= 2:
                        inp = dict(target=target, subs=[query, 'AB'], accumulate=(n + m) % 2 == 0, ignore_mods=False)
                        rec.guarded('coverage', inp, lambda: case_coverage(inp), fk_cov)
                        inp2 = dict(query=query, target=target)
                        rec.guarded('unordered-containment', inp2, lambda: case_unordered(inp2))
    # modified targets: every modification pattern over short residue strings, queries cut from them or perturbed
    for n in (2, 3) if tier == 'quick' else (2, 3, 4):
        for letters in itertools.product('AK', repeat=n):
            for mods in itertools.product(MODS[:4] if tier == 'quick' else MODS, repeat=n):
                target = ''.join(a + b for a, b in zip(letters, mods))
                for i in range(n):
                    for j in range(i + 1, n + 1):
                        for variant in range(4):
                            ql, qm = list(letters[i:j]), list(mods[i:j])
                            if variant == 3:
                                # the same modifications written in the other order on each residue: the same modified residues
                                if '[Oxidation][1.5]' not in qm:
                                    continue
                                qm = ['[1.5][Oxidation]' if x == '[Oxidation][1.5]' else x for x in qm]
                            if variant == 1:
                                qm[0] = '' if qm[0] else '[Oxidation]'
                            if variant == 2:
                                qm = [''] * len(qm)
                            query = ''.join(a + b for a, b in zip(ql, qm))
                            for ign in (False, True):
                                inp = dict(target=target, query=query, ignore_mods=ign)
                                rec.guarded('find-occurrences', inp, lambda: case_find(inp), fk_find)
                            inp = dict(target=target, subs=[query, letters[0]], accumulate=variant != 1, ignore_mods=variant == 2)
                            rec.guarded('coverage', inp, lambda: case_coverage(inp), fk_cov)
                            inp2 = dict(query=query, target=target)
                            rec.guarded('unordered-containment', inp2, lambda: case_unordered(inp2))
    # terminal modifications and repeated listed subsequences with equal residues but different modifications
    extra = [('[Acetyl]-AKA[1.5]K', ['AK', '[Acetyl]-AK', 'A[1.5]K', 'AK']), ('AAPEPS[Phospho]KAAPEPSKAA', ['PEPSK', 'PEPS[Phospho]K']),
             ('AKP[1][1]EAKP[1]E', ['KP[1]E', 'KP[1][1]E']), ('PEPTIDE-[Amidated]', ['IDE', 'IDE-[Amidated]', 'PEP']),
             ('K[1.5]K[1.5]K[1.5]K', ['K[1.5]K', 'K[1.5]K[1.5]', 'KK']),
             ('EP[Phospho][1]KP[1][Phospho]', ['P[1][Phospho]', 'P[Phospho][1]K', 'KP[Phospho][1]', 'P[1]'])]
    for target, subs in extra:
        for acc in (False, True):
            for ign in (False, True):
                inp = dict(target=target, subs=subs, accumulate=acc, ignore_mods=ign)
                rec.guarded('coverage', inp, lambda: case_coverage(inp), fk_cov)
        for q in subs:
            for ign in (False, True):
                inp = dict(target=target, query=q, ignore_mods=ign)
                rec.guarded('find-occurrences', inp, lambda: case_find(inp), fk_find)
            inp2 = dict(query=q, target=target)
            rec.guarded('unordered-containment', inp2, lambda: case_unordered(inp2))
    # random modified targets up to length 40
    aa = 'ACDEFGHIKLMNPQRSTVWY'
    for _ in range(200 if tier == 'quick' else 4000):
        n = rnd.randint(1, 40)
        letters = [rnd.choice(aa[:4]) for _ in range(n)]
        mods = [rnd.choice(MODS) if rnd.random() < 0.3 else '' for _ in range(n)]
        target = ''.join(a + b for a, b in zip(letters, mods))
        i = rnd.randint(0, n - 1)
        j = rnd.randint(i + 1, min(n, i + 4))
        qm = mods[i:j]
        if rnd.random() < 0.3:
            qm = [rnd.choice(MODS) for _ in qm]
        query = ''.join(a + b for a, b in zip(letters[i:j], qm))
        for ign in (False, True):
            inp = dict(target=target, query=query, ignore_mods=ign)
            rec.guarded('find-occurrences', inp, lambda: case_find(inp), fk_find)
        inp = dict(target=target, subs=[query, letters[0] + letters[1] if n > 1 else letters[0]], accumulate=rnd.random() < 0.5,
                   ignore_mods=rnd.random() < 0.5)
        rec.guarded('coverage', inp, lambda: case_coverage(inp), fk_cov)


REPLAY = {'find-occurrences': case_find, 'coverage': case_coverage, 'unordered-containment': case_unordered}


def main():
    a = args()
    if a.replay:
        replay_main(a, REPLAY)
    rec = Recorder('C16-bounded',
                   'exhaustive: every target over {A,B} up to the stated length x every query up to the stated length (overlaps forced) '
                   'x ignore_mods; every modification pattern (none / one / two different / repeated) over short {A,K} strings with '
                   'queries cut from them or perturbed; terminal-mod and same-residue-different-mod lists; random modified targets to '
                   'length 40; coverage (mark / count) and percent coverage against the occurrence oracle; unordered containment against '
                   'the multiset of modified residues; non-trivial = distinct (clause, expected result)',
                   bound='targets <=7 (quick) / <=9 (thorough) over 2 letters, queries <=3/4; modified strings of length <=3/4 with 4/5 '
                         'modification decorations per residue; 200/4000 random cases')
    run(rec, a.tier, a.seed, a.only)
    rec.dump(a.out)


if __name__ == '__main__':
    main()
