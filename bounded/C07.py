"""Bounded stand-in for C07: digested peptides keep their modifications, their mass and their place.  Oracle: the abstract view
(bounded/amodel.py) of the protein sliced at the span; the real subsequence search; mass conservation.  Labelled bounded."""
import os
import random
import sys
import warnings
warnings.simplefilter('ignore')
sys.path.insert(0, os.path.dirname(os.path.abspath(__file__)))
from common import Recorder, args, replay_main, run_parallel
from amodel import view, build, RES_MODS

import peptacular as pt
from peptacular.proforma.proforma_parser import parse

RULES = ['trypsin/P', 'lys-c', 'glu-c', 'asp-n', '([KR])', 'non-specific', 'proalanase']


def o_slice(v, i, j):
    n = len(v['res'])
    exp = dict(v)
    exp['res'] = v['res'][i:j]
    exp['nterm'] = v['nterm'] if i == 0 else ()
    exp['cterm'] = v['cterm'] if j == n else ()
    exp['intervals'] = sorted((tuple(x - i for x in idx), amb, m) for idx, amb, m in v['intervals'] if idx and idx[0] >= i and idx[-1] < j)
    return exp


def straddles(v, spans):
    for idx, _, _ in v['intervals']:
        for (s, e, _) in spans:
            for c in (s, e):
                if idx and idx[0] < c <= idx[-1]:
                    return True
    return False


def case(inp):
    text, rule, mc, semi = inp['text'], inp['rule'], inp['mc'], inp['semi']
    a = parse(text)
    v = view(a)
    before = a.serialize()
    kw = dict(missed_cleavages=mc, semi=semi)
    spans = list(pt.digest(a.copy(), rule, return_type='span', **kw))
    # an interval straddling a cut: which of the two peptides carries it is not fixed by the statement -- the interval clause and the
    # mass sum are not checked for such a digest; everything else (residues, residue / terminal / global modifications, the agreement
    # of the return types, the text re-parsing to the annotation, the peptide found again at its offset) is
    cut = straddles(v, spans)
    noiv = (lambda d: {k_: x for k_, x in d.items() if k_ != 'intervals'}) if cut else (lambda d: d)
    annots = list(pt.digest(a.copy(), rule, return_type='annotation', **kw))
    strs = list(pt.digest(a.copy(), rule, return_type='str', **kw))
    ss = list(pt.digest(a.copy(), rule, return_type='str-span', **kw))
    ans = list(pt.digest(a.copy(), rule, return_type='annotation-span', **kw))
    if not (len(spans) == len(annots) == len(strs) == len(ss) == len(ans)):
        return False, 'five return types describe the same peptides', [len(x) for x in (spans, annots, strs, ss, ans)], None
    for k, (s, e, _) in enumerate(spans):
        p = annots[k]
        exp = o_slice(v, s, e)
        w = view(p)
        if noiv(w) != noiv(exp):
            return False, ('peptide of span %s == slice of the protein' % ((s, e),), exp), w, None
        if strs[k] != p.serialize() or ss[k] != (strs[k], spans[k]) or ans[k][1] != spans[k] or noiv(view(ans[k][0])) != noiv(exp):
            return False, ('return types agree for span %s' % ((s, e),), p.serialize()), (strs[k], ss[k], ans[k][1]), None
        if e > s:
            rp = parse(strs[k])
            if not (rp == p):
                return False, ('peptide string re-parses to the returned annotation', strs[k]), rp.serialize(), None
            found = pt.find_subsequence_indices(a.copy(), p.copy())
            if s not in found:
                return False, ('peptide found again in the protein at offset %d' % s, strs[k]), list(found), None
    if a.serialize() != before:
        return False, 'protein unchanged', a.serialize(), None
    if mc == 0 and not semi and not cut and rule != 'non-specific':
        parts = list(pt.digest(a.copy(), rule, missed_cleavages=0, return_type='annotation'))
        if parts and not any('Glycan' in str(m) or 'Carbamid' in str(m) for m in v['static']):
            # labels and static rules are carried by every peptide; charge must not be counted k times -> compare neutral masses
            tot = sum(pt.mass(x, charge=0) for x in parts)
            exp_m = pt.mass(a.copy(), charge=0) + (len(parts) - 1) * pt.chem_mass({'H': 2, 'O': 1})
            if abs(tot - exp_m) > 1e-6 * max(1, len(parts)):
                if v['labile'] or v['unknown']:
                    # recorded finding: labile / unknown-position modifications ride on EVERY peptide; is the excess exactly that?
                    lu = pt.mass(a.copy(), charge=0) - pt.mass(parse(strip_lu(text)), charge=0)
                    if abs((tot - exp_m) - (len(parts) - 1) * lu) <= 1e-6 * max(1, len(parts)):
                        inp['_known'] = 'C07-labile-unknown-on-every-peptide'
                return False, ('zero-missed-cleavage peptides sum to the protein mass + one water per cut', exp_m), tot, None
    return True, None, None, ('c07', rule, mc, semi, len(spans))


def strip_lu(text):
    """the protein text without its labile ({..}) and unknown-position ([..]?) modifications"""
    import re
    t = re.sub(r'\{[^}]*\}(\^\d+)?', '', text)
    t = re.sub(r'(\[[^\]]*\](\^\d+)?)+\?', '', t)
    return t


def fk(inp, exp, obs):
    if inp.get('_known') and 'sum to the protein mass' in str(exp):
        return inp['_known']
    return '?' + str(exp)[:50]


def texts(tier, rnd):
    base = ['PEKTIDERPK', 'KKK', 'AKAKAKR', 'MDEKRPTK', 'K']
    decor = [dict(), dict(nterm='[Acetyl]-'), dict(cterm='-[Amidated]'), dict(labile='{Glycan:Hex}'), dict(unknown='[1.5]?'), dict(static='<[Carbamidomethyl]@K>'),
             dict(isotope='<13C>'), dict(nterm='[Acetyl]-', cterm='-[2.5]', static='<[1.5]@E>', isotope='<15N>', charge='/2')]
    for seq in base:
        n = len(seq)
        pats = [[''] * n, [RES_MODS[(i % 4) + 1] if i % 2 == 0 else '' for i in range(n)], [RES_MODS[1]] * n]
        for pat in pats:
            for d in decor:
                ivs = [()]
                if n >= 4:
                    ivs.append(((1, 3, False, '[1.25]'),))
                if n >= 7:
                    ivs.append(((2, 6, False, '[1.25]'),))      # cut by the cleavage sites inside it
                for iv in ivs:
                    yield build(seq, pat, intervals=iv, **d)
    aa = 'ACDEFGHIKLMNPQRSTVWY'
    for _ in range(40 if tier == 'quick' else 800):
        n = rnd.randint(1, 40)
        seq = ''.join(rnd.choice(aa + 'KKRRDE') for _ in range(n))
        pat = [rnd.choice(RES_MODS) if rnd.random() < 0.25 else '' for _ in range(n)]
        yield build(seq, pat, **rnd.choice(decor))


def _worker(inputs):
    r = Recorder('w', '', '')
    for inp in inputs:
        r.guarded('digested-peptides-faithful', inp, lambda: case(inp), fk)
    return r.state()


def run(rec, tier, seed):
    rnd = random.Random(seed)
    inputs = []
    for text in texts(tier, rnd):
        for rule in (RULES if tier != 'quick' else RULES[:2] + RULES[4:6]):
            for mc in (0, 1, 3):
                for semi in (False, True):
                    if tier == 'quick' and (mc == 3 or (semi and mc)) and rnd.random() < 0.6:
                        continue
                    inputs.append(dict(text=text, rule=rule, mc=mc, semi=semi))
    if tier == 'quick':
        for inp in inputs:
            rec.guarded('digested-peptides-faithful', inp, lambda: case(inp), fk)
    else:
        # thorough: the same cases dealt round-robin to worker processes
        for st_ in run_parallel(_worker, [inputs[i::56] for i in range(56)]):
            rec.absorb(st_)
    # the semi-/non-enzymatic sequence generators use the same dispatcher
    for text in list(texts('quick', rnd))[:40]:
        a = parse(text)
        v = view(a)
        if v['intervals']:
            continue
        for name in ('get_left_semi_enzymatic_sequences', 'get_right_semi_enzymatic_sequences', 'get_semi_enzymatic_sequences',
                     'get_non_enzymatic_sequences'):
            for rt in ('str-span', 'annotation-span'):
                inp = dict(text=text, gen=name, rt=rt)
                rec.guarded('sequence-generators-faithful', inp, lambda: gen_case(inp), fk)


def gen_case(inp):
    a = parse(inp['text'])
    v = view(a)
    out = list(getattr(pt, inp['gen'])(a.copy(), return_type=inp['rt'], max_len=4))
    spans_only = list(getattr(pt, inp['gen'])(a.copy(), return_type='span', max_len=4))
    if [x[1] for x in out] != spans_only:
        return False, ('same spans as return_type=span', spans_only[:5]), [x[1] for x in out][:5], None
    for item, (s, e, _) in out:
        p = parse(item) if isinstance(item, str) else item
        if view(p) != o_slice(v, s, e):
            return False, ('peptide of span %s == slice of the protein' % ((s, e),), o_slice(v, s, e)['res']), view(p)['res'], None
    return True, None, None, ('gen', inp['gen'], inp['rt'], len(out))


def main():
    a = args()
    if a.replay:
        replay_main(a, {'digested-peptides-faithful': case, 'sequence-generators-faithful': gen_case})
    rec = Recorder('C07-bounded',
                   'modified protein annotations (5 base sequences incl. runs of the cut residue x 3 residue-modification patterns x 7 '
                   'decorations x with/without an interval; random proteins to length 40) x 7 rules x missed cleavages {0,1,3} x semi; every '
                   'returned peptide against the slice of the abstract view, 5 return types, re-parse, subsequence search at offset s, '
                   'mass conservation for zero missed cleavages; the 4 sequence generators with the paired return types',
                   bound='210 structured + 40 (quick) / 800 (thorough) random proteins x 7 rules x up to 6 (mc, semi) pairs')
    run(rec, a.tier, a.seed)
    rec.dump(a.out, exhaustive=False)


if __name__ == '__main__':
    main()
