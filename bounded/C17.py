"""Bounded stand-in + replay finder for C17 (spectrum matching).  Oracle = the quadratic brute-force matcher of the statement.
Labelled bounded -- never counted as proved."""
import itertools
import json
import os
import sys
import warnings
warnings.simplefilter('ignore')
sys.path.insert(0, os.path.dirname(os.path.abspath(__file__)))
from common import Recorder, args, replay_main

import peptacular.score as sc
from peptacular.fragmentation import Fragment


def off(mz, tol, ttype):
    return tol if ttype == 'th' else mz * tol / 1e6


def brute(f, mzs, tol, ttype):
    o = off(f, tol, ttype)
    return [j for j, m in enumerate(mzs) if f - o <= m <= f + o]


def o_indices(s1, s2, tol, ttype):
    out = []
    for f in s1:
        b = brute(f, s2, tol, ttype)
        out.append((b[0], b[-1] + 1) if b else None)
    return out


def case_indices(inp):
    s1, s2, tol, ttype = inp['s1'], inp['s2'], inp['tol'], inp['ttype']
    exp = o_indices(s1, s2, tol, ttype)
    got = sc.get_matched_indices(list(s1), list(s2), tol, ttype)
    got = [tuple(x) if x is not None else None for x in got]
    return got == exp, exp, got, ('idx', tuple(exp))


def case_match(inp):
    s1, s2, tol, ttype, mode, ints = inp['s1'], inp['s2'], inp['tol'], inp['ttype'], inp['mode'], inp['ints']
    got = sc.match_spectra(list(s1), list(s2), tol, ttype, mode, list(ints))
    ok = len(got) == len(s1)
    for f, g in zip(s1, got):
        b = brute(f, s2, tol, ttype)
        if not b:
            ok = ok and g is None
        elif mode == 'all':
            ok = ok and g == b
        elif mode == 'closest':
            ok = ok and g in b and abs(f - s2[g]) == min(abs(f - s2[j]) for j in b)
        else:
            ok = ok and g in b and ints[g] == max(ints[j] for j in b)
    return ok, 'brute-force agreement', got, ('ms', mode, tuple(str(x) for x in got))


def mkfrag(i, mz):
    return Fragment(charge=1, ion_type='b' if i % 2 == 0 else 'y', start=0 if i % 2 == 0 else i % 3, end=(i % 3) + 1 if i % 2 == 0 else 4,
                    monoisotopic=True, isotope=0, loss=0.0, parent_sequence='PEPT', mass=mz, neutral_mass=mz, mz=mz,
                    sequence='PEPT'[0:(i % 3) + 1] if i % 2 == 0 else 'PEPT'[i % 3:4], unmod_sequence='P', internal=False)


def case_fragment_matches(inp):
    fm, pm, ints, tol, ttype, mode = inp['frag_mz'], inp['peak_mz'], inp['ints'], inp['tol'], inp['ttype'], inp['mode']
    frags = [mkfrag(i, m) for i, m in enumerate(fm)]
    before = [id(f) for f in frags]
    got = sc.get_fragment_matches(list(frags), list(pm), list(ints), tol, ttype, mode)
    triples = sorted((frags.index(m.fragment), m.mz, m.intensity) for m in got)
    ok = True
    exp_all = sorted((i, pm[j], ints[j]) for i, f in enumerate(fm) for j in brute(f, pm, tol, ttype))
    if mode == 'all':
        ok = triples == exp_all
    else:
        seen = {}
        for (i, mz, it) in triples:
            ok = ok and i not in seen
            seen[i] = (mz, it)
        for i, f in enumerate(fm):
            b = brute(f, pm, tol, ttype)
            if not b:
                ok = ok and i not in seen
            else:
                ok = ok and i in seen
                if i in seen:
                    mz, it = seen[i]
                    ok = ok and any(pm[j] == mz and ints[j] == it for j in b)
                    if mode == 'closest':
                        ok = ok and abs(f - mz) == min(abs(f - pm[j]) for j in b)
                    else:
                        ok = ok and it == max(ints[j] for j in b)
    if not ok:
        return False, exp_all, triples, None
    # matched-intensity fraction: distinct matched peaks / total, in [0,1]
    tot = sum(ints)
    if tot > 0:
        frac = sc.get_matched_intensity_percentage(got, list(ints))
        if len(set(pm)) == len(pm):
            peaks = {(m.mz, m.intensity) for m in got}      # distinct m/z values: a peak is its (m/z, intensity)
            expf = sum(it for (_, it) in peaks) / tot
        elif mode == 'all':
            # two peaks may share one m/z value: the distinct matched peaks are the matched INDICES
            idx = sorted({j for f in fm for j in brute(f, pm, tol, ttype)})
            expf = sum(ints[j] for j in idx) / tot
            inp['_dup_matched'] = len({pm[j] for j in idx}) < len(idx)
        else:
            return True, exp_all, triples, ('fm', mode, tuple(triples)[:6])
        if not (abs(frac - expf) < 1e-9 and -1e-12 <= frac <= 1 + 1e-12):
            return False, ('intensity-fraction', expf), frac, None
    return True, exp_all, triples, ('fm', mode, tuple(triples)[:6])


def case_coverage(inp):
    """coverage counts each matched fragment's residues once (per label = charge + ion type)"""
    fm, pm, ints, tol, ttype = inp['frag_mz'], inp['peak_mz'], inp['ints'], inp['tol'], inp['ttype']
    frags = [mkfrag(i, m) for i, m in enumerate(fm)]
    got = sc.get_fragment_matches(list(frags), list(pm), list(ints), tol, ttype, 'all')
    cov = sc.get_match_coverage(got)
    exp = {}
    matched = []
    for m in got:
        if m.fragment not in matched:
            matched.append(m.fragment)
    for f in matched:
        lab = '+' * abs(f.charge) + f.ion_type
        exp.setdefault(lab, [0] * 4)
        for i in range(f.start, f.end):
            exp[lab][i] += 1
    multi = len(got) != len(matched)
    return cov == exp, exp, cov, ('cov', json.dumps(exp, sort_keys=True))


def fk_cov(inp, exp, obs):
    # known: a fragment matched to several peaks in 'all' mode is counted once per peak
    fm, pm, tol, ttype = inp['frag_mz'], inp['peak_mz'], inp['tol'], inp['ttype']
    if any(len(brute(f, pm, tol, ttype)) > 1 for f in fm):
        return 'C17-coverage-counts-per-peak'
    return None


GRID = [100.0, 100.01, 100.02, 100.5, 200.0]
TOLS_TH = [0.0, 0.01, 0.015, 0.5, 1000.0]
TOLS_PPM = [0.0, 100.0, 150.0, 5000.0, 2e6]


def sorted_lists(maxlen, grid):
    for n in range(0, maxlen + 1):
        for c in itertools.combinations_with_replacement(grid, n):
            yield list(c)


def run(rec, tier, seed, only=None):
    import random
    rnd = random.Random(seed)
    L = 3 if tier == 'quick' else 4
    lists = list(sorted_lists(L, GRID))
    if only in (None, 'get_matched_indices'):
        for s1 in lists:
            for s2 in lists:
                for ttype, tols in (('th', TOLS_TH), ('ppm', TOLS_PPM)):
                    for tol in tols:
                        inp = dict(s1=s1, s2=s2, tol=tol, ttype=ttype)
                        rec.guarded('get_matched_indices', inp, lambda: case_indices(inp))
    if only in (None, 'match_spectra@all', 'match_spectra@closest', 'match_spectra@largest'):
        small = [l for l in lists if len(l) <= (2 if tier == 'quick' else 3)]
        for s1 in small:
            for s2 in lists:
                ints = [((7 * k + 3) % 5) + 1.0 for k in range(len(s2))]
                for ttype, tols in (('th', TOLS_TH[:4]), ('ppm', TOLS_PPM[:4])):
                    for tol in tols:
                        for mode in ('all', 'closest', 'largest'):
                            if only and not only.endswith(mode):
                                continue
                            inp = dict(s1=s1, s2=s2, tol=tol, ttype=ttype, mode=mode, ints=ints)
                            rec.guarded('match_spectra@' + mode, inp, lambda: case_match(inp))
    if only is None:
        # off-grid random sorted lists up to length 30
        for _ in range(300 if tier == 'quick' else 5000):
            s1 = sorted(round(rnd.uniform(50, 60), rnd.choice([1, 2, 4])) for _ in range(rnd.randint(0, 30)))
            s2 = sorted(round(rnd.uniform(50, 60), rnd.choice([1, 2, 4])) for _ in range(rnd.randint(0, 30)))
            ttype = rnd.choice(['th', 'ppm'])
            tol = rnd.choice([0, 0.05, 0.1, 1, 20]) if ttype == 'th' else rnd.choice([0, 10, 1000, 20000, 5e5])
            inp = dict(s1=s1, s2=s2, tol=tol, ttype=ttype)
            rec.guarded('get_matched_indices', inp, lambda: case_indices(inp))
            ints = [rnd.choice([1.0, 2.0, 5.0]) for _ in s2]
            for mode in ('all', 'closest', 'largest'):
                inp2 = dict(inp, mode=mode, ints=ints)
                rec.guarded('match_spectra@' + mode, inp2, lambda: case_match(inp2))
        # fragment matches: distinct peak m/z values, every input order of fragments and peaks
        peaks_sets = [[], [100.0], [100.0, 100.01], [100.0, 100.01, 100.5], [100.02, 100.0, 200.0, 100.01],
                      [100.0, 100.0, 100.5]]      # two peaks at one m/z value (different intensities)
        frag_sets = [[], [100.0], [100.01, 100.0], [100.0, 100.5, 100.01], [200.0, 100.02, 100.0]]
        for pm0 in peaks_sets:
            for perm in set(itertools.permutations(range(len(pm0)))):
                pm = [pm0[i] for i in perm]
                ints = [float(((3 * i + 1) % 4) + 1) for i in perm]
                for fm0 in frag_sets:
                    for fperm in set(itertools.permutations(range(len(fm0)))):
                        fm = [fm0[i] for i in fperm]
                        for ttype, tols in (('th', [0.0, 0.01, 0.6]), ('ppm', [0.0, 150.0, 6000.0])):
                            for tol in tols:
                                for mode in ('all', 'closest', 'largest'):
                                    inp = dict(frag_mz=fm, peak_mz=pm, ints=ints, tol=tol, ttype=ttype, mode=mode)
                                    rec.guarded('fragment-matches', inp, lambda: case_fragment_matches(inp), fk_fm)
                                inp = dict(frag_mz=fm, peak_mz=pm, ints=ints, tol=tol, ttype=ttype)
                                rec.guarded('coverage', inp, lambda: case_coverage(inp), fk_cov)


def fk_fm(inp, exp, obs):
    if not inp['peak_mz'] and isinstance(obs, str) and 'not enough values to unpack' in obs:
        return 'C17-empty-spectrum-unpack'
    if inp.get('_dup_matched') and isinstance(exp, tuple) and exp and exp[0] == 'intensity-fraction':
        return 'C17-same-mz-peaks-counted-once'
    return None


REPLAY = {'get_matched_indices': case_indices, 'match_spectra@all': case_match, 'match_spectra@closest': case_match,
          'match_spectra@largest': case_match, 'fragment-matches': case_fragment_matches, 'coverage': case_coverage}


def main():
    a = args()
    if a.replay:
        replay_main(a, REPLAY)
    rec = Recorder('C17-bounded',
                   'exhaustive sorted lists over a 5-value grid (ties, window overlaps) x 5 tolerances x {th, ppm} through the real '
                   'get_matched_indices / match_spectra (3 modes) against the brute-force matcher; fragment matching over all input '
                   'orders of small fragment / peak sets; random off-grid lists to length 30; non-trivial = distinct result',
                   bound='grid lists of length <=3 (quick) / <=4 (thorough); fragment/peak sets of <=4 elements in every order; '
                         '300/5000 random list pairs of length <=30')
    if a.only and a.model_input:
        mi = json.loads(a.model_input)
        name = a.only
        try:
            if name == 'get_matched_indices':
                inp = dict(s1=mi['mz_spectrum1'], s2=mi['mz_spectrum2'], tol=mi['tolerance_value'], ttype=mi['tolerance_type'])
                rec.guarded(name, inp, lambda: case_indices(inp))
            elif name.startswith('match_spectra'):
                ints = mi.get('intensity_spectra') or [1.0] * len(mi['mz_spectra'])
                inp = dict(s1=mi['fragments'], s2=mi['mz_spectra'], tol=mi['tolerance_value'], ttype=mi['tolerance_type'],
                           mode=name.split('@')[1], ints=ints)
                rec.guarded(name, inp, lambda: case_match(inp))
        except Exception:
            pass
    else:
        run(rec, a.tier, a.seed, a.only)
    rec.dump(a.out)


if __name__ == '__main__':
    main()
