"""Bounded stand-in for C18: condensing modifications to mass shifts preserves the peptide.  Labelled bounded."""
import os
import random
import re
import sys
import warnings
warnings.simplefilter('ignore')
sys.path.insert(0, os.path.dirname(os.path.abspath(__file__)))
from common import Recorder, args, replay_main

import peptacular as pt
from peptacular.proforma.proforma_parser import parse

TEXTS = [
    'PEPTIDE', 'PEP[Phospho]TIDE', 'PEPT[Dehydrated]IDE', 'P[-10]EPTIDE', '[Acetyl]-PEPTIDE', 'PEPTIDE-[Amidated]', '{Glycan:Hex}PEPTIDE',
    'PEP[Oxidation][1.5]TID[Formula:C2H2O]^2E', '<[Carbamidomethyl]@C>PECTCIDE', '<[Dehydrated]@S>PESTS', '<13C>PEP[Phospho]TIDE', '<15N>PEPTIDE',
    '{Glycan:Hex}<[Carbamidomethyl]@C>[Acetyl]-PEC[Oxidation]TIDE-[Amidated]', '<[10]@N-Term>PEPTIDE', '<[10]@C-Term,E>PEPTIDE',
    '[Oxidation]?PEPTIDE', 'P(EP)[Oxidation]TIDE', 'PEPTIDE/2', 'PEP[Phospho]TIDE/2[+Na+,+H+]', '<D>PEPTIDE', '<18O>PEPTIDE', 'K', 'K[1.5]',
    # a label together with a numeric global rule whose target occurs several times (the rule is expanded per residue before the labelled mass is taken)
    '<13C><[+10]@P>PEPT[Phospho]IDE', '<13C><[+10]@P>PEPTIDEPP', '<15N><[-2.5]@E>EEPTIDE[Oxidation]E', '<13C><[+10]@P>PEPTIDE',
]


def numeric_only(a):
    def ok(ms):
        return all(isinstance(m.val, (int, float)) for m in (ms or []))
    return ok(a.nterm_mods) and ok(a.cterm_mods) and ok(a.labile_mods) and ok(a.unknown_mods) and ok(a.static_mods) and ok(a.isotope_mods) \
        and all(ok(v) for v in (a.internal_mods or {}).values()) and all(ok(iv.mods) for iv in (a.intervals or []))


def case(inp):
    text, plus, prec = inp['text'], inp['include_plus'], inp['precision']
    a = parse(text)
    out = pt.condense_to_mass_mods(text, include_plus=plus, precision=prec)
    r = parse(out)
    if r.sequence != a.sequence:
        return False, ('same residues', a.sequence), r.sequence, None
    if not a.has_mods():
        return out == text, ('unmodified peptide returned unchanged', text), out, ('plain',)
    if not numeric_only(r):
        return False, 'only numeric modifications remain', out, None
    if r.static_mods or r.isotope_mods:
        return False, 'global rules and isotope labels are expanded per residue', out, None
    # number of shifts written
    k = sum(len(v) for v in (r.internal_mods or {}).values()) + len(r.nterm_mods or []) + len(r.cterm_mods or []) + len(r.labile_mods or []) \
        + len(r.unknown_mods or []) + sum(len(iv.mods or []) for iv in (r.intervals or []))
    m0 = pt.mass(text, charge=0)
    m1 = pt.mass(out, charge=0)
    if abs(m0 - m1) > max(1, k) * 10 ** (-prec) + 1e-9:
        return False, ('mass equals the original within precision x number of shifts', m0, k), (m1, out), None
    # shifts sit on the residues / termini that were modified (static rules and labels expanded per residue)
    exp_pos = set((a.internal_mods or {}).keys())
    cond = a.condense_static_mods()
    exp_pos |= set((cond.internal_mods or {}).keys())
    if a.isotope_mods:
        exp_pos = None       # a label touches every residue containing the element
    got_pos = set((r.internal_mods or {}).keys())
    if exp_pos is not None and not a.unknown_mods and not a.intervals and got_pos != exp_pos:
        return False, ('shifts sit on the residues that were modified', sorted(exp_pos)), (sorted(got_pos), out), None
    if exp_pos is not None and bool(r.nterm_mods) != bool(cond.nterm_mods) or bool(r.cterm_mods) != bool(cond.cterm_mods) \
            or bool(r.labile_mods) != bool(a.labile_mods):
        return False, ('terminal / labile shifts exactly where terminal / labile modifications were', out), \
            (bool(r.nterm_mods), bool(r.cterm_mods), bool(r.labile_mods)), None
    if plus:
        if re.search(r'[\[{](\d)', out):
            return False, 'include_plus writes the sign of positive shifts', out, None
    return True, None, None, ('c18', text[:16], plus, prec)


def fk(inp, exp, obs):
    t = inp['text']
    e = str(exp)
    if ('N-Term' in t or 'C-Term' in t) and ('mass equals' in e or 'shifts sit' in e or 'terminal' in e):
        return 'C18-terminal-static-rule-on-every-residue'
    if t.endswith('?PEPTIDE') or ']?' in t:
        return 'C18-unknown-position-on-every-residue'
    if '(' in t:
        return 'C18-interval-shift-on-every-residue-of-the-interval'
    if re.search(r'/-?\d', t):
        return 'C18-charge-written-as-residue-shifts'
    if '<D>' in t or '<18O>' in t or '<T>' in t or '<2H>' in t or '<17O>' in t:
        return 'C18-label-on-per-residue-water'
    if re.search(r'<\d*[A-Z][a-z]?>', t) and inp['precision'] >= 7 and 'mass equals' in e and re.search(r'\[[A-Z][a-z]', t):
        return 'C18-table-mass-vs-composition'
    return '?' + e[:40]


def run(rec, tier, seed):
    rnd = random.Random(seed)
    for text in TEXTS:
        for plus in (False, True):
            for prec in (3, 5, 8) if tier == 'quick' else (3, 4, 5, 6, 7, 8):
                inp = dict(text=text, include_plus=plus, precision=prec)
                rec.guarded('condense-preserves-peptide', inp, lambda: case(inp), fk)
    aa = 'ACDEFGHIKLMNPQRSTVWY'
    mods = ['[Phospho]', '[Dehydrated]', '[1.5]', '[-17.25]', '[Oxidation][2.5]', '[Formula:C2H2O]^2']
    for _ in range(80 if tier == 'quick' else 2000):
        n = rnd.randint(1, 15)
        body = ''.join(rnd.choice(aa) + (rnd.choice(mods) if rnd.random() < 0.3 else '') for _ in range(n))
        text = rnd.choice(['', '', '<13C>', '<[Carbamidomethyl]@C>', '{Glycan:Hex}']) + rnd.choice(['', '[Acetyl]-']) + body + rnd.choice(['', '-[Amidated]'])
        inp = dict(text=text, include_plus=rnd.random() < 0.5, precision=rnd.choice([3, 4, 5, 6, 7, 8]))
        rec.guarded('condense-preserves-peptide', inp, lambda: case(inp), fk)


def main():
    a = args()
    if a.replay:
        replay_main(a, {'condense-preserves-peptide': case})
    rec = Recorder('C18-bounded',
                   '23 annotation texts (residue incl. negative net shifts, terminal, labile, static incl. N-Term / C-Term, isotope labels, '
                   'unknown-position and interval modifications, charge and adducts) + random modified peptides x include_plus x precision 3..8: '
                   'same residues, only numeric modifications, shifts where the modifications were, mass within precision x number of shifts, '
                   'unmodified returned unchanged',
                   bound='23 texts x 2 x 3 (quick) / 6 (thorough) + 80 / 2000 random peptides of length <= 15')
    run(rec, a.tier, a.seed)
    rec.dump(a.out, exhaustive=False)


if __name__ == '__main__':
    main()
