"""Bounded stand-in for C20: modification dictionaries and copies reconstruct the same peptide; equality laws and sensitivity to
every single-field perturbation.  Labelled bounded."""
import copy
import os
import random
import sys
import warnings
warnings.simplefilter('ignore')
sys.path.insert(0, os.path.dirname(os.path.abspath(__file__)))
from common import Recorder, args, replay_main
from amodel import annotations, view

import peptacular as pt
from peptacular.proforma.proforma_parser import parse, create_annotation
from peptacular.proforma.proforma_dataclasses import Mod, Interval

EXTRA = ['[Acetyl][1.5]-P[Oxidation][Phospho]^2EK[1.5][1.5]-[Amidated]/2[+2Na+,-H+]', '{Glycan:Hex}{Glycan:HexNAc}^2PEPTIDE',
         '<13C><15N><[Carbamidomethyl]@C><[1.5]@N-Term,K>[Oxidation][Methyl]?PEC(TI)[1.25][2.5]DE(?K)P']


def perturbations(a):
    """(description, perturbed copy): each differs from `a` in exactly one respect"""
    out = []

    def cp():
        return a.copy()
    for field in ('nterm_mods', 'cterm_mods', 'labile_mods', 'unknown_mods', 'static_mods', 'isotope_mods', 'charge_adducts'):
        mods = getattr(a, field)
        if mods:
            b = cp(); getattr(b, field)[0].val = 'Changed' if not isinstance(mods[0].val, str) or mods[0].val != 'Changed' else 'Changed2'
            out.append((field + ': change one value', b))
            b = cp(); getattr(b, field)[0].mult += 1
            out.append((field + ': change one multiplier', b))
            b = cp(); getattr(b, field).pop(0)
            if not getattr(b, field):
                setattr(b, '_' + field, None)
            out.append((field + ': drop one modification', b))
            b = cp(); getattr(b, field).append(copy.deepcopy(mods[0]))
            out.append((field + ': duplicate one modification', b))
    im = a.internal_mods or {}
    n = len(a.sequence)
    for k in list(im)[:2]:
        b = cp(); b.internal_mods[k][0].val = 'Changed'
        out.append(('residue %d: change one value' % k, b))
        b = cp(); b.internal_mods[k][0].mult += 1
        out.append(('residue %d: change one multiplier' % k, b))
        b = cp(); ms = b.internal_mods.pop(k)
        if not b.internal_mods:
            b._internal_mods = None
        out.append(('residue %d: drop its modifications' % k, b))
        free = [i for i in range(n) if i not in im]
        if free:
            b = cp(); b.internal_mods[free[0]] = b.internal_mods.pop(k)
            out.append(('residue %d: move modifications to residue %d' % (k, free[0]), b))
        b = cp(); b.internal_mods[k].append(copy.deepcopy(im[k][0]))
        out.append(('residue %d: duplicate one modification' % k, b))
    for i, iv in enumerate(a.intervals or []):
        b = cp(); b.intervals[i].start += 1 if iv.start + 1 < iv.end else -1 if iv.start > 0 else 0
        if b.intervals[i].start != iv.start:
            out.append(('interval %d: change start' % i, b))
        b = cp(); b.intervals[i].end += 1
        out.append(('interval %d: change end' % i, b))
        b = cp(); b.intervals[i].ambiguous = not iv.ambiguous
        out.append(('interval %d: flip ambiguity' % i, b))
    # a position holding a repeated modification next to a different one: turning one copy of the repeated value into the other value keeps
    # the length and the SET of modifications but changes the multiset
    lists = [(f, lambda b_, f=f: getattr(b_, f)) for f in ('nterm_mods', 'cterm_mods', 'labile_mods', 'unknown_mods') if getattr(a, f)]
    lists += [('residue %d' % k, lambda b_, k=k: b_.internal_mods[k]) for k in im]
    for nm, get in lists:
        ms = get(a)
        for i, m in enumerate(ms):
            others = [o for o in ms if (o.val, o.mult) != (m.val, m.mult)]
            if len(ms) >= 3 and others and sum(1 for o in ms if (o.val, o.mult) == (m.val, m.mult)) >= 2:
                b = cp(); get(b)[i] = copy.deepcopy(others[0])
                out.append((nm + ': turn one copy of a repeated modification into another one already present', b))
                break
    b = cp(); b._charge = (a.charge or 0) + 1
    out.append(('charge: change', b))
    if n:
        b = cp(); b._sequence = ('A' if a.sequence[0] != 'A' else 'G') + a.sequence[1:]
        out.append(('residues: change one residue', b))
    return out


def case(inp):
    text = inp['text']
    a = parse(text)
    # mod dict + stripped sequence reproduce the original string
    md = pt.get_mods(text)
    stripped = pt.strip_mods(text)
    back = pt.add_mods(stripped, copy.deepcopy(md))
    if parse(back) != a or back != a.serialize():
        return False, ('add_mods(strip_mods(s), get_mods(s)) reproduces the string', a.serialize()), back, None
    if parse(stripped).has_mods() or parse(stripped).sequence != a.sequence:
        return False, 'stripping removes every modification and nothing else', stripped, None
    st = a.strip()
    if st.has_mods() or st.sequence != a.sequence or not (a == parse(text)):
        return False, 'strip(): bare residues, argument untouched', repr(st), None
    b = a.copy(); b.strip(inplace=True)
    if b.has_mods() or b.mod_dict() or not (b == st):
        return False, ('strip(inplace=True) == strip()', repr(st)), repr(b), None
    # method-level dictionary round trip
    c = a.strip(); c.add_mod_dict(a.mod_dict())
    if not (c == a and a == c):
        return False, ('add_mod_dict(strip(a), mod_dict(a)) == a', repr(a)), repr(c), None
    # field dictionary
    d = create_annotation(**a.dict())
    if not (d == a and a == d) or view(d) != view(a):
        return False, ('create_annotation(**a.dict()) == a', repr(a)), repr(d), None
    # copies: equal and independent
    cp = a.copy()
    if not (cp == a and a == cp):
        return False, 'copy equals its source', repr(cp), None
    for f in ('_nterm_mods', '_cterm_mods', '_labile_mods', '_unknown_mods', '_static_mods', '_isotope_mods', '_charge_adducts', '_internal_mods',
              '_intervals'):
        x, y = getattr(a, f), getattr(cp, f)
        if x is not None and x is y:
            return False, 'copy shares no mutable state with its source', f, None
    # equality: reflexive, symmetric, order-insensitive within one position
    if not (a == a):
        return False, 'reflexive', None, None
    r = a.copy()
    for f in ('nterm_mods', 'cterm_mods', 'labile_mods', 'unknown_mods'):
        if getattr(r, f):
            getattr(r, f).reverse()
    for k in (r.internal_mods or {}):
        r.internal_mods[k].reverse()
    if r.intervals:
        r.intervals.reverse()
    if not (r == a and a == r):
        return False, 'insensitive to the order of modifications at one position', repr(r), None
    # sensitivity to every single-field perturbation, in both directions
    for what, p in perturbations(a):
        if (p == a) or (a == p):
            return False, ('sensitive to: ' + what, False), ((p == a), (a == p), repr(p)), None
    return True, None, None, ('c20', text[:18])


def fk(inp, exp, obs):
    return '?' + str(exp)[:50]


def run(rec, tier, seed):
    rnd = random.Random(seed)
    extra = ['PEP[Oxidation][Oxidation][Phospho]TIDE', '[Acetyl][Acetyl][Methyl]-PEPTIDE', 'PEPTIDE-[Amidated][Methyl][Methyl]',
             '[Phospho][Phospho][Oxidation]?PEPTIDE', 'K[1.5][1.5][2.5][2.5]EK']
    for text in [t for t, _ in annotations(tier, seed)] + extra:
        inp = dict(text=text)
        rec.guarded('reconstruct-and-equality', inp, lambda: case(inp), fk)
    for text in EXTRA:
        inp = dict(text=text)
        rec.guarded('reconstruct-and-equality', inp, lambda: case(inp), fk)


def main():
    a = args()
    if a.replay:
        replay_main(a, {'reconstruct-and-equality': case})
    rec = Recorder('C20-bounded',
                   'grammar-directed family of annotations (all modification kinds, several modifications per position, multipliers, intervals, '
                   'charge + adducts): get_mods/strip_mods/add_mods string round trip, strip (both modes), mod_dict/add_mod_dict, '
                   'create_annotation(**dict()), copy equal + independent, equality reflexive / symmetric / order-insensitive, and unequal (both '
                   'directions) to every single-field perturbation (value, multiplier, position, interval bound, charge, drop, duplicate)',
                   bound='the amodel family: structured annotations of length <= 4 (quick) / 5 (thorough) + 150 / 2500 random; 3 dense extras')
    run(rec, a.tier, a.seed)
    rec.dump(a.out, exhaustive=False)


if __name__ == '__main__':
    main()
