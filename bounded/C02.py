"""Bounded stand-in for C02 (mass and m/z equal the sum of the physical parts), against the independent reference calculator
specs/refcalc.py (exact rationals over NIST atomic masses typed into specs/nist.py).  Labelled bounded."""
import itertools
import json
import os
import random
import sys
import warnings
from fractions import Fraction as F
warnings.simplefilter('ignore')
sys.path.insert(0, os.path.dirname(os.path.abspath(__file__)))
sys.path.insert(0, os.path.dirname(os.path.dirname(os.path.abspath(__file__))))
from common import Recorder, args, replay_main
from specs import nist
from specs.refcalc import Pep, RMod, ion_mass, adduct_mass

import peptacular as pt

MODS = ['1.5', '+15.995', '-18.01', 'Acetyl', 'Oxidation', 'Phospho', 'Formula:C2H3N1O-1', 'Formula:[13C2]H4', 'Glycan:HexNAc2Hex3',
        'Carbamidomethyl', 'U:Acetyl', 'Oxidation|INFO:note', 'Phospho#g1']
LETTERS = 'GASPVTCLINDQKEMHFRYWUOXJ'


def build(desc):
    def mods(lst):
        return [RMod(t, m) for t, m in lst]
    return Pep(desc['seq'], res={int(k): mods(v) for k, v in desc.get('res', {}).items()}, nterm=mods(desc.get('nterm', [])),
               cterm=mods(desc.get('cterm', [])), labile=mods(desc.get('labile', [])), unknown=mods(desc.get('unknown', [])),
               static=[(t, mods(m)) for t, m in desc.get('static', [])],
               intervals=[(a, b, mods(m)) for a, b, m in desc.get('intervals', [])])


def case_mass(inp):
    pep = build(inp['pep'])
    mono, charge, isotope, loss, prec, adducts = inp['mono'], inp['charge'], inp['isotope'], inp['loss'], inp['precision'], inp.get('adducts')
    text = pep.text()
    ref = ion_mass(pep, charge or 0, mono, isotope, loss, adducts)
    kw = dict(charge=charge, monoisotopic=mono, isotope=isotope, loss=loss, precision=prec)
    if adducts:
        kw['charge_adducts'] = ','.join(adducts)
    got = pt.mass(text, **kw)
    tol = F('1e-5') if mono else F('2e-3')
    if prec is not None:
        tol += F(5, 10 ** (prec + 1)) + F('1e-9')
    ok = abs(F(repr(float(got))) - ref) <= tol
    if not ok:
        return False, float(ref), got, None
    if inp['pep'].get('labile') and prec is None and not adducts:
        # "labile for the precursor only": a fragment-type ion does not carry the labile modifications, the precursor does
        bare = build(dict(inp['pep'], labile=[])).text()
        lab = sum((md.mass(mono) for md in pep.labile), F(0))
        for t_ in ('b', 'y', 'c', 'z', 'p'):
            d_ = pt.mass(text, ion_type=t_, charge=1, monoisotopic=mono) - pt.mass(bare, ion_type=t_, charge=1, monoisotopic=mono)
            want = float(lab) if t_ == 'p' else 0.0
            if abs(d_ - want) > float(tol):
                return False, ('labile modifications count for the precursor only: mass difference with / without them, ion type ' + t_, want), d_, None
    q = adduct_mass(adducts, mono)[1] if adducts else charge
    if q and q > 0 and not adducts:
        gz = pt.mz(text, charge=charge, monoisotopic=mono, isotope=isotope, loss=loss, precision=prec)
        tolz = tol / q + (F(5, 10 ** (prec + 1)) if prec is not None else 0)
        if abs(F(repr(float(gz))) - ref / q) > tolz:
            return False, ('m/z', float(ref / q)), gz, None
    return True, None, None, ('mass', text[:14], mono, charge, bool(adducts))


def fk(inp, exp, obs):
    d = inp['pep']
    kinds = [k for k in ('res', 'nterm', 'cterm', 'labile', 'unknown', 'static', 'intervals') if d.get(k)]
    named = any(not t.lstrip('+-')[0].isdigit() for k in kinds for t, _ in (
        [x for v in d['res'].values() for x in v] if k == 'res' else
        [x for _, m in d['static'] for x in m] if k == 'static' else
        [x for _, _, m in d['intervals'] for x in m] if k == 'intervals' else d[k]))
    if inp.get('adducts'):
        import re
        cnts = []
        for a_ in inp['adducts']:
            m_ = re.fullmatch(r'([+-])(\d*)([A-Za-z]+)(\d*)([+-])', a_)
            cnts.append((1 if m_.group(1) == '+' else -1) * (int(m_.group(2)) if m_.group(2) else 1))
        # known: the electron correction is applied once per adduct entry instead of once per ion
        if any(c_ != 1 for c_ in cnts):
            return 'C02-adduct-electron'
        return '?adduct'
    return '?' + ('avg' if not inp['mono'] else 'mono') + ':' + '+'.join(kinds) + (':named' if named else '')


def descs(tier, rnd):
    # structured: each placement kind alone with each modification, then combinations
    base = ['PEPTIDE', 'KMCWUO', 'G', 'XJAY']
    for seq in base:
        yield dict(seq=seq)
        for m in MODS:
            for mult in (1, 2):
                yield dict(seq=seq, res={0: [(m, mult)]})
                yield dict(seq=seq, res={len(seq) - 1: [(m, mult), ('1.5', 1)]})
                yield dict(seq=seq, nterm=[(m, mult)])
                yield dict(seq=seq, cterm=[(m, mult)])
                yield dict(seq=seq, labile=[(m, 1)])
                yield dict(seq=seq, unknown=[(m, mult)])
                if len(seq) >= 3:
                    yield dict(seq=seq, intervals=[(0, 2, [(m, mult)])])
                yield dict(seq=seq, static=[([seq[0]], [(m, 1)])])
                yield dict(seq=seq, static=[(['N-Term'], [(m, 1)])])
                yield dict(seq=seq, static=[(['C-Term', seq[-1]], [(m, 1)])])
    # several global rules at once, a later rule naming a target of an earlier multi-target rule again
    for seq in ('PEPSIDESK', 'SAD', 'KMCWUO'):
        a_, b_ = seq[0], seq[-1]
        yield dict(seq=seq, static=[([a_, b_], [('10.5', 1)]), ([b_], [('3.25', 1)])])
        yield dict(seq=seq, static=[([a_, b_, 'N-Term'], [('Oxidation', 1)]), ([a_], [('Formula:C2H3N1O-1', 1)]), (['N-Term'], [('-17.5', 1)])])
        yield dict(seq=seq, static=[([b_], [('1.5', 1)]), ([a_, b_], [('Phospho', 1)])])
    for _ in range(300 if tier == 'quick' else 6000):
        n = rnd.randint(1, 30)
        seq = ''.join(rnd.choice(LETTERS) for _ in range(n))
        d = dict(seq=seq, res={})
        for i in range(n):
            if rnd.random() < 0.2:
                d['res'][i] = [(rnd.choice(MODS), rnd.choice([1, 1, 2, 3])) for _ in range(rnd.choice([1, 1, 2]))]
        for k in ('nterm', 'cterm', 'labile', 'unknown'):
            if rnd.random() < 0.3:
                d[k] = [(rnd.choice(MODS), 1 if k == 'labile' else rnd.choice([1, 2]))]
        if rnd.random() < 0.3:
            d['static'] = [([rnd.choice(seq), rnd.choice(['N-Term', 'C-Term', rnd.choice(LETTERS)])], [(rnd.choice(MODS), 1)])]
        if n >= 4 and rnd.random() < 0.25:
            a = rnd.randint(0, n - 2)
            d['intervals'] = [(a, rnd.randint(a + 1, n), [(rnd.choice(MODS), 1)])]
        yield d


ADDUCT_SETS = [['+H+'], ['+Na+'], ['+2Na+', '+H+'], ['+K+'], ['+Li+', '+H+'], ['+Mg2+'], ['+Ca2+', '+H+'], ['-H+'], ['-2H+'], ['+Cl-'], ['+I-'],
               ['+3H+'], ['+2H+', '-e-'], ['+H+', '+e-']]


def run(rec, tier, seed):
    rnd = random.Random(seed)
    params = [(True, None, 0, 0.0, None), (False, None, 0, 0.0, None), (True, 2, 1, 0.0, None), (False, 3, 2, -18.01056, 4),
              (True, -2, 0, 0.0, None), (True, 6, 4, 17.5, 6), (False, -4, 3, 0.0, 0), (True, 1, 0, 0.0, 2), (True, 0, 0, 0.0, 3)]
    for d in descs(tier, rnd):
        for j, (mono, charge, iso, loss, prec) in enumerate(params):
            if tier == 'quick' and j >= 2 and rnd.random() < 0.6:
                continue
            inp = dict(pep=d, mono=mono, charge=charge, isotope=iso, loss=loss, precision=prec)
            rec.guarded('mass-is-sum-of-parts', inp, lambda: case_mass(inp), fk)
    # adduct lists
    for seq in ('PEPTIDE', 'KR'):
        for ad in ADDUCT_SETS:
            for mono in (True, False):
                q = adduct_mass(ad, mono)[1]
                inp = dict(pep=dict(seq=seq, res={1: [('Oxidation', 1)]}), mono=mono, charge=q, isotope=1, loss=0.0, precision=None, adducts=ad)
                rec.guarded('mass-is-sum-of-parts', inp, lambda: case_mass(inp), fk)
    # tables against the oracle
    from peptacular.chem import chem_constants as cc
    from peptacular import constants as c
    for aa in LETTERS:
        for mono, table, tol in ((True, cc.MONOISOTOPIC_AA_MASSES, F('1e-5')), (False, cc.AVERAGE_AA_MASSES, F('2e-3'))):
            ref = nist.comp_mass(nist.RESIDUES[aa], mono)
            got = table.get(aa)
            rec.case('table-vs-nist', got is not None and abs(F(repr(float(got))) - ref) <= tol, dict(residue=aa, mono=mono), float(ref), got,
                     nontrivial_key=('tab', aa, mono), finding_key='?table:' + aa)
    for name, ref in (('PROTON_MASS', nist.PROTON), ('ELECTRON_MASS', nist.ELECTRON), ('NEUTRON_MASS', nist.NEUTRON)):
        got = getattr(c, name)
        rec.case('table-vs-nist', abs(F(repr(float(got))) - ref) <= F('1e-8'), dict(constant=name), float(ref), got,
                 nontrivial_key=('const', name), finding_key='?const:' + name)


def main():
    a = args()
    if a.replay:
        replay_main(a, {'mass-is-sum-of-parts': case_mass})
    rec = Recorder('C02-bounded',
                   'peptides given as descriptions (residues over the 22 unambiguous letters + X, J; every placement kind x 13 '
                   'modifications of known mass x multipliers; static rules incl. N-Term/C-Term; intervals; random combinations to length '
                   '30) x 9 (mode, charge in [-4,6], isotope, loss, precision) tuples x adduct lists; library mass / m/z against the '
                   'independent exact-rational reference; residue and particle tables against NIST; non-trivial = distinct (text prefix, mode, charge)',
                   bound='4 base sequences x 10 placements x 13 modifications x 2 multipliers + 300 (quick) / 6000 (thorough) random peptides')
    run(rec, a.tier, a.seed)
    rec.dump(a.out, exhaustive=False)


if __name__ == '__main__':
    main()
