"""Bounded stand-in for C01: ProForma text and annotation objects are faithful inverses.  Grammar-directed generation from
DESCRIPTIONS (so the expected structure is known independently of the parser).  Labelled bounded."""
import itertools
import os
import random
import sys
import warnings
warnings.simplefilter('ignore')
sys.path.insert(0, os.path.dirname(os.path.abspath(__file__)))
from common import Recorder, args, replay_main

from peptacular.proforma.proforma_parser import parse, serialize, ProFormaAnnotation, MultiProFormaAnnotation
import re


def convert_type(v):
    """what a modification text denotes (independent of the library's helper): a signed integer, a signed decimal, else a name"""
    if isinstance(v, (int, float)):
        return v
    if re.fullmatch(r'[+-]?\d+', v):
        return int(v)
    if re.fullmatch(r'[+-]?(\d+\.\d*|\.\d+)', v):
        return float(v)
    return v


SPELLINGS = ['Oxidation', 'U:Oxidation', 'UNIMOD:35', 'M:L-methionine sulfoxide', 'MOD:00719', 'XLMOD:02001', 'X:DSS', '+15.995', '-18.01', '15.995', '42',
             'Formula:C2H3N1O-1', 'Formula:[13C2]C4H2[15N1]', 'Glycan:HexNAc2Hex3', 'Obs:+17.05', 'INFO:any note', 'Oxidation#g1', '#g1', '#g1(0.5)',
             'Oxidation|INFO:x', 'Obs:+15.9|Oxidation', 'Label:13C(6)', 'U:Label:13C(6)15N(2)', '+1.5#BRANCH',
             # decimals whose float is WRITTEN in exponent notation by str(): very small / very large shifts
             '+0.00001', '0.000031', '-25000000000000000000.0']


def mod_text(m):
    val, mult = m
    return '[' + val + ']' + (f'^{mult}' if mult > 1 else '')


def build(d):
    """text of one chain from a description"""
    s = ''
    for targets, mods in d.get('static', []):
        s += '<' + ''.join(mod_text(m) for m in mods) + '@' + ','.join(targets) + '>'
    for lab in d.get('isotope', []):
        s += '<' + lab + '>'
    for m in d.get('labile', []):
        s += '{' + m[0] + '}' + (f'^{m[1]}' if m[1] > 1 else '')
    if d.get('unknown'):
        s += ''.join(mod_text(m) for m in d['unknown']) + '?'
    if d.get('nterm'):
        s += ''.join(mod_text(m) for m in d['nterm']) + '-'
    opens = {a: amb for a, b, amb, ms in d.get('intervals', [])}
    closes = {b: ms for a, b, amb, ms in d.get('intervals', [])}
    seq = d['seq']
    for i, aa in enumerate(seq):
        if i in closes:
            s += ')' + ''.join(mod_text(m) for m in closes[i])
        if i in opens:
            s += '(' + ('?' if opens[i] else '')
        s += aa + ''.join(mod_text(m) for m in d.get('res', {}).get(i, []))
    if len(seq) in closes:
        s += ')' + ''.join(mod_text(m) for m in closes[len(seq)])
    if d.get('cterm'):
        s += '-' + ''.join(mod_text(m) for m in d['cterm'])
    if d.get('charge') is not None:
        s += '/' + str(d['charge'])
        if d.get('adducts'):
            s += '[' + ','.join(d['adducts']) + ']'
    return s


def key(ms):
    return tuple(sorted(repr((convert_type(v), m)) for v, m in ms)) if ms else ()


def expected(d):
    return dict(seq=d['seq'], res={i: key(v) for i, v in d.get('res', {}).items() if v}, nterm=key(d.get('nterm')), cterm=key(d.get('cterm')),
                labile=key(d.get('labile')), unknown=key(d.get('unknown')),
                static=tuple(sorted(repr((''.join(mod_text(m) for m in mods) + '@' + ','.join(t), 1)) for t, mods in d.get('static', []))),
                isotope=key([(l, 1) for l in d.get('isotope', [])]),
                intervals=sorted((a, b, bool(amb), key(ms)) for a, b, amb, ms in d.get('intervals', [])),
                charge=d.get('charge'), adducts=key([(','.join(d['adducts']), 1)]) if d.get('adducts') else ())


def observed(a):
    mk = lambda ms: tuple(sorted(repr((m.val, m.mult)) for m in (ms or [])))
    return dict(seq=a.sequence, res={i: mk(v) for i, v in (a.internal_mods or {}).items() if v}, nterm=mk(a.nterm_mods), cterm=mk(a.cterm_mods),
                labile=mk(a.labile_mods), unknown=mk(a.unknown_mods), static=mk(a.static_mods), isotope=mk(a.isotope_mods),
                intervals=sorted((iv.start, iv.end, bool(iv.ambiguous), mk(iv.mods)) for iv in (a.intervals or [])),
                charge=a.charge, adducts=mk(a.charge_adducts))


def case(inp):
    chains, links = inp['chains'], inp.get('links', [])
    text = build(chains[0])
    for l, c in zip(links, chains[1:]):
        text += l + build(c)
    a = parse(text)
    parts = [a] if isinstance(a, ProFormaAnnotation) else list(a.annotations)
    if len(parts) != len(chains):
        return False, ('number of chains', len(chains)), len(parts), None
    for p, d in zip(parts, chains):
        e, o = expected(d), observed(p)
        if e != o:
            diff = {k: (e[k], o[k]) for k in e if e[k] != o[k]}
            return False, ('parse yields exactly what the notation denotes', {k: v[0] for k, v in diff.items()}), {k: v[1] for k, v in diff.items()}, None
    if len(chains) > 1:
        conn = list(a.connections)
        if conn != [l == '//' for l in links]:
            return False, ('chain links', [l == '//' for l in links]), conn, None
    for plus in (False, True):
        s1 = serialize(a, include_plus=plus)
        try:
            a2 = parse(s1)
        except Exception as e:  # noqa
            inp['_links'] = links
            return False, ('the serialized string parses back (include_plus=%s)' % plus, text), f'{s1!r}: {type(e).__name__}', None
        if not (a2 == a and a == a2):
            return False, ('the serialized string parses back to an EQUAL annotation (include_plus=%s)' % plus, text), s1, None
        s2 = serialize(a2, include_plus=plus)
        if s2 != s1:
            return False, ('re-serializes to itself (include_plus=%s)' % plus, s1), s2, None
    return True, None, None, ('c01', text[:24], len(chains))


def fk(inp, exp, obs):
    if '//' in inp.get('links', []) and ('parses back' in str(exp)):
        return 'C01-crosslink-serialized-as-backslashes'
    return '?' + str(exp)[:40]


def descriptions(tier, rnd):
    seqs = ['PEPTIDE', 'K', 'ACDEFGHIKLMNPQRSTVWYBJOUXZ', 'SEK']
    for seq in seqs:
        n = len(seq)
        yield dict(seq=seq)
        for sp in SPELLINGS:
            for mult in (1, 2):
                yield dict(seq=seq, res={0: [(sp, mult)]})
                yield dict(seq=seq, res={n - 1: [(sp, mult), ('1.5', 1)]})
                yield dict(seq=seq, nterm=[(sp, mult)])
                yield dict(seq=seq, cterm=[(sp, mult)])
                yield dict(seq=seq, unknown=[(sp, mult)])
                if n >= 3:
                    yield dict(seq=seq, intervals=[(0, 2, False, [(sp, mult)])])
            yield dict(seq=seq, labile=[(sp, 1)])
            yield dict(seq=seq, static=[([seq[0]], [(sp, 1)])])
        yield dict(seq=seq, isotope=['13C'], static=[(['N-Term', seq[0]], [('Oxidation', 1), ('+1.5', 1)])], labile=[('Glycan:Hex', 1)],
                   unknown=[('Phospho', 2)], nterm=[('Acetyl', 1)], cterm=[('Amidated', 1)], res={0: [('Oxidation', 1), ('+2.5', 3)]}, charge=2,
                   adducts=['+2Na+', '+H+'])
        for ch in (1, 3, -2):
            yield dict(seq=seq, charge=ch)
            yield dict(seq=seq, charge=ch, adducts=['+Na+'])
        if n >= 4:
            yield dict(seq=seq, intervals=[(0, 2, True, []), (2, 4, False, [('1.25', 1)])])
            yield dict(seq=seq, intervals=[(1, n, False, [('Oxidation', 1)])], cterm=[('Amidated', 1)])
    for _ in range(120 if tier == 'quick' else 4000):
        n = rnd.randint(1, 20)
        seq = ''.join(rnd.choice('ACDEFGHIKLMNPQRSTVWY') for _ in range(n))
        d = dict(seq=seq, res={})
        for i in range(n):
            if rnd.random() < 0.2:
                d['res'][i] = [(rnd.choice(SPELLINGS), rnd.choice([1, 1, 2, 5])) for _ in range(rnd.choice([1, 1, 2]))]
        for k in ('nterm', 'cterm', 'unknown'):
            if rnd.random() < 0.25:
                d[k] = [(rnd.choice(SPELLINGS), rnd.choice([1, 2]))]
        if rnd.random() < 0.2:
            d['labile'] = [(rnd.choice(SPELLINGS), 1)]
        if rnd.random() < 0.2:
            d['static'] = [([rnd.choice(seq), 'N-Term'][:rnd.choice([1, 2])], [(rnd.choice(SPELLINGS[:12]), 1)])]
        if rnd.random() < 0.2:
            d['isotope'] = [rnd.choice(['13C', '15N', 'D'])]
        if n >= 4 and rnd.random() < 0.25:
            a = rnd.randint(0, n - 2)
            d['intervals'] = [(a, rnd.randint(a + 1, n), rnd.random() < 0.3, [(rnd.choice(SPELLINGS), 1)] if rnd.random() < 0.7 else [])]
        if rnd.random() < 0.3:
            d['charge'] = rnd.choice([1, 2, 3, -1])
            if rnd.random() < 0.4:
                d['adducts'] = rnd.choice([['+Na+'], ['+2Na+', '+H+'], ['+K+', '-H+']])
        yield d


def run(rec, tier, seed):
    rnd = random.Random(seed)
    ds = list(descriptions(tier, rnd))
    for d in ds:
        inp = dict(chains=[d])
        rec.guarded('round-trip', inp, lambda: case(inp), fk)
    # multi-chain strings
    pool = [d for d in ds if len(d['seq']) <= 7][:: (9 if tier == 'quick' else 2)]
    for i in range(0, len(pool) - 2, 2):
        for links in (['+'], ['//'], ['+', '+'], ['+', '//'], ['//', '+'], ['//', '//']):
            chains = pool[i:i + len(links) + 1]
            inp = dict(chains=chains, links=links)
            rec.guarded('round-trip', inp, lambda: case(inp), fk)


def main():
    a = args()
    if a.replay:
        replay_main(a, {'round-trip': case})
    rec = Recorder('C01-bounded',
                   'chains generated from descriptions: 4 residue strings (incl. all 26 letters) x every modification position x 24 spellings '
                   '(Unimod / PSI-MOD / XLMOD names and accessions with and without prefix, signed and unsigned shifts, Formula with isotope '
                   'brackets, Glycan, Obs, INFO, # tags, | alternatives, names containing colons / brackets) x multipliers, intervals, charge, '
                   'adducts; random chains to length 20; 2-3 chains joined by + and //; parse == description, serialize/parse/serialize fixed '
                   'point and equality, include_plus in {False, True}',
                   bound='about 1200 structured + 120 (quick) / 4000 (thorough) random single chains; multi-chain strings from pairs / triples of short chains')
    run(rec, a.tier, a.seed)
    rec.dump(a.out, exhaustive=False)


if __name__ == '__main__':
    main()
