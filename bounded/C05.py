"""Bounded stand-in for C05 on the real fragment(): complementary pairs, series offsets, charge steps, and modifications shifting
exactly the ions that contain the modified residue / terminus.  Offsets from specs/nist.py.  Labelled bounded."""
import itertools
import os
import random
import sys
import warnings
from fractions import Fraction as F
warnings.simplefilter('ignore')
sys.path.insert(0, os.path.dirname(os.path.abspath(__file__)))
sys.path.insert(0, os.path.dirname(os.path.dirname(os.path.abspath(__file__))))
from common import Recorder, args, replay_main
from specs import nist
from specs.refcalc import Pep, RMod

import peptacular as pt

TOL = F('1e-5')
LETTERS = 'GASPVTCLINDQKEMHFRYWUO'
MODS = ['1.5', '-17.25', 'Formula:C2H2O', 'Formula:[13C2]H4O-1']


def fr(x):
    return F(*float(x).as_integer_ratio())


def build(d):
    mk = lambda lst: [RMod(t, m) for t, m in lst]
    return Pep(d['seq'], res={int(k): mk(v) for k, v in d.get('res', {}).items()}, nterm=mk(d.get('nterm', [])), cterm=mk(d.get('cterm', [])))


def ions(text, types, charges, mono):
    out = {}
    for f in pt.fragment(text, types, charges, monoisotopic=mono):
        out[(f.ion_type, f.start, f.end, f.charge)] = fr(f.mass)
    return out


def case(inp):
    pep = build(inp['pep'])
    mono = inp['mono']
    text = pep.text()
    n = len(pep.seq)
    cm = lambda c: nist.comp_mass(c, mono)
    CO, NH3, H2 = cm(dict(C=1, O=1)), cm(dict(N=1, H=3)), cm(dict(H=2))
    P = nist.PROTON
    M = pep.neutral_mass(mono, precursor=False)
    got = ions(text, ['a', 'b', 'c', 'x', 'y', 'z', 'i'], [1, 2, 3, 4], mono)
    bad = []

    def res_mass(s, e):
        """residues s..e-1 with the modifications sitting on them (termini with their terminus)"""
        m = sum((nist.comp_mass(nist.RESIDUES[a], mono) for a in pep.seq[s:e]), F(0))
        for i in range(s, e):
            for md in pep.res.get(i, []):
                m += md.mass(mono)
        if s == 0:
            m += sum((md.mass(mono) for md in pep.nterm), F(0))
        if e == n:
            m += sum((md.mass(mono) for md in pep.cterm), F(0))
        return m

    # "a peptide of mass M": the library's own neutral peptide mass is the reference M (residues + water + every modification)
    try:
        libM = pt.mass(text, charge=0, monoisotopic=mono)
    except Exception as e_:   # noqa
        libM = None
    if libM is None or abs(libM - M) > TOL:
        bad.append(('M', 0, float(M), float(libM) if libM is not None else None))
    # ... and the full-length b / y ions asked of the mass calculator are the ones fragment() reports
    for ser, s_, e_ in (('b', 0, n), ('y', 0, n)):
        v = got.get((ser, s_, e_, 1))
        try:
            w = pt.mass(text, ion_type=ser, charge=1, monoisotopic=mono)
        except Exception:   # noqa
            w = None
        if v is None or w is None or abs(v - w) > TOL:
            bad.append((ser + '-full-length-vs-mass()', n, float(v) if v is not None else None, float(w) if w is not None else None))
    for i in range(1, n + 1):
        b = got.get(('b', 0, i, 1))
        y = got.get(('y', i, n, 1)) if i < n else None
        # modifications shift exactly the ions that contain the modified residue or terminus: absolute values against the reference
        if b is None or abs(b - (res_mass(0, i) + P)) > TOL:
            bad.append(('b', i, float(res_mass(0, i) + P), float(b) if b is not None else None))
        ys = got.get(('y', n - i, n, 1))
        if ys is None or abs(ys - (res_mass(n - i, n) + cm(nist.WATER) + P)) > TOL:
            bad.append(('y', i, float(res_mass(n - i, n) + cm(nist.WATER) + P), float(ys) if ys is not None else None))
        if i < n and (b is None or y is None or abs(b + y - (M + 2 * P)) > TOL):
            bad.append(('b+y', i, float(M + 2 * P), float(b + y) if b is not None and y is not None else None))
        for ser, ref, off in (('a', 'b', -CO), ('c', 'b', NH3)):
            v, r = got.get((ser, 0, i, 1)), got.get((ref, 0, i, 1))
            if v is None or abs(v - (r + off)) > TOL:
                bad.append((ser, i, float(r + off), float(v) if v is not None else None))
        for ser, off in (('x', CO - H2), ('z', -NH3)):
            v, r = got.get((ser, n - i, n, 1)), got.get(('y', n - i, n, 1))
            if v is None or abs(v - (r + off)) > TOL:
                bad.append((ser, i, float(r + off), float(v) if v is not None else None))
        # higher charge states add one proton each
        for ser, s, e in (('b', 0, i), ('y', n - i, n), ('a', 0, i), ('z', n - i, n)):
            for z in (2, 3, 4):
                v, r = got.get((ser, s, e, z)), got.get((ser, s, e, 1))
                if v is None or abs(v - (r + (z - 1) * P)) > TOL:
                    bad.append((ser + '@z', i, z))
    for i in range(n):
        if (i == 0 and pep.nterm) or (i == n - 1 and pep.cterm):
            continue     # whether an immonium ion "contains" a modified terminus is not fixed by the statement: not checked
        v = got.get(('i', i, i + 1, 1))
        exp = res_mass(i, i + 1) - (sum((md.mass(mono) for md in pep.nterm), F(0)) if i == 0 else 0) \
            - (sum((md.mass(mono) for md in pep.cterm), F(0)) if i == n - 1 else 0) - CO + P
        if v is None or abs(v - exp) > TOL:
            bad.append(('immonium', i, float(exp), float(v) if v is not None else None))
    # internal series: pair of terminal offsets applied to the span
    if n >= 3 and inp.get('internal', True):
        off = dict(a=-CO, b=F(0), c=NH3, x=CO - H2, y=F(0), z=-NH3)
        types = [X + Y for X in 'abc' for Y in 'xyz']
        gi = ions(text, types, [1, 2], mono)
        for X in 'abc':
            for Y in 'xyz':
                for s in range(1, n - 1):
                    for e in range(s + 1, n):
                        v = gi.get((X + Y, s, e, 1))
                        exp = res_mass(s, e) + P + off[X] + off[Y]
                        if v is None or abs(v - exp) > TOL:
                            bad.append(('internal:' + X + Y, (s, e), float(exp), float(v) if v is not None else None))
    # classify every failing item: does it deviate by EXACTLY the amount of a recorded finding?
    dH = float(nist.avg('H') - nist.mono('H'))
    Hm = float(nist.atom('H', mono))
    unknown, known = [], set()
    for b_ in bad:
        kind = str(b_[0])
        if len(b_) < 4 or b_[3] is None:
            unknown.append(b_)
            continue
        delta = b_[3] - b_[2]
        k_ = 2 if kind == 'b+y' else 1
        if kind in ('internal:ax', 'internal:az', 'internal:bx', 'internal:bz') and abs(delta - (Hm + (0 if mono else dH))) < 2e-6:
            known.add('C05-internal-xz-one-hydrogen' if mono else 'C05-average-carrier-hydrogen')
        elif not mono and kind in ('b', 'y', 'b+y', 'immonium') or (not mono and kind.startswith('internal:')):
            if abs(delta - k_ * dH) < 2e-6:
                known.add('C05-average-carrier-hydrogen')
            else:
                unknown.append(b_)
        else:
            unknown.append(b_)
    inp['_known'] = sorted(known) if not unknown else []
    return (not bad), 'all series consistent with backbone chemistry', (unknown or bad)[:6], ('c05', text[:12], mono)


def fk(inp, exp, obs):
    if inp.get('_known'):
        return inp['_known'][0]
    kinds = {str(b[0]) for b in obs} if isinstance(obs, list) else set()
    return '?' + ','.join(sorted(kinds))[:40]


def run(rec, tier, seed):
    rnd = random.Random(seed)
    descs = []
    for seq in ('PEPTIDE', 'GK', 'KMCWUOR'):
        descs.append(dict(seq=seq))
        for m in MODS:
            descs.append(dict(seq=seq, res={0: [(m, 1)]}))
            descs.append(dict(seq=seq, res={len(seq) - 1: [(m, 2)]}))
            descs.append(dict(seq=seq, res={1: [(m, 1)]}, nterm=[(MODS[0], 1)]))
            descs.append(dict(seq=seq, cterm=[(m, 1)]))
            descs.append(dict(seq=seq, nterm=[(m, 1)], cterm=[(MODS[1], 1)]))
    for _ in range(40 if tier == 'quick' else 800):
        n = rnd.randint(2, 15)
        seq = ''.join(rnd.choice(LETTERS) for _ in range(n))
        d = dict(seq=seq, res={})
        for i in range(n):
            if rnd.random() < 0.25:
                d['res'][i] = [(rnd.choice(MODS), rnd.choice([1, 2]))]
        if rnd.random() < 0.3:
            d['nterm'] = [(rnd.choice(MODS), 1)]
        if rnd.random() < 0.3:
            d['cterm'] = [(rnd.choice(MODS), 1)]
        descs.append(d)
    for d in descs:
        for mono in (True, False):
            inp = dict(pep=d, mono=mono, internal=len(d['seq']) <= 8)
            rec.guarded('series-chemistry', inp, lambda: case(inp), fk)


def main():
    a = args()
    if a.replay:
        replay_main(a, {'series-chemistry': case})
    rec = Recorder('C05-bounded',
                   'peptides as descriptions (20 standard letters + U, O; numeric / formula modifications on residues and termini) through '
                   'the real fragment(): absolute b/y values, b_i + y_(n-i) = M + 2 protons, a/c/x/z/immonium offsets, all 9 internal series, '
                   'charge 1..4, both modes; offsets from specs/nist.py; tolerance 1e-5; non-trivial = distinct (text, mode)',
                   bound='3 base sequences x 21 modification layouts + 40 (quick) / 800 (thorough) random peptides of length 2..15; internal '
                         'series for length <= 8')
    run(rec, a.tier, a.seed)
    rec.dump(a.out, exhaustive=False)


if __name__ == '__main__':
    main()
