"""Bounded stand-in for C19: permutations / combinations / combinations with replacement / products of a peptide are, in order,
the standard enumeration over the residues taken with their own modifications, wrapped in the unchanged global, labile and
terminal annotations; counts n!/(n-k)!, C(n,k), C(n+k-1,k), n^k.  Oracle built on the abstract view.  Labelled bounded."""
import itertools
import math
import os
import sys
import warnings
warnings.simplefilter('ignore')
sys.path.insert(0, os.path.dirname(os.path.abspath(__file__)))
from common import Recorder, args, replay_main
from amodel import annotations, view, globals_of

import peptacular as pt
from peptacular.proforma.proforma_parser import parse, create_annotation
from peptacular.proforma.proforma_dataclasses import Mod

KINDS = {
    'permutations': (lambda items, k: list(itertools.permutations(items, k)), lambda n, k: math.perm(n, k) if k <= n else 0),
    'combinations': (lambda items, k: list(itertools.combinations(items, k)), lambda n, k: math.comb(n, k)),
    'combinations_with_replacement': (lambda items, k: list(itertools.combinations_with_replacement(items, k)),
                                      lambda n, k: math.comb(n + k - 1, k) if n else 0),
    'product': (lambda items, k: list(itertools.product(items, repeat=k)), lambda n, k: n ** k),
}


def mk(inp):
    a = parse(inp['text'])
    for op in inp.get('pre', []):
        a = a.reverse() if op == 'reverse' else a
    if inp.get('unordered_dict'):
        # the same annotation built with its residue-modification dictionary in descending key order
        d = a.dict()
        im = d.get('internal_mods') or {}
        d['internal_mods'] = {k: im[k] for k in sorted(im, reverse=True)} or None
        a = create_annotation(**d)
    return a


def case(inp):
    a = mk(inp)
    v = view(a)
    n = len(v['res'])
    kind, size = inp['kind'], inp['size']
    k = n if size is None else size
    before = a.serialize()
    method = getattr(a.copy(), kind)(size) if kind != 'product' else a.copy().product(size)
    func = getattr(pt, kind)(a.copy(), size)
    enum, count = KINDS[kind]
    exp = enum(v['res'], k)
    if len(method) != count(n, k) or len(exp) != count(n, k):
        return False, ('number of results', count(n, k)), len(method), None
    for got, want in zip(method, exp):
        w = view(got)
        if w['res'] != list(want):
            return False, ('results in standard enumeration order, residues with their own modifications', list(want)), w['res'], None
        for key in ('nterm', 'cterm') + tuple(globals_of(v)):
            if w[key] != v[key]:
                return False, ('wrapped in the unchanged ' + key, v[key]), w[key], None
    fs = [x if isinstance(x, str) else x.serialize() for x in func]
    if fs != [m.serialize() for m in method]:
        return False, ('function form == method form', [m.serialize() for m in method][:3]), fs[:3], None
    for s in fs:
        parse(s)      # every result parses
    if a.serialize() != before:
        return False, 'argument unchanged', a.serialize(), None
    return True, None, None, ('c19', kind, n, k)


def fk(inp, exp, obs):
    return '?' + inp['kind'] + ':' + str(exp)[:30]


def run(rec, tier, seed):
    L = 4 if tier == 'quick' else 5
    texts = [t for t, a in annotations(tier, seed, max_len=L, with_intervals=False) if len(a.sequence) <= L]
    if tier == 'quick':
        texts = texts[::3]
    for text in texts:
        n = len(parse(text).sequence)
        for kind in KINDS:
            sizes = [None] + list(range(1, n + 1)) + ([n + 1, n + 2] if kind in ('permutations', 'combinations') else [])
            for size in sizes:
                if kind in ('product', 'combinations_with_replacement') and size is not None and n ** size > 300:
                    continue
                inp = dict(text=text, kind=kind, size=size)
                rec.guarded('standard-enumeration', inp, lambda: case(inp), fk)
    # multi-step / unusual construction: reordered annotations and dictionaries in descending key order
    for text in ['[Acetyl]-P[3.14]EK[Oxidation]/2', 'P[1.5]E[2.5]K[3.5]', '{Glycan:Hex}PE[Phospho]K-[Amidated]']:
        for kind in KINDS:
            for variant in (dict(pre=['reverse']), dict(unordered_dict=True)):
                inp = dict(text=text, kind=kind, size=2, **variant)
                rec.guarded('standard-enumeration', inp, lambda: case(inp), fk)


def main():
    a = args()
    if a.replay:
        replay_main(a, {'standard-enumeration': case})
    rec = Recorder('C19-bounded',
                   'generated annotations of length 1..4 (quick) / 1..5 (thorough) with all modification kinds except intervals x the four '
                   'expansions x every size 1..n, None, and n+1 / n+2 for the non-repeating forms; each result against the itertools '
                   'enumeration of the abstract (residue, modifications) items, count formula, wrapping annotations, function == method, '
                   'argument unchanged; reordered / descending-dictionary annotations',
                   bound='every third (quick) / every (thorough) annotation of the amodel family without intervals; result lists capped at 300')
    run(rec, a.tier, a.seed)
    rec.dump(a.out, exhaustive=False)


if __name__ == '__main__':
    main()
