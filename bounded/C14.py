"""Bounded stand-in for C14: isotopic distributions are normalised, centred on the right masses and complete.
Oracle: exact multinomial expansion from the independent isotope table (specs/nist.py).  Labelled bounded."""
import itertools
import math
import os
import random
import sys
import warnings
from fractions import Fraction as F
warnings.simplefilter('ignore')
sys.path.insert(0, os.path.dirname(os.path.abspath(__file__)))
sys.path.insert(0, os.path.dirname(os.path.dirname(os.path.abspath(__file__))))
from common import Recorder, args, replay_main
from specs import nist

import peptacular as pt


def _plain(k):
    """'13C' -> 'C', 'D' / 'T' -> 'H'"""
    if k in ('D', 'T'):
        return 'H'
    return k.lstrip('0123456789')


def element_dist(el, n):
    """exact distribution of n atoms of el: {(neutron offset, mass): abundance}"""
    isos = nist.ISOTOPES[el]
    base = min(a for a, _, _ in isos)
    out = {}
    for combo in itertools.combinations_with_replacement(range(len(isos)), n):
        cnt = [combo.count(i) for i in range(len(isos))]
        coef = math.factorial(n)
        for c_ in cnt:
            coef //= math.factorial(c_)
        ab = coef
        mass = 0.0
        off = 0
        abf = float(coef)
        for i, c_ in enumerate(cnt):
            abf *= float(isos[i][2]) ** c_
            mass += c_ * float(isos[i][1])
            off += c_ * (isos[i][0] - base)
        key = (off, mass)
        out[key] = out.get(key, 0.0) + abf
    return out


def exact(comp):
    total = {(0, 0.0): 1.0}
    for el, n in comp.items():
        if el in ('e', 'p', 'n') or n == 0:
            continue
        d = element_dist(el, n)
        new = {}
        for (o1, m1), a1 in total.items():
            for (o2, m2), a2 in d.items():
                k = (o1 + o2, m1 + m2)
                new[k] = new.get(k, 0.0) + a1 * a2
        total = new
    part = comp.get('e', 0) * float(nist.ELECTRON) + comp.get('p', 0) * float(nist.PROTON) + comp.get('n', 0) * float(nist.NEUTRON)
    return {(o, m + part): a for (o, m), a in total.items()}


def case(inp):
    comp = dict(inp['comp'])
    kw = dict(inp.get('kw', {}))
    before = dict(comp)
    dist = pt.isotopic_distribution(dict(comp), **kw)
    if comp != before:
        return False, 'argument unchanged', comp, None
    if not dist:
        return False, 'non-empty distribution', dist, None
    masses = [m for m, _ in dist]
    if masses != sorted(masses):
        return False, 'sorted by mass', masses[:5], None
    req = kw.get('distribution_abundance', 1.0)
    prec = kw.get('precision')
    rnd_tol = (len(dist) * 0.5 * 10.0 ** (-prec)) if prec is not None else 0.0
    if kw.get('is_abundance_sum'):
        tot = sum(a for _, a in dist)
        if abs(tot - req) > 1e-6 * max(1, req) + rnd_tol:
            return False, ('total equals the requested abundance', req), tot, None
    else:
        mx = max(a for _, a in dist)
        if abs(mx - req) > 1e-9 * max(1, req) + (0.5 * 10.0 ** (-prec) if prec is not None else 0):
            return False, ('largest peak equals the requested abundance', req), mx, None
    integer = all(isinstance(v, int) for v in comp.values())
    pruned = kw.get('max_isotopes') is not None or (kw.get('min_abundance_threshold') or 0) > 0 or (kw.get('conv_min_abundance_threshold') or 0) > 0
    natoms = sum(v for k, v in comp.items() if k not in ('e', 'p', 'n'))
    res = kw.get('distribution_resolution', 5)
    neutron = kw.get('use_neutron_count', False)
    if integer and not pruned and not neutron:
        mono = float(nist.comp_mass({k: v for k, v in comp.items()}, True))
        tolm = natoms * 10.0 ** (-res) + 1e-6 + (0.5 * 10.0 ** (-prec) if prec is not None else 0)
        chnops = all(_plain(k) in ('C', 'H', 'N', 'O', 'P', 'S', 'e', 'p', 'n') for k in comp)
        if chnops and abs(dist[0][0] - mono) > tolm:
            return False, ('lightest peak at the monoisotopic mass incl. e/p/n', mono), dist[0][0], None
        avg = float(nist.comp_mass({k: v for k, v in comp.items()}, False))
        tot = sum(a for _, a in dist)
        mean = sum(m * a for m, a in dist) / tot
        tol_round = 0.0
        if prec is not None:
            # abundances rounded to `precision` places: every peak of the unrounded pattern may move by half a unit in the last place
            # (the small ones to zero), which shifts the mean by at most (mass range) x (number of peaks) x half-unit / total
            full = pt.isotopic_distribution(dict(comp), **{k_: v_ for k_, v_ in kw.items() if k_ != 'precision'})
            ftot = sum(a for _, a in full)
            tol_round = (full[-1][0] - full[0][0]) * len(full) * 0.5 * 10.0 ** (-prec) / min(tot, ftot)
        if abs(mean - avg) > tolm + 2e-4 * max(1, natoms / 50) + tol_round:
            return False, ('abundance-weighted mean equals the average mass', avg), mean, None
    if integer and not pruned and neutron and kw.get('output_masses_for_neutron_offset') and \
            all(_plain(k) in ('C', 'H', 'N', 'O', 'P', 'S', 'e', 'p', 'n') for k in comp):
        mono = float(nist.comp_mass({k: v for k, v in comp.items()}, True))
        tolm = natoms * 10.0 ** (-res) + 1e-5 + (0.5 * 10.0 ** (-prec) if prec is not None else 0)
        if abs(dist[0][0] - mono) > tolm:
            return False, ('neutron-offset view with output masses: lightest peak at the monoisotopic mass', mono), dist[0][0], None
    if integer and not pruned and neutron and not kw.get('output_masses_for_neutron_offset') and dist[0][0] != 0 and \
            all(_plain(k) in ('C', 'H', 'N', 'O', 'P', 'S', 'e', 'p', 'n') for k in comp):    # (elements whose lightest isotope is the reference one)
        return False, ('neutron-offset view: offsets are counted from the lightest peak (0)', 0), dist[0][0], None
    if not integer and not pruned and all(_plain(k) in ('C', 'H', 'N', 'O', 'P', 'S', 'e', 'p', 'n') for k in comp) and \
            (not neutron or kw.get('output_masses_for_neutron_offset')):
        mono = float(nist.comp_mass({k: v for k, v in comp.items()}, True))
        tolm = natoms * 10.0 ** (-res) + 1e-5 + (0.5 * 10.0 ** (-prec) if prec is not None else 0)
        if abs(dist[0][0] - mono) > tolm:
            inp['_frac_neutron'] = bool(neutron)
            return False, ('lightest peak at the monoisotopic mass (fractional formula)', mono), dist[0][0], None
    if integer and natoms <= 12 and not pruned and res >= 5 and prec is None and all(k in nist.ISOTOPES or k in ('e', 'p', 'n') for k in comp):
        ex = exact(comp)
        if neutron and not kw.get('output_masses_for_neutron_offset'):
            binned = {}
            for (o, m), a in ex.items():
                binned[o] = binned.get(o, 0.0) + a
            mx = max(binned.values())
            exp = sorted((float(o), a / mx) for o, a in binned.items() if a / mx > 1e-7)
            got = sorted((float(m), a / max(x for _, x in dist)) for m, a in dist if a / max(x for _, x in dist) > 1e-7)
            de, dg = dict(exp), dict(got)
            if de and dg:     # offsets are relative (to the lightest or to the most abundant isotope): align the two scales
                me, mg = min(de), min(dg)
                de, dg = {k_ - me: v_ for k_, v_ in de.items()}, {k_ - mg: v_ for k_, v_ in dg.items()}
            if any(abs(de.get(k_, 0.0) - dg.get(k_, 0.0)) > 1e-6 for k_ in set(de) | set(dg)):
                return False, ('neutron-offset view == mass view binned by nominal mass', exp[:4]), got[:4], None
        elif not neutron:
            grouped = {}
            for (o, m), a in ex.items():
                k = round(m, res)
                grouped[k] = grouped.get(k, 0.0) + a
            mx = max(grouped.values())
            exp = sorted((m, a / mx) for m, a in grouped.items())
            gmx = max(a for _, a in dist)
            got = [(m, a / gmx) for m, a in dist]
            # compare peaks above 1e-9 (resolution effects may merge neighbours differently below)
            e2 = [p for p in exp if p[1] > 1e-7]
            g2 = [p for p in got if p[1] > 1e-7]
            tolm = natoms * 10.0 ** (-res) + 1e-6
            def near(p_, lst):
                c_ = [q for q in lst if abs(q[0] - p_[0]) <= tolm]
                return sum(q[1] for q in c_)
            ok = all(abs(near(e, g2) - near(e, e2)) <= 2e-6 + 1e-4 * e[1] for e in e2 if e[1] > 1e-6) and \
                all(abs(near(g, g2) - near(g, e2)) <= 2e-6 + 1e-4 * g[1] for g in g2 if g[1] > 1e-6)
            if not ok:
                return False, ('peaks match the exact multinomial expansion', e2[:4]), g2[:4], None
    return True, None, None, ('c14', tuple(sorted(comp.items()))[:4], tuple(sorted(kw.items()))[:3])


def case_merge(inp):
    a, b = [tuple(x) for x in inp['a']], [tuple(x) for x in inp['b']]
    got = pt.merge_isotopic_distributions(list(a), list(b))
    exp = {}
    for m, ab in list(a) + list(b):
        exp[m] = exp.get(m, 0) + ab
    return list(got) == sorted(exp.items()), sorted(exp.items()), got, ('merge', len(exp))


def fk(inp, exp, obs):
    comp = inp.get('comp', {})
    integer = all(isinstance(v, int) for v in comp.values())
    if integer and any(comp.get(k) for k in ('e', 'p', 'n')) and ('lightest' in str(exp) or 'mean' in str(exp) or 'multinomial' in str(exp)):
        return 'C14-particle-offset-dropped-for-integer-formulas'
    if inp.get('_frac_neutron'):
        return 'C14-fractional-neutron-view-offset'
    return '?' + str(exp)[:40]


def run(rec, tier, seed):
    rnd = random.Random(seed)
    comps = [dict(C=6, H=12, O=6), dict(C=2, H=6, O=1), dict(C=1), dict(H=2, O=1), dict(C=2, H=5, N=1, O=2, S=1), dict(P=2, O=5), dict(P=1, H=3),
             dict(C=2, H=6, e=-1), dict(C=2, H=6, p=1, e=-1), dict(C=3, H=8, n=2), dict(S=2), dict(N=2, H=4, O=3), dict(C=50, H=71, N=13, O=12),
             dict(C=200, H=200), dict(C=10.5, H=20.25, O=3), dict(C=2, H=6.5, e=-1), dict(C=0, H=2, O=1), dict(C=4, H=4, Se=1), dict(C=2, H=3, Cl=3),
             dict(C=1, H=3, Br=1), dict(C=10, H=10, Fe=1),
             # isotope-labelled entries (single-isotope species): the neutron-offset view starts at the same lightest peak
             {'13C': 2, 'H': 4}, {'D': 3, 'C': 1, 'H': 1, 'O': 1}, {'13C': 6, '15N': 2, 'H': 12, 'O': 2, 'p': 1}, {'15N': 1, 'C': 2, 'H': 5}]
    for _ in range(40 if tier == 'quick' else 1200):
        c = {}
        for el in rnd.sample(['C', 'H', 'N', 'O', 'S', 'P'], rnd.randint(1, 4)):
            c[el] = rnd.choice([rnd.randint(0, 4), rnd.randint(0, 200), round(rnd.uniform(0, 60), 2)])
        if sum(v for v in c.values()) == 0:
            c['C'] = 1
        if rnd.random() < 0.2:
            c[rnd.choice(['e', 'p', 'n'])] = rnd.choice([-1, 1, 2])
        comps.append(c)
    kws = [dict(), dict(use_neutron_count=True), dict(use_neutron_count=True, output_masses_for_neutron_offset=True), dict(is_abundance_sum=True),
           dict(distribution_abundance=100.0, is_abundance_sum=True, precision=3), dict(distribution_abundance=0.5), dict(max_isotopes=3),
           dict(min_abundance_threshold=1e-3), dict(distribution_resolution=2), dict(distribution_resolution=0, is_abundance_sum=True),
           dict(max_isotopes=20, min_abundance_threshold=1e-6, distribution_abundance=1e6),
           # a caller-chosen peak spacing (neutron_mass) only spaces the neutron-offset view: explicit 'n' entries keep the physical neutron mass
           dict(neutron_mass=1.00335), dict(use_neutron_count=True, output_masses_for_neutron_offset=True, neutron_mass=1.002856)]
    for comp in comps:
        for kw in kws:
            if tier == 'quick' and sum(v for k, v in comp.items() if k not in 'epn') > 100 and kw and rnd.random() < 0.5:
                continue
            inp = dict(comp=comp, kw=kw)
            rec.guarded('distribution', inp, lambda: case(inp), fk)
    for a, b in [([(100.0, 1.0), (101.0, 0.5)], [(100.0, 0.25)]), ([], [(5.0, 1.0)]), ([(1.0, 1.0), (1.0, 2.0)], [(0.5, 1.0), (1.0, 3.0)])]:
        inp = dict(a=a, b=b)
        rec.guarded('merge', inp, lambda: case_merge(inp), fk)


def main():
    a = args()
    if a.replay:
        replay_main(a, {'distribution': case, 'merge': case_merge})
    rec = Recorder('C14-bounded',
                   'compositions over C,H,N,O,S,P (+ Se, Cl, Br, Fe for normalisation), counts 0..200 integer and fractional, e/p/n entries x 13 '
                   'option sets (neutron view, output masses, caller-chosen neutron spacing, sum / peak normalisation, requested abundance, pruning, resolution 0..5): sorted, '
                   'normalised, lightest peak = monoisotopic mass incl. particles and mean = average mass (no pruning), neutron view = mass '
                   'view binned by nominal mass, exact multinomial expansion for <= 12 atoms (independent isotope table), merge adds '
                   'abundances at equal masses',
                   bound='21 fixed + 40 (quick) / 1200 (thorough) random compositions x 13 option sets')
    run(rec, a.tier, a.seed)
    rec.dump(a.out, exhaustive=False)


if __name__ == '__main__':
    main()
