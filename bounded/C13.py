"""Bounded stand-in for C13: static and variable modification builders produce exactly the intended forms.
Oracle: exhaustive subset enumeration over the eligible sites (residues matched by a rule, N-/C-terminus when its rule matches).
Labelled bounded."""
import itertools
import os
import random
import re
import sys
import warnings
from collections import Counter
warnings.simplefilter('ignore')
sys.path.insert(0, os.path.dirname(os.path.abspath(__file__)))
from common import Recorder, args, replay_main
from amodel import view

import peptacular as pt
from peptacular.proforma.proforma_parser import parse


def sites(seq, key):
    """residue indices matched by a rule key (single letters / consuming regexes; '' matches everything for terminal rules)"""
    return sorted({m.start() for m in re.finditer(key, seq) if m.end() > m.start()})


def mods_key(ms):
    return tuple(sorted(repr((m.val, m.mult)) for m in (ms or [])))


def form_key(a):
    im = a.internal_mods or {}
    return (a.sequence, tuple((i, mods_key(im[i])) for i in sorted(im) if im[i]), mods_key(a.nterm_mods), mods_key(a.cterm_mods))


def mk(vals):
    from peptacular.proforma.proforma_dataclasses import Mod
    return tuple(sorted(repr((Mod(v, 1).val, 1)) for v in vals))


def case_static(inp):
    text, rules, nterm, cterm, mode = inp['text'], inp['rules'], inp.get('nterm'), inp.get('cterm'), inp['mode']
    a = parse(text)
    before = a.serialize()
    seq = a.sequence
    n = len(seq)
    got = pt.apply_static_mods(a.copy(), {k: list(v) for k, v in rules.items()}, nterm_mods=nterm, cterm_mods=cterm, mode=mode, return_type='annotation')
    exp_im = {i: list(mods_key(v)) for i, v in (a.internal_mods or {}).items()}
    had = set(exp_im)
    for key, mods in rules.items():
        for i in sites(seq, key):
            if i in had:
                if mode == 'skip':
                    continue
                if mode == 'overwrite':
                    exp_im[i] = list(mk(mods))
                    continue
            exp_im.setdefault(i, [])
            exp_im[i] = sorted(exp_im[i] + list(mk(mods))) if not (mode == 'overwrite' and i in had) else exp_im[i]
    exp_n, exp_c = list(mods_key(a.nterm_mods)), list(mods_key(a.cterm_mods))
    for spec, cur, has, idx in ((nterm, exp_n, a.has_nterm_mods(), 0), (cterm, exp_c, a.has_cterm_mods(), n - 1)):
        if not spec:
            continue
        items = spec.items() if isinstance(spec, dict) else [('', spec)]
        for key, mods in items:
            if key == '' or idx in sites(seq, key):
                if has and mode == 'skip':
                    continue
                if has and mode == 'overwrite':
                    cur[:] = list(mk(mods))
                else:
                    cur[:] = sorted(cur + list(mk(mods)))
    g_im = {i: sorted(mods_key(v)) for i, v in (got.internal_mods or {}).items() if v}
    if got.sequence != seq or g_im != {i: sorted(v) for i, v in exp_im.items() if v} or sorted(mods_key(got.nterm_mods)) != sorted(exp_n) \
            or sorted(mods_key(got.cterm_mods)) != sorted(exp_c):
        return False, ('modifications on every matched residue / terminus and on no other, mode ' + mode, exp_im, exp_n, exp_c), \
            (g_im, mods_key(got.nterm_mods), mods_key(got.cterm_mods)), None
    if a.serialize() != before:
        return False, 'input not mutated', a.serialize(), None
    if mode == 'skip':
        again = pt.apply_static_mods(got.copy(), {k: list(v) for k, v in rules.items()}, nterm_mods=nterm, cterm_mods=cterm, mode='skip', return_type='annotation')
        if form_key(again) != form_key(got):
            return False, ('applying twice in skip mode changes nothing more', got.serialize()), again.serialize(), None
    s = pt.apply_static_mods(text, {k: list(v) for k, v in rules.items()}, nterm_mods=nterm, cterm_mods=cterm, mode=mode, return_type='str')
    if form_key(parse(s)) != form_key(got):
        return False, ('return_type str == annotation', got.serialize()), s, None
    return True, None, None, ('static', text, mode, tuple(sorted(rules)))


def o_variable(a, rules, nterm, cterm, max_mods):
    """skip mode: every form with at most max_mods additional eligible sites, each with one offered group; as a multiset of keys"""
    seq = a.sequence
    n = len(seq)
    im = a.internal_mods or {}
    opts = {}          # site -> list of groups (site: int index, 'N', 'C')
    for key, groups in rules.items():
        for i in sites(seq, key):
            if i in im and im[i]:
                continue
            for g in groups:
                opts.setdefault(i, []).append(mk(g))
    for spec, name, has, idx in ((nterm, 'N', a.has_nterm_mods(), 0), (cterm, 'C', a.has_cterm_mods(), n - 1)):
        if not spec or has:
            continue
        items = spec.items() if isinstance(spec, dict) else [('', spec)]
        for key, groups in items:
            if key == '' or idx in sites(seq, key):
                for g in groups:
                    opts.setdefault(name, []).append(mk(g))
    forms = Counter()
    base_im = tuple((i, mods_key(im[i])) for i in sorted(im) if im[i])
    slist = list(opts)
    for k in range(0, max_mods + 1):
        for chosen in itertools.combinations(slist, k):
            for groups in itertools.product(*[sorted(set(opts[s])) for s in chosen]):
                d = dict(base_im)
                nt, ct = mods_key(a.nterm_mods), mods_key(a.cterm_mods)
                for s, g in zip(chosen, groups):
                    if s == 'N':
                        nt = g
                    elif s == 'C':
                        ct = g
                    else:
                        d[s] = g
                forms[(seq, tuple(sorted(d.items())), nt, ct)] += 1
    return Counter({k: 1 for k in forms})


def case_variable(inp):
    text, rules, nterm, cterm, max_mods, mode = inp['text'], inp['rules'], inp.get('nterm'), inp.get('cterm'), inp['max_mods'], inp['mode']
    a = parse(text)
    before = a.serialize()
    got = pt.apply_variable_mods(a.copy(), {k: [list(g) for g in v] for k, v in rules.items()}, max_mods,
                                 nterm_mods=nterm, cterm_mods=cterm, mode=mode, return_type='annotation')
    keys = Counter(form_key(x) for x in got)
    if a.serialize() != before:
        return False, 'input not mutated', a.serialize(), None
    base = form_key(a)
    if base not in keys:
        return False, 'the unmodified input form is included', sorted(keys)[:3], None
    dup = [k for k, c in keys.items() if c > 1]
    if dup:
        inp['_dup'] = True
        return False, 'no form twice', [(k[1], k[2], k[3]) for k in dup][:3], None
    v = view(a)
    matched = set()
    for key in rules:
        matched |= set(sites(a.sequence, key))
    for x in got:
        w = view(x)
        if [r[0] for r in w['res']] != [r[0] for r in v['res']]:
            return False, 'residues kept', x.serialize(), None
        for i, (r0, r1) in enumerate(zip(v['res'], w['res'])):
            if r0 != r1 and i not in matched:
                return False, ('changes confined to matched sites', i), x.serialize(), None
            if mode == 'skip' and r0[1] and r0 != r1:
                return False, ('pre-existing modifications intact (skip)', i), x.serialize(), None
    if mode == 'skip':
        exp = o_variable(a, rules, nterm, cterm, max_mods)
        if keys != exp:
            extra = [(k[1], k[2], k[3]) for k in keys if k not in exp][:3]
            missing = [(k[1], k[2], k[3]) for k in exp if k not in keys][:3]
            inp['_terminal'] = bool(nterm or cterm)
            return False, ('exactly the forms with at most max_mods additional sites', len(exp)), dict(n=sum(keys.values()), extra=extra, missing=missing), None
    s = pt.apply_variable_mods(text, {k: [list(g) for g in v] for k, v in rules.items()}, max_mods, nterm_mods=nterm, cterm_mods=cterm,
                               mode=mode, return_type='str')
    if [form_key(parse(t)) for t in s] != [form_key(x) for x in got]:
        return False, 'return_type str == annotation', s[:3], None
    return True, None, None, ('var', text, mode, max_mods, len(got))


def fk_static(inp, exp, obs):
    return '?static:' + str(exp)[:30]


def fk_var(inp, exp, obs):
    if (inp.get('nterm') or inp.get('cterm')) and ('exactly the forms' in str(exp) or 'no form twice' in str(exp)):
        return 'C13-terminal-variable-rules-not-counted-and-duplicated'
    return '?var:' + str(exp)[:30]


def run(rec, tier, seed):
    rnd = random.Random(seed)
    texts = ['PEPTIDE', 'PEP[Oxidation]TIDE', '[Acetyl]-PEPTIDE', 'PEPTIDE-[Amidated]', 'P[1.5]EPT[Oxidation][Methyl]IDE', 'SSS', 'K', 'PEPTIDEPS']
    srules = [{'P': ['Phospho']}, {'E': ['Methyl', 1.5]}, {'[ST]': ['Phospho']}, {'P': ['Phospho'], 'PE': ['Methyl']}, {'E$': ['Methyl']},
              {'P': ['Phospho'], 'E': ['Methyl'], 'T': [2.5]}]
    terms = [(None, None), (['Acetyl'], None), (None, ['Amidated']), ({'P': ['Acetyl']}, {'E': ['Amidated']}), ({'K': ['Acetyl']}, None)]
    for text in texts:
        for rules in srules:
            for nterm, cterm in terms:
                for mode in ('skip', 'append', 'overwrite'):
                    inp = dict(text=text, rules=rules, nterm=nterm, cterm=cterm, mode=mode)
                    rec.guarded('static-builder', inp, lambda: case_static(inp), fk_static)
    vrules = [{'P': [['Phospho']]}, {'[ST]': [['Phospho'], ['Methyl']]}, {'P': [['Phospho']], 'E': [['Methyl'], [1.5]]},
              {'P': [['Phospho', 'Methyl']]}, {'E': [['Methyl']], 'T': [['Phospho']], 'D': [[2.5]]}]
    vterms = [(None, None), ([['Acetyl']], None), (None, [['Amidated']]), ([['Acetyl']], [['Amidated']]), ({'P': [['Acetyl'], ['Formyl']]}, None)]
    for text in texts:
        for rules in vrules:
            for nterm, cterm in vterms:
                for max_mods in (0, 1, 2, 4) if tier != 'quick' else (0, 1, 2):
                    for mode in ('skip', 'append', 'overwrite'):
                        if tier == 'quick' and mode != 'skip' and rnd.random() < 0.5:
                            continue
                        inp = dict(text=text, rules=rules, nterm=nterm, cterm=cterm, max_mods=max_mods, mode=mode)
                        rec.guarded('variable-builder', inp, lambda: case_variable(inp), fk_var)


def main():
    a = args()
    if a.replay:
        replay_main(a, {'static-builder': case_static, 'variable-builder': case_variable})
    rec = Recorder('C13-bounded',
                   '8 peptides (unmodified, residue / terminal pre-existing modifications incl. two on one residue, repeated residues) x 6 '
                   'static rule sets (letters, character classes, overlapping rules, anchored regex) x 5 terminal specs x 3 modes; 5 variable '
                   'rule sets (1..3 targets, 1..2 groups, multi-modification groups) x 5 terminal specs x max_mods {0,1,2,(4)} x 3 modes; '
                   'compared with a per-site oracle / an exhaustive subset enumeration (exactness in skip mode; the weaker clause otherwise)',
                   bound='all listed combinations (half of the non-skip variable cases sampled out in quick)')
    run(rec, a.tier, a.seed)
    rec.dump(a.out, exhaustive=True)


if __name__ == '__main__':
    main()
