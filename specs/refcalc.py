"""Independent reference calculator (exact rational arithmetic over specs/nist.py) for peptides given as DESCRIPTIONS, not as
ProForma text parsed by the library: residues, modifications with an a-priori known composition or numeric mass, charge
carrier, isotope offset, loss.  Used as the oracle of the bounded tiers of C02 / C03 / C05 / C12 / C18."""
from fractions import Fraction as F
import re
from . import nist


def formula_comp(text):
    """'C2H3N1O-1[13C2]' -> {'C':2,'H':3,'N':1,'O':-1,'13C':2}"""
    comp = {}
    i = 0
    n = len(text)
    while i < n:
        if text[i] == '[':
            j = text.index(']', i)
            m = re.fullmatch(r'(\d+)([A-Z][a-z]?)(-?\d+)?', text[i + 1:j])
            key = m.group(1) + m.group(2)
            cnt = int(m.group(3)) if m.group(3) else 1
            comp[key] = comp.get(key, 0) + cnt
            i = j + 1
            continue
        m = re.match(r'([A-Z][a-z]?)(-?\d+)?', text[i:])
        if not m:
            raise ValueError('bad formula ' + text)
        comp[m.group(1)] = comp.get(m.group(1), 0) + (int(m.group(2)) if m.group(2) else 1)
        i += m.end()
    return comp


def add(a, b, k=1):
    out = dict(a)
    for e, c in b.items():
        out[e] = out.get(e, 0) + k * c
    return {e: c for e, c in out.items() if c != 0}


class RMod:
    """a modification with a known meaning: numeric mass shift, or a composition"""

    def __init__(self, text, mult=1):
        self.text = text          # as written inside the brackets (without ^n)
        self.mult = mult
        self.shift = None
        self.comp = None
        t = text.split('|')[0]
        t = t.split('#')[0] if not t.startswith('#') else ''
        if t == '':
            self.comp = {}
        elif re.fullmatch(r'[+-]?\d+(\.\d+)?', t):
            self.shift = F(t)
        elif t.startswith('Formula:'):
            self.comp = formula_comp(t[8:])
        elif t.startswith('Glycan:'):
            self.comp = {}
            for name, cnt in re.findall(r'([A-Za-z]+)(\d*)', t[7:]):
                self.comp = add(self.comp, nist.MONOSACCHARIDES[name], int(cnt) if cnt else 1)
        else:
            name = t.split(':', 1)[1] if t[:2] in ('U:',) or t.startswith('UNIMOD:') or t.startswith('Unimod:') else t
            self.comp = dict(nist.NAMED[name])

    def mass(self, mono):
        m = self.shift if self.shift is not None else nist.comp_mass(self.comp, mono)
        return m * self.mult

    def write(self, brackets='[]'):
        return brackets[0] + self.text + brackets[1] + (f'^{self.mult}' if self.mult > 1 else '')


class Pep:
    """description of a peptide: residues + modifications by position"""

    def __init__(self, seq, res=None, nterm=(), cterm=(), labile=(), unknown=(), static=(), intervals=(), isotope_labels=()):
        self.seq = seq
        self.res = res or {}            # index -> [RMod]
        self.nterm, self.cterm, self.labile, self.unknown = list(nterm), list(cterm), list(labile), list(unknown)
        self.static = list(static)      # [(targets list, [RMod])]
        self.intervals = list(intervals)  # [(start, end, [RMod])]
        self.isotope_labels = list(isotope_labels)   # e.g. ['13C', '15N', 'D']

    def text(self, charge=None, adducts=None):
        s = ''
        for targets, mods in self.static:
            s += '<' + ''.join(m.write() for m in mods) + '@' + ','.join(targets) + '>'
        for lab in self.isotope_labels:
            s += '<' + lab + '>'
        s += ''.join(m.write('{}') for m in self.labile)
        if self.unknown:
            s += ''.join(m.write() for m in self.unknown) + '?'
        if self.nterm:
            s += ''.join(m.write() for m in self.nterm) + '-'
        opens = {a: True for a, b, _ in self.intervals}
        closes = {b: ms for a, b, ms in self.intervals}
        for i, aa in enumerate(self.seq):
            if i in closes:
                s += ')' + ''.join(m.write() for m in closes[i])
            if i in opens:
                s += '('
            s += aa + ''.join(m.write() for m in self.res.get(i, []))
        if len(self.seq) in closes:
            s += ')' + ''.join(m.write() for m in closes[len(self.seq)])
        if self.cterm:
            s += '-' + ''.join(m.write() for m in self.cterm)
        if charge is not None:
            s += '/' + str(charge)
            if adducts:
                s += '[' + ','.join(adducts) + ']'
        return s

    def all_mods(self, precursor=True):
        out = []
        for ms in self.res.values():
            out += ms
        out += self.nterm + self.cterm + self.unknown
        if precursor:
            out += self.labile
        for _, _, ms in self.intervals:
            out += ms
        for targets, mods in self.static:
            for t in targets:
                k = 1 if t in ('N-Term', 'C-Term') else self.seq.count(t)
                out += mods * k
        return out

    def neutral_mass(self, mono=True, precursor=True):
        m = sum((nist.comp_mass(nist.RESIDUES[a], mono) for a in self.seq), F(0)) + nist.comp_mass(nist.WATER, mono)
        for md in self.all_mods(precursor):
            m += md.mass(mono)
        return m


def adduct_mass(adducts, mono=True):
    """['+2Na+', '+H+', '-e-'] -> total mass of the stated adduct ions, and their total charge"""
    total, q = F(0), 0
    for a in adducts:
        m = re.fullmatch(r'([+-])(\d*)([A-Za-z]+)(\d*)([+-])', a)
        sign = 1 if m.group(1) == '+' else -1
        cnt = sign * (int(m.group(2)) if m.group(2) else 1)
        el = m.group(3)
        z = (int(m.group(4)) if m.group(4) else 1) * (1 if m.group(5) == '+' else -1)
        if el == 'e':
            total += cnt * nist.ELECTRON
            q += cnt * -1
        else:
            total += cnt * (nist.atom(el, mono) - z * nist.ELECTRON)
            q += cnt * z
    return total, q


def ion_mass(pep, charge=0, mono=True, isotope=0, loss=0, adducts=None):
    """precursor: neutral mass + carrier + isotope*neutron + loss"""
    m = pep.neutral_mass(mono, True)
    if adducts:
        m += adduct_mass(adducts, mono)[0]
    else:
        m += charge * nist.PROTON
    return m + isotope * nist.NEUTRON + F(str(loss))
