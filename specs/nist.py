"""Independent constants (oracle for C02/C03/C05/C10/C14): typed in from the NIST "Atomic Weights and Isotopic Compositions"
table and CODATA -- NOT read from /repo.  Monoisotopic = mass of the most abundant isotope; average = abundance-weighted mean of
the isotope masses (what "standard atomic weight" means for a natural sample)."""
from fractions import Fraction as F

ISOTOPES = {   # element -> [(mass number, relative atomic mass, isotopic composition)]
    'H': [(1, '1.00782503223', '0.999885'), (2, '2.01410177812', '0.000115')],
    'C': [(12, '12.0000000', '0.9893'), (13, '13.00335483507', '0.0107')],
    'N': [(14, '14.00307400443', '0.99636'), (15, '15.00010889888', '0.00364')],
    'O': [(16, '15.99491461957', '0.99757'), (17, '16.99913175650', '0.00038'), (18, '17.99915961286', '0.00205')],
    'P': [(31, '30.97376199842', '1')],
    'S': [(32, '31.9720711744', '0.9499'), (33, '32.9714589098', '0.0075'), (34, '33.967867004', '0.0425'), (36, '35.96708071', '0.0001')],
    'Se': [(74, '73.922475934', '0.0089'), (76, '75.919213704', '0.0937'), (77, '76.919914154', '0.0763'), (78, '77.91730928', '0.2377'),
           (80, '79.9165218', '0.4961'), (82, '81.9166995', '0.0873')],
    'Na': [(23, '22.9897692820', '1')],
    'K': [(39, '38.9637064864', '0.932581'), (40, '39.963998166', '0.000117'), (41, '40.9618252579', '0.067302')],
    'Li': [(6, '6.0151228874', '0.0759'), (7, '7.0160034366', '0.9241')],
    'Mg': [(24, '23.985041697', '0.7899'), (25, '24.985836976', '0.1000'), (26, '25.982592968', '0.1101')],
    'Ca': [(40, '39.962590863', '0.96941'), (42, '41.95861783', '0.00647'), (43, '42.95876644', '0.00135'), (44, '43.95548156', '0.02086'),
           (46, '45.9536890', '0.00004'), (48, '47.95252276', '0.00187')],
    'Cl': [(35, '34.968852682', '0.7576'), (37, '36.965902602', '0.2424')],
    'I': [(127, '126.9044719', '1')],
    'Br': [(79, '78.9183376', '0.5069'), (81, '80.9162897', '0.4931')],
    'F': [(19, '18.99840316273', '1')],
    'Fe': [(54, '53.93960899', '0.05845'), (56, '55.93493633', '0.91754'), (57, '56.93539284', '0.02119'), (58, '57.93327443', '0.00282')],
}
ELECTRON = F('0.000548579909065')
PROTON = F('1.007276466621')
NEUTRON = F('1.00866491595')


def mono(el):
    best = max(ISOTOPES[el], key=lambda t: F(t[2]))
    return F(best[1])


def avg(el):
    return sum(F(m) * F(a) for _, m, a in ISOTOPES[el]) / sum(F(a) for _, _, a in ISOTOPES[el])


def isotope_mass(el, a):
    for n, m, _ in ISOTOPES[el]:
        if n == a:
            return F(m)
    raise KeyError((el, a))


def atom(el, monoisotopic=True):
    """el: 'C', or an isotope written '13C' / 'D' / 'T'"""
    if el == 'D':
        return isotope_mass('H', 2)
    if el == 'T':
        return F('3.0160492779')
    i = 0
    while i < len(el) and el[i].isdigit():
        i += 1
    if i:
        return isotope_mass(el[i:], int(el[:i]))
    if el == 'e':
        return ELECTRON
    if el == 'p':
        return PROTON
    if el == 'n':
        return NEUTRON
    return mono(el) if monoisotopic else avg(el)


def comp_mass(comp, monoisotopic=True):
    return sum(F(str(c)) * atom(e, monoisotopic) for e, c in comp.items())


# residue compositions, from the structure of the amino-acid residues (-NH-CHR-CO-)
RESIDUES = {
    'G': dict(C=2, H=3, N=1, O=1), 'A': dict(C=3, H=5, N=1, O=1), 'S': dict(C=3, H=5, N=1, O=2), 'P': dict(C=5, H=7, N=1, O=1),
    'V': dict(C=5, H=9, N=1, O=1), 'T': dict(C=4, H=7, N=1, O=2), 'C': dict(C=3, H=5, N=1, O=1, S=1), 'L': dict(C=6, H=11, N=1, O=1),
    'I': dict(C=6, H=11, N=1, O=1), 'J': dict(C=6, H=11, N=1, O=1), 'N': dict(C=4, H=6, N=2, O=2), 'D': dict(C=4, H=5, N=1, O=3),
    'Q': dict(C=5, H=8, N=2, O=2), 'K': dict(C=6, H=12, N=2, O=1), 'E': dict(C=5, H=7, N=1, O=3), 'M': dict(C=5, H=9, N=1, O=1, S=1),
    'H': dict(C=6, H=7, N=3, O=1), 'F': dict(C=9, H=9, N=1, O=1), 'R': dict(C=6, H=12, N=4, O=1), 'Y': dict(C=9, H=9, N=1, O=2),
    'W': dict(C=11, H=10, N=2, O=1), 'U': dict(C=3, H=5, N=1, O=1, Se=1), 'O': dict(C=12, H=19, N=3, O=2), 'X': dict(),
}
WATER = dict(H=2, O=1)
# a few named modifications with compositions written from their chemistry (Unimod names)
NAMED = {
    'Acetyl': dict(C=2, H=2, O=1), 'Oxidation': dict(O=1), 'Phospho': dict(H=1, P=1, O=3), 'Carbamidomethyl': dict(C=2, H=3, N=1, O=1),
    'Amidated': dict(H=1, N=1, O=-1), 'Methyl': dict(C=1, H=2), 'Deamidated': dict(H=-1, N=-1, O=1), 'Dimethyl': dict(C=2, H=4),
    'Formyl': dict(C=1, O=1), 'Dehydrated': dict(H=-2, O=-1),
}
MONOSACCHARIDES = {'Hex': dict(C=6, H=10, O=5), 'HexNAc': dict(C=8, H=13, N=1, O=5), 'Fuc': dict(C=6, H=10, O=4), 'dHex': dict(C=6, H=10, O=4),
                   'NeuAc': dict(C=11, H=17, N=1, O=8), 'NeuGc': dict(C=11, H=17, N=1, O=9), 'Pent': dict(C=5, H=8, O=4)}
ADDUCT_IONS = {'H+': ('H', 1), 'Na+': ('Na', 1), 'K+': ('K', 1), 'Li+': ('Li', 1), 'Mg2+': ('Mg', 2), 'Ca2+': ('Ca', 2), 'Cl-': ('Cl', -1),
               'I-': ('I', -1), 'e-': ('e', -1)}
