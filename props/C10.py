SPEC = dict(
    property='C10',
    level='other',
    level_text='Mixed. PROVED deductively (every string, incl. bodies with colons or brackets, every letter case of the prefix): the five '
               'prefix-stripping functions of the resolver (_strip_unimod_str, _strip_psi_str, _strip_xlmod_str, _strip_resid_str, '
               '_strip_gno_str) return exactly the body after the documented prefix and return an unprefixed string unchanged, and '
               'is_xlmod_str is the prefix test; mod_mass multiplies the mass of a Mod object\'s value by its multiplier, lets numbers pass '
               'through, and for \'|\'-separated alternatives returns the FIRST resolvable one, raising only when none resolves (loop invariant '
               'over the alternatives) -- string VCs generated from the real AST (split through index-of, lower() under A-ASCII), '
               'discharged by z3 / cvc5. These obligations refuted the pinned tree (a body containing a colon), replayed, and were repaired '
               '(fix recorded). EXHAUSTIVE over the finite tables (bounded tier; every entry in thorough, every 5th + all special names in '
               'quick): each of the 1522 Unimod, 1978 PSI-MOD and 1101 XLMOD entries resolves to the same mono / average mass and composition '
               '(or the same error) through every documented spelling; tabulated monoisotopic mass == mass of the tabulated composition for '
               'Unimod and monosaccharides; generic forms (prefixed signed numbers, Formula against NIST, Glycan, Obs, |, #, ^n).',
    level_note='A-ASCII for lower(). _get_mass/_get_comp lookup order and the resolver chains (mass_calc._parse_mod_mass, chem_calc._parse_mod_comp) '
               'are exercised by the table tier, not under contract.',
    design_ref='DESIGN.md section 6, C10',
    contracts=['moddb', 'modmass', 'modresolve', 'modcomp'],
    targets={'modmass': ['peptacular.mass_calc:mod_mass@mod', 'peptacular.mass_calc:mod_mass@int', 'peptacular.mass_calc:mod_mass@float', 'peptacular.mass_calc:mod_mass@str', 'peptacular.mass_calc:_parse_mod_mass@str']},
    bounded=[dict(name='C10-tables', script='bounded/C10.py')],
    replay_finder='bounded/C10.py',
    explanation='string obligations for the spelling rules (all discharged) + exhaustive table enumeration',
    proved_clauses=['one alternative (_parse_mod_mass / _parse_mod_comp, the two dispatchers): the localisation tag is cut off before anything else (a bare tag '
                    'weighs nothing / has the empty composition); a signed or unsigned number is its own mass (no composition); Glycan:, GNO, XLMOD, RESID, '
                    'INFO:, PSI-MOD, Unimod, Formula:, Obs: texts go to exactly their resolver, in that order, WITHOUT the tag; anything else has neither '
                    '(contracts/modmass.py 342 obligations, contracts/modcomp.py 289)',
                    'mod_comp: a Mod object multiplies every entry of its value\'s composition by the multiplier; a number raises; a text takes the first '
                    '\'|\' alternative that has a composition and raises only if none has',
                    'look-up (contracts/modresolve.py): _get_mass / _get_comp return -- and raise -- as a function of the database and the text AFTER the '
                    'prefix is stripped (accession first, then name; tabulated mass else the computed one; a signed number is a mass shift), never of '
                    'the original spelling; parse_<vocabulary>_mass / _comp (5 vocabularies) are that helper on the stripped text; lemmas: two '
                    'texts with the same stripped body, and the documented prefixes in upper / lower / mixed case, resolve to the same mass and '
                    'the same composition (27 lemmas over the contracts)',
                    'strip(p + ":" + x) == x for every documented prefix p in any case and every body x; unprefixed unchanged (5 vocabularies)'],
    bounded_clauses=['every entry x every spelling x {mono, average, composition}', 'table mass == composition mass (Unimod, monosaccharides)', 'generic forms'],
    uncovered_clauses=[], assumptions=['A-ASCII: case mapping restricted to ASCII', 'str as SMT strings'],
    trusted_base=['z3 5.1', 'cvc5 1.0.3', 'pyvc AST->VC translation'],
)
