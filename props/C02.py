SPEC = dict(
    property='C02',
    level='other',
    level_text='Mixed. PROVED deductively (A-REAL, every real mass, charge, isotope, loss, precision, all 18 ion types incl. the KeyError '
               'for an unknown one): the real adjust_mass returns base + charge carrier + the ion type\'s neutral offset + isotope x neutron + '
               'loss (verbatim), with the carrier = charge x proton for p/n, (charge-1) x proton + the type\'s ionisation offset for fragment '
               'types, or the adduct mass; adjust_mz divides by the charge -- over the real offset tables dumped from the real modules on '
               'every run as ground facts. BOUNDED (labelled): mass()/mz() of peptides given as descriptions (every placement kind x 13 '
               'modifications of a-priori known mass x multipliers x 9 parameter tuples x adduct lists) against an independent exact-'
               'rational reference built from NIST atomic masses typed into specs/nist.py; residue / particle tables against NIST.',
    level_note='A-REAL (floats as reals; the 1e-5 / 2e-3 tolerances of the statement apply in the bounded tier). round() uninterpreted. '
               'mass() itself (dict/str iteration over the annotation, resolver calls) is bounded only in this revision. '
               '_parse_charge_adducts_mass assumed pure (bounded-checked).',
    design_ref='DESIGN.md section 6, C02',
    contracts=['masscalc'],
    bounded=[dict(name='C02-bounded', script='bounded/C02.py')],
    replay_finder='bounded/C02.py',
    explanation='deductive obligations for adjust_mass / adjust_mz + bounded comparison of mass()/mz() with an independent reference',
    proved_clauses=['adjust_mass: sum of parts incl. neutron per isotope step, loss verbatim, proton per charge / adduct mass / fragment carrier',
                    'adjust_mz: mass / charge (mass itself for charge 0)'],
    bounded_clauses=['mass() = residues + water + every modification x multiplier wherever written (labile for the precursor), both modes',
                     'tables vs NIST within 1e-5 (mono) / 2e-3 (average)', 'adduct lists = exactly the stated ions (known finding recorded)'],
    uncovered_clauses=['every Unimod entry as a modification of mass(): covered per entry under C10, not here'],
    assumptions=['A-REAL: machine floats treated as mathematical reals', 'oracle constants typed in from NIST/CODATA (specs/nist.py)'],
    trusted_base=['z3 5.1', 'pyvc AST->VC translation', 'specs/nist.py'],
)
