SPEC = dict(
    property='C02',
    level='other',
    level_text='Mixed. PROVED deductively (record model of the annotation, any peptide): the real mass() hands to the ion adjustment exactly the '
               'SUM OF THE PARTS -- residue masses from the real table (fold over the residues), every modification\'s mass wherever it is '
               'written (N-terminus, C-terminus, every residue position, every interval, unknown position; labile ones for the precursor '
               'ion type only), and for every global static rule the mass of its modifications once per terminal target / times the number '
               'of occurrences of a residue target (nine loop invariants over fold / finite-sum spec functions; modification multipliers are '
               'inside the pure callee mod_mass); charge, adducts and isotope label default to the annotation\'s own; B / Z and unknown '
               'residues raise their ValueError-family errors and nothing else is raised; a labelled peptide goes through the composition '
               'calculator; mz() is mass() at the resolved charge passed to adjust_mz; mod_mass of a Mod object is the mass of its value TIMES its '
               'multiplier, numbers pass through, and of \'|\' alternatives the first resolvable one counts; an adduct list adds up its entries '
               '(the clause "every stated ion loses its own electrons" of _parse_adduct_mass is NOT provable on the pinned tree: known finding). ALSO PROVED (A-REAL, every real mass, charge, isotope, loss, precision, all 18 ion types incl. the KeyError '
               'for an unknown one): the real adjust_mass returns base + charge carrier + the ion type\'s neutral offset + isotope x neutron + '
               'loss (verbatim), with the carrier = charge x proton for p/n, (charge-1) x proton + the type\'s ionisation offset for fragment '
               'types, or the adduct mass; adjust_mz divides by the charge -- over the real offset tables dumped from the real modules on '
               'every run as ground facts. BOUNDED (labelled): mass()/mz() of peptides given as descriptions (every placement kind x 13 '
               'modifications of a-priori known mass x multipliers x 9 parameter tuples x adduct lists) against an independent exact-'
               'rational reference built from NIST atomic masses typed into specs/nist.py; residue / particle tables against NIST.',
    level_note='A-REAL (floats as reals; the 1e-5 / 2e-3 tolerances of the statement apply in the bounded tier). round() uninterpreted. '
               'mod_mass (resolver, multiplier), parse_static_mods, comp_mass are pure callees of the mass() proof (bounded-checked); "plus water" is the '
               'neutral offset of ion type p inside adjust_mass (ground value checked under C05). '
               '_parse_charge_adducts_mass assumed pure (bounded-checked).',
    design_ref='DESIGN.md section 6, C02',
    contracts=['masscalc', 'masssum', 'modmass'],
    technique='weakest-precondition VCs from the real AST of mass(), mz(), adjust_mass, adjust_mz against sidecar contracts (fold and finite-sum spec functions, '
              'real constant tables dumped on every run), discharged by z3 / cvc5; bounded comparison with an independent exact-rational reference from NIST masses as labelled stand-in for the numeric agreement',
    bounded=[dict(name='C02-bounded', script='bounded/C02.py')],
    replay_finder='bounded/C02.py',
    explanation='deductive obligations for adjust_mass / adjust_mz + bounded comparison of mass()/mz() with an independent reference',
    proved_clauses=['mass() = residues + every modification wherever written (labile for the precursor only) + static rules per target occurrence, then the ion adjustment; mz() = that mass over the charge',
                    'adjust_mass: sum of parts incl. neutron per isotope step, loss verbatim, proton per charge / adduct mass / fragment carrier',
                    'adjust_mz: mass / charge (mass itself for charge 0)'],
    bounded_clauses=['numeric agreement of mass()/mz() with the independent NIST reference (1e-5 / 2e-3), modification multipliers, both modes',
                     'tables vs NIST within 1e-5 (mono) / 2e-3 (average)', 'adduct lists = exactly the stated ions (known finding recorded)'],
    uncovered_clauses=['every Unimod entry as a modification of mass(): covered per entry under C10, not here'],
    assumptions=['A-REAL: machine floats treated as mathematical reals', 'A-FINSUM', 'SPEC-FOLD', 'oracle constants typed in from NIST/CODATA (specs/nist.py)'],
    trusted_base=['z3 5.1', 'pyvc AST->VC translation', 'specs/nist.py'],
)
