SPEC = dict(
    property='C14',
    level='other',
    level_text='Mixed. DEDUCTIVE (A-REAL, any number of peaks): the scaling step _scale_isotope_abundances -- the last step of every pattern -- is '
               'proved to keep one peak per peak and every mass (rounded on request), to multiply each abundance by the requested abundance, '
               'after dividing by the total when the total is requested, to raise ZeroDivisionError exactly for a non-empty pattern of total '
               'zero; and from that, by induction on the number of peaks carried out inside the run (base and step are obligations): in sum '
               'mode the total of the result EQUALS the requested abundance, in peak mode a pattern whose largest peak is 1 gets the requested '
               'abundance as its largest peak and no larger one; merge_isotopic_distributions is proved to return the patterns\' peaks merged by '
               '(rounded) mass -- sorted, each mass once, the abundance at a mass being the total over ALL peaks of ALL arguments at that mass, '
               'no mass without a peak and no peak without its mass (two nested loop invariants over the counting folds INN / OUT). BOUNDED (labelled) on the real isotopic_distribution / merge_isotopic_distributions against an exact multinomial expansion '
               'computed from the independent NIST isotope table: patterns are sorted by mass; the largest peak (or on request the total) '
               'equals the requested abundance; with no pruning the lightest peak sits at the monoisotopic mass incl. e/p/n entries and the '
               'abundance-weighted mean equals the average mass; the neutron-offset view is the mass view binned by nominal mass; peaks '
               'match the exact expansion for every composition with at most 12 atoms; merging adds abundances at equal masses; the formula '
               'argument is unchanged. The convolution works on dicts keyed by rounded floats -- floating-point numerics with rounding inside '
               'the loop, outside what A-REAL contracts decide soundly (DESIGN section 6, C14): the convolution, centring and completeness clauses are bounded only.',
    level_note='oracle isotope masses / abundances typed in from NIST; comparison tolerances: atoms x 10^-resolution on masses, 1e-6 + 1e-4 relative on abundances.',
    design_ref='DESIGN.md section 6, C14',
    contracts=['isoscale'],
    technique='weakest-precondition VCs from the real AST of _scale_isotope_abundances against a sidecar contract, normalisation lemmas by induction (base / step obligations), discharged by z3 / cvc5; bounded run-time contract check against an exact multinomial expansion from an independent isotope table as labelled stand-in for the convolution',
    bounded=[dict(name='C14-bounded', script='bounded/C14.py')],
    replay_finder='bounded/C14.py',
    explanation='normalisation step proved; convolution / centring / completeness bounded',
    proved_clauses=['the convolution of two patterns without pruning (_convolve_distributions, no isotope limit / threshold, non-negative abundances): total '
                    'abundance == product of the two totals, and without rounding of the mass keys the mass-weighted sums ADD '
                    '(MT(result) == MT(a) * total(b) + total(a) * MT(b)) -- i.e. the mean of the convolved pattern is the sum of the means, the algebra '
                    'behind "its abundance-weighted mean equals the average mass"',
                    'merging adds abundances at equal masses (every argument, every peak), sorted, nothing lost, nothing invented',
                    'scaling: total == requested abundance (sum mode); largest peak == requested abundance for a pattern normalised to 1 (peak mode); masses kept'],
    bounded_clauses=['sorted; the pattern handed to the scaling step is normalised to its largest peak', 'lightest peak and mean (no pruning)', 'neutron view', 'exact multinomial for <= 12 atoms', 'merge'],
    uncovered_clauses=['multinomial exactness above 12 atoms'], assumptions=['A-REAL', 'SPEC-FOLD', 'LC-ROUND', 'oracle isotope table typed in from NIST'], trusted_base=['z3 5.1', 'cvc5 1.0.3', 'pyvc', 'bounded/C14.py', 'specs/nist.py'],
)
