SPEC = dict(
    property='C14',
    level='other',
    level_text='Bounded (labelled) on the real isotopic_distribution / merge_isotopic_distributions against an exact multinomial expansion '
               'computed from the independent NIST isotope table: patterns are sorted by mass; the largest peak (or on request the total) '
               'equals the requested abundance; with no pruning the lightest peak sits at the monoisotopic mass incl. e/p/n entries and the '
               'abundance-weighted mean equals the average mass; the neutron-offset view is the mass view binned by nominal mass; peaks '
               'match the exact expansion for every composition with at most 12 atoms; merging adds abundances at equal masses; the formula '
               'argument is unchanged. The convolution works on dicts keyed by rounded floats -- floating-point numerics with rounding inside '
               'the loop, outside what A-REAL contracts decide soundly (DESIGN section 6, C14): no deductive obligations in this revision.',
    level_note='oracle isotope masses / abundances typed in from NIST; comparison tolerances: atoms x 10^-resolution on masses, 1e-6 + 1e-4 relative on abundances.',
    design_ref='DESIGN.md section 6, C14',
    technique='bounded run-time contract check against an exact multinomial expansion from an independent isotope table (labelled stand-in)',
    bounded=[dict(name='C14-bounded', script='bounded/C14.py')],
    replay_finder='bounded/C14.py',
    explanation='bounded check only (numerical property)',
    proved_clauses=[], bounded_clauses=['sorted; normalisation (peak / sum, requested abundance)', 'lightest peak and mean (no pruning)', 'neutron view', 'exact multinomial for <= 12 atoms', 'merge'],
    uncovered_clauses=['multinomial exactness above 12 atoms'], assumptions=['oracle isotope table typed in from NIST'], trusted_base=['bounded/C14.py', 'specs/nist.py'],
)
