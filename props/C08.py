SPEC = dict(
    property='C08',
    level='proof',
    level_text='Frame mode: every one of the ~315 functions / methods of the 16 anchored modules has a frame clause -- by default the '
               'statement\'s own: a QUERY modifies nothing it is given, returns no object that IS one of its arguments and writes no '
               'process-wide state, unless it is an explicit in-place editor (add_*/pop_*/setters/inplace=True) -- and each body is checked '
               'against its own clause using only the clauses of its callees: one obligation per mutation site, per call site whose callee '
               'may modify an argument, per return/yield and per global write, on the real AST, for both values of `inplace`. This is a '
               'modular syntactic dataflow over provenance sets (no no-alias assumption), not an SMT proof. History independence follows '
               'from the discharged clauses by the determinism of the subset (meta-lemma, stated). An exhaustive bounded run of ~90 calls '
               '(argument snapshots, identity-disjointness of results, all ordered pairs of calls, RNG / database state) stands beside it.',
    level_note='Trusted: the provenance abstraction of pyvc/frame.py (own / reach sets; container-value provenance only for locally created '
               'empty containers; isinstance narrowing; calls that resolve to no scanned function assumed non-mutating -- listed in evidence). '
               'Deep sharing through results (a fresh result HOLDING argument objects) is decided by the bounded identity check only. '
               'Accessors (properties, get_internal_mods_by_index) return views by design and are declared so in contracts/frames.py.',
    design_ref='DESIGN.md section 6, C08; section 2.5',
    technique='contract-based frame checking: modifies / fresh-result clauses checked modularly on the real AST (provenance dataflow); '
              'bounded run-time contract check (snapshots, identity disjointness, call pairs) as labelled stand-in',
    frame=True,
    bounded=[dict(name='C08-bounded', script='bounded/C08.py')],
    replay_finder='bounded/C08.py',
    proved_clauses=['no query mutates an argument or something reachable from it (mutation sites + call sites, modular)',
                    'no query returns an object that is one of its arguments', 'no query writes the process-wide random generator / module-level containers'],
    bounded_clauses=['results hold no mutable object of an argument (identity check over ~90 calls)',
                     'same result first or after any other call: all ordered pairs, random triples', 'modification databases untouched'],
    uncovered_clauses=[],
    assumptions=['determinism of the Python subset (history independence from frame clauses)', 'unresolved callees are non-mutating'],
    trusted_base=['pyvc/frame.py provenance dataflow', 'CPython ast'],
)
