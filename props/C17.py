SPEC = dict(
    property='C17',
    level='proof',
    level_text='Deductive proof (unbounded list lengths, all real-valued tolerances) that the real two-pointer sweep get_matched_indices '
               'returns for every theoretical value exactly the half-open index window of observed peaks within tolerance (inclusive '
               'bounds), None iff there is none, incl. termination and exception freedom; and that match_spectra in each of its three '
               'modes returns exactly / one-minimal-distance / one-maximal-intensity of those peaks (modular, over the callee contract). '
               'Fragment pairing under input reordering, intensity share and coverage are an exhaustive bounded check, labelled bounded.',
    level_note='A-REAL: floats as mathematical reals (inclusive-bound behaviour at exact float boundaries is outside the proof). '
               'Trusted: pyvc, z3/cvc5. Library contracts LC-MINMAX, LC-INDEX for min()/max()/list.index(). Precondition from the '
               'statement: both lists sorted, non-negative m/z, tolerance >= 0. get_fragment_matches / get_match_coverage / '
               'get_matched_intensity_percentage / binomial_score bodies (sort with key lambda, zip(*), dict comprehension, math.comb) '
               'are outside the verified subset: bounded only.',
    design_ref='DESIGN.md section 6, C17',
    contracts=['score', 'fragmatch'],
    bounded=[dict(name='C17-bounded', script='bounded/C17.py')],
    replay_finder='bounded/C17.py',
    proved_clauses=['get_fragment_matches for inputs already in m/z order (contracts/fragmatch.py, three modes): mode all -- exactly the pairs (fragment, peak in its '
                    'tolerance), each with that peak\'s m/z and intensity; closest / largest -- every fragment with a peak in tolerance gets one match, '
                    'with a peak in tolerance at minimal distance / of maximal intensity; nothing else; an empty spectrum gives nothing. (LC-SORT-STABLE: '
                    'sorting an already sorted list changes nothing; the permutation applied to unsorted input is exercised by the bounded tier)',
                    'get_matched_indices: exact window per theoretical value, shared lower pointer never skips a needed peak (invariant '
                    'ptr-safe), termination (variants), no IndexError/TypeError, ValueError iff invalid tolerance type',
                    "match_spectra mode 'all'/'closest'/'largest': per-entry characterisation over the callee contract"],
    bounded_clauses=['get_fragment_matches pairs each fragment with those peaks regardless of input order (all orders of <=4 elements)',
                     'matched-intensity fraction = distinct matched peaks / total, in [0,1]', 'coverage counts (known finding recorded)'],
    uncovered_clauses=['binomial_score (float powers, math.comb): not covered'],
    assumptions=['A-REAL: machine floats treated as mathematical reals', 'Python int = mathematical integer'],
    trusted_base=['z3 5.1', 'cvc5 1.0.3', 'pyvc AST->VC translation', 'CPython ast'],
)
