SPEC = dict(
    property='C06',
    level='proof',
    level_text='Deductive proof (unbounded in protein length, number of sites, missed cleavages and length bounds) that the real span '
               'builders in spans.py yield exactly the multiset of spans the statement defines: VCs generated from the real AST with loop '
               'invariants, discharged by z3/cvc5; and that digest() (return type span) returns EXACTLY the spans build_spans defines for '
               'the union of the cleavage sites of all the given rules -- plus the whole protein when the digestion is declared incomplete -- '
               'each once, sorted by (start, end, value) (loop invariant over the rules with the set-valued fold SITES; sorted(set) with the '
               'identity key as lexicographic enumeration). The two grouped semi builders (sorted/groupby) and the regex site finder are '
               'covered by an exhaustive bounded check of the same clause on the real functions, labelled bounded.',
    level_note='Trusted: pyvc VC generator, z3/cvc5, ast. Assumed contracts: _grouped_left/right_semi_span_builder (bounded-checked). '
               'A-CNT, A-PIGEON, LC-SORTED/LC-SET library contracts for sorted(set(..)). Generators as multisets. regex engine.',
    design_ref='DESIGN.md section 6, C06',
    contracts=['spans', 'digest'],
    targets={'digest': ['peptacular.digestion:digest@span', 'peptacular.digestion:_return_digested_sequences@span', 'peptacular.proforma.proforma_parser:ProFormaAnnotation.__len__', 'peptacular.proforma.proforma_parser:ProFormaAnnotation.sequence']},
    bounded=[dict(name='C06-bounded', script='bounded/C06.py')],
    replay_finder='bounded/C06.py',
    proved_clauses=[
        'digest(return_type=span): exactly the spans of build_spans for the sites of all rules together (+ the whole protein if incomplete), each once, sorted',
        'build_non_enzymatic_spans / build_left_semi_spans / build_right_semi_spans: exact multiset of yielded spans (unbounded)',
        'build_enzymatic_spans: exact multiset = {(S[a],S[b],b-a-1): a<b<=a+mc+1, min<=len<=max} via two loop invariants (unbounded)',
        'build_semi_spans, build_spans: dispatch, semi union, length filter, disjointness of enzymatic/left/right families, '
        'the every-position-is-a-site shortcut (unbounded, over the assumed contracts of the two grouped builders)',
    ],
    bounded_clauses=[
        '_grouped_left/right_semi_span_builder bodies (sorted/groupby with key lambdas are outside the subset): contract assumed '
        'deductively, checked exhaustively on the real functions for n<=5/7',
        'digest(): rule -> sites (regex engine), set/sort/dispatch, partial digestion, five return types; sequential == simultaneous',
    ],
    uncovered_clauses=[],
    assumptions=[
        'A-CNT: in the strictly increasing enumeration S of sites+{0,n}, the number of sites strictly between S[a] and S[b] is b-a-1',
        'A-PIGEON: n+1 distinct sites within [0,n] <=> every position is a site',
        'generators are modelled as the multiset of values they yield (order and laziness abstracted)',
        'Python int = mathematical integer (exact)',
        'regex engine (regex.finditer overlapped) trusted in the bounded tier oracle for user regexes; named proteases use a hand-typed table',
    ],
    trusted_base=['z3 5.1 (python API)', 'cvc5 1.0.3 (fallback for z3 unknowns)', 'pyvc AST->VC translation (/verif/pyvc)',
                  'CPython ast module'],
)
