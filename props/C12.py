SPEC = dict(
    property='C12',
    level='other',
    level_text='Bounded (labelled) on the real functions: a peptide written with global static rules (1..3 targets among residues / N-Term / '
               'C-Term, 1..2 modifications, several rules incl. re-targeting, residues already modified) has the same mass (p,b,y,c,z; both '
               'modes), composition + residual, modified-residue counts and b/y fragment ions as the explicit per-residue form built '
               'independently from the description, and condensing the rule yields exactly that form; a global isotope label shifts the '
               'monoisotopic mass by (atoms of that element in residues and termini, plus those of formula modifications only with '
               'use_isotope_on_mods) x the isotope mass difference from the independent NIST table, and leaves peptides without the element '
               'unchanged. Deductive support: adjust_mass (C02) and slice (C11) contracts; condense_static_mods / parse_static_mods / '
               'apply_isotope_mods_to_composition are not yet under contract.',
    level_note='regex (re.finditer on single letters), text splitting of the rule and the resolver are exercised, not modelled.',
    design_ref='DESIGN.md section 6, C12',
    technique='bounded run-time relational check of the real calculators against an independently constructed explicit form and NIST '
              'isotope masses (labelled stand-in)',
    bounded=[dict(name='C12-bounded', script='bounded/C12.py')],
    replay_finder='bounded/C12.py',
    explanation='bounded relational check only in this revision; see level_text',
    proved_clauses=[],
    bounded_clauses=['rule form == explicit form: mass, composition, counts, fragments, condensation', 'isotope label shift == atoms x mass difference; use_isotope_on_mods; absent element unchanged'],
    uncovered_clauses=[],
    assumptions=['oracle isotope masses typed in from NIST'],
    trusted_base=['bounded/C12.py', 'specs/nist.py'],
)
