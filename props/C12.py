SPEC = dict(
    property='C12',
    level='other',
    level_text='Mixed. DEDUCTIVE: apply_isotope_mods_to_composition is proved to move ALL atoms of a labelled element to the labelled isotope, '
               'adding them to whatever amount of that isotope the composition already holds, to leave every other entry and compositions '
               'without the element unchanged (dictionary loop invariant with a left inverse of the label map); from the proved sum-of-parts '
               'contract of mass() (contracts/masssum.py, C02) three lemmas are derived: a static rule targeting N-Term (C-Term) gives exactly '
               'the mass of the same peptide with those modifications written explicitly on that terminus, and a rule whose residue target '
               'does not occur changes nothing (for residue targets the contract itself states: mass of the rule\'s modifications x number of '
               'occurrences); condense_static_mods (copy mode) is proved to remove the rules, to leave every position no residue rule matches '
               'exactly as it was, to leave every matched position modified, to keep pre-existing residue modifications, to touch the '
               'N- / C-terminal modifications only under an N-Term / C-Term rule, and to change nothing else (two nested loop invariants; the regex '
               'matches are LC-REGEX). BOUNDED (labelled) on the real functions: a peptide written with global static rules (1..3 targets among residues / N-Term / '
               'C-Term, 1..2 modifications, several rules incl. re-targeting, residues already modified) has the same mass (p,b,y,c,z; both '
               'modes), composition + residual, modified-residue counts and b/y fragment ions as the explicit per-residue form built '
               'independently from the description, and condensing the rule yields exactly that form; a global isotope label shifts the '
               'monoisotopic mass by (atoms of that element in residues and termini, plus those of formula modifications only with '
               'use_isotope_on_mods) x the isotope mass difference from the independent NIST table, and leaves peptides without the element '
               'unchanged. the VALUES condensation writes (a rule\'s modifications appended in rule order) and parse_static_mods (rule text) are bounded only.',
    level_note='regex (re.finditer on single letters), text splitting of the rule and the resolver are exercised, not modelled.',
    design_ref='DESIGN.md section 6, C12',
    contracts=['labelcomp', 'condstatic', 'masssum', 'stores'], targets={'masssum': ['LEMMAS']},
    technique='weakest-precondition VCs from the real AST of apply_isotope_mods_to_composition against a sidecar contract; lemmas over the '
              'proved contract of mass(); both discharged by z3 / cvc5; bounded run-time relational check of the real calculators against an independently constructed explicit form and NIST '
              'isotope masses (labelled stand-in)',
    bounded=[dict(name='C12-bounded', script='bounded/C12.py')],
    replay_finder='bounded/C12.py',
    explanation='isotope relabelling of compositions and terminal-rule lemmas proved; rule form vs explicit form bounded',
    proved_clauses=['the stores condensing writes through (add_internal_mods in append mode, add_nterm_mods / add_cterm_mods): a matched position gets the '
                    'normalised rule modifications APPENDED to what it carries (or stored, if it carried none), other positions and fields untouched '
                    '(contracts/stores.py, exact values)',
                    'condensing writes on exactly the positions the residue rules match, keeps everything else (which positions; values bounded)',
                    'isotope label: all atoms of the element move to the labelled isotope (accumulating), nothing else changes, absent element unchanged',
                    'terminal static rule == explicit terminal modification (mass); absent residue target changes nothing'],
    bounded_clauses=['rule form == explicit form: mass, composition, counts, fragments, condensation', 'isotope label shift == atoms x mass difference; use_isotope_on_mods; absent element unchanged'],
    uncovered_clauses=[],
    assumptions=['A-REAL', 'A-FINSUM', 'oracle isotope masses typed in from NIST'],
    trusted_base=['z3 5.1', 'cvc5 1.0.3', 'pyvc', 'bounded/C12.py', 'specs/nist.py'],
)
