SPEC = dict(
    property='C05',
    level='other',
    explanation='ground obligations over the real tables (exact) + proved adjust_mass contract + bounded run of the real fragmenter; 15 table '
                'obligations are refuted on the pinned tree and recorded as two known findings, so discharged < obligations',
    level_text='Ground obligations over the real tables (proof-style, but two recorded findings leave 15 of them refuted): every identity of the statement (b+y = M + 2 protons; a = b - CO; c = b + NH3; x = y + CO - H2; '
               'z = y - NH3; immonium = residue - CO + proton; each of the 9 internal series = span + proton + the pair of terminal '
               'offsets) is one obligation on the real MONOISOTOPIC/AVERAGE_FRAGMENT(_ION)_ADJUSTMENTS values, read exactly and compared in '
               'exact rational arithmetic with CO / NH3 / H2 / H2O / proton computed from the independent NIST table (1e-5 Da), both modes; '
               'together with four lemmas proved over the adjust_mass contract (C02) -- a singly charged ion is its base mass plus the table '
               'offsets of its type; each further charge adds one proton; complementary b and y ions sum to the two spans plus both offsets; a '
               'mass added to the base mass shifts exactly the ions built on it, by exactly that mass -- this decides the series relations for '
               'every peptide. The real fragment() is additionally run on described peptides '
               '(bounded) for the clause "modifications shift exactly the ions that contain the modified residue or terminus".',
    level_note='Oracle constants typed in (specs/nist.py). A-REAL. The link from the tables to fragment() output is adjust_mass#ensures (proved '
               'under C02) plus the bounded run; _build_fragments itself is under contract in C04 only as far as built there.',
    design_ref='DESIGN.md section 6, C05',
    technique='ground obligations over the real constant tables (exact rational arithmetic against an independent atomic-mass table) as lemmas '
              'over the proved adjust_mass contract; bounded run of the real fragmenter as labelled stand-in',
    contracts=['masscalc'],
    targets={'masscalc': ['peptacular.mass_calc:adjust_mass', 'LEMMAS']},
    ground=[dict(module='ground.c05_tables')],
    bounded=[dict(name='C05-bounded', script='bounded/C05.py')],
    replay_finder='bounded/C05.py',
    proved_clauses=['table identities for all 6 terminal series, immonium and 9 internal series, both modes (ground, exact)',
                    'higher charge adds one proton each; offsets additive; a modification shifts exactly the ions whose span contains it (lemmas over adjust_mass#ensures)'],
    bounded_clauses=['absolute b/y/a/c/x/z/immonium/internal values of the real fragment() incl. modified residues and termini, charge 1..4'],
    uncovered_clauses=['immonium ions of a residue at a MODIFIED terminus (whether the ion contains the terminus is not fixed by the statement)'],
    assumptions=['A-REAL', 'oracle constants typed in from NIST/CODATA'],
    trusted_base=['specs/nist.py', 'exact rational arithmetic (fractions.Fraction)', 'z3 5.1', 'pyvc'],
)
