SPEC = dict(
    property='C18',
    level='other',
    level_text='Bounded (labelled) on the real condense_to_mass_mods: for 23 annotation texts (every modification kind incl. negative net '
               'shifts, static rules, labels, unknown-position, interval, charge / adducts) and random modified peptides x include_plus x '
               'precision 3..8 the result has the same residues, only numeric modifications, shifts exactly where modifications were, a mass '
               'within precision x number of shifts of the original, and an unmodified peptide is returned unchanged. Deductive support: '
               'split()/slice() (C11 contract) says which annotations every one-residue piece inherits -- which is precisely what the six '
               'recorded findings of this property are about; the condenser itself is not under contract in this revision.',
    level_note='six recorded findings (one root cause: one-residue pieces inherit global, unknown-position, interval and charge annotations).',
    design_ref='DESIGN.md section 6, C18',
    technique='bounded run-time contract check of the real condenser against the real mass calculator (labelled stand-in)',
    bounded=[dict(name='C18-bounded', script='bounded/C18.py')],
    replay_finder='bounded/C18.py',
    explanation='bounded check only in this revision',
    proved_clauses=[], bounded_clauses=['same residues; only numeric modifications; shifts on the modified residues / termini; mass within precision x k; unmodified unchanged'],
    uncovered_clauses=[], assumptions=[], trusted_base=['bounded/C18.py'],
)
