SPEC = dict(
    property='C18',
    level='other',
    level_text='Mixed. DEDUCTIVE (record model, any peptide length): condense_to_mass_mods is proved to return the serialization of a peptide '
               'with the SAME residues that carries a numeric shift on residue i exactly when the one-residue piece i of the peptide '
               '(without terminal and labile modifications) differs in mass from its stripped form by more than 1e-6 -- in either '
               'direction -- with the value round(difference, precision); exactly one numeric N-terminal / C-terminal / labile shift when the '
               'peptide has such modifications, with the value round(sum of their masses, precision); and no global rule, label, '
               'unknown-position modification, interval, charge or adduct (loop invariant over the zipped pieces; the terminal and labile '
               'modifications are removed BEFORE the peptide is cut). BOUNDED (labelled) on the real condenser against the real mass '
               'calculator: for 23 annotation texts (every modification kind incl. negative net shifts, static rules, labels, '
               'unknown-position, interval, charge / adducts) and random modified peptides x include_plus x precision 3..8: same residues, '
               'only numeric modifications, shifts where modifications were, mass within precision x number of shifts (which needs the '
               'additivity of mass() over the pieces -- not proved), unmodified peptide unchanged.',
    level_note='mass(), mod_mass(), split(), strip(), serialize() and the four add_* stores are callees under assumed contracts (pure functions / '
               'frame contracts); six recorded findings (one root cause: one-residue pieces inherit global, unknown-position, interval and '
               'charge annotations) concern exactly the part the deductive tier leaves to mass() and split().',
    design_ref='DESIGN.md section 6, C18',
    technique='weakest-precondition VCs from the real AST of condense_to_mass_mods against a sidecar contract (loop invariant over '
              'enumerate(zip(pieces, stripped pieces))), discharged by z3 / cvc5; bounded run-time contract check of the real condenser '
              'against the real mass calculator as labelled stand-in for mass preservation',
    contracts=['condense'],
    bounded=[dict(name='C18-bounded', script='bounded/C18.py')],
    replay_finder='bounded/C18.py',
    explanation='structure of the rewritten peptide proved; mass preservation bounded',
    proved_clauses=['same residues; a numeric shift on residue i iff the piece differs from its stripped form by more than 1e-6, value = rounded difference',
                    'terminal / labile shifts iff present, value = rounded sum; no other annotation survives (only numeric modifications)'],
    bounded_clauses=['mass within precision x number of shifts of the original (needs additivity of mass() over pieces)', 'unmodified peptide returned unchanged', 'string input'],
    uncovered_clauses=[], assumptions=['A-REAL', 'LC-ROUND', 'SPEC-FOLD', 'LC-DEEPCOPY'], trusted_base=['z3 5.1', 'cvc5 1.0.3', 'pyvc', 'bounded/C18.py'],
)
