SPEC = dict(
    property='C19',
    level='other',
    level_text='Mixed. DEDUCTIVE (any peptide length and size): ProFormaAnnotation.permutations / combinations / '
               'combinations_with_replacement / product are each proved to return, in order, parse(start + join(items) + end) for the '
               'items of the corresponding standard enumeration (itertools, LC-ITERTOOLS: a function of the list value and the size) over '
               'the serialized one-residue pieces of the peptide reduced to its residues and residue modifications, with the peptide\'s own '
               'serialize_start() / serialize_end() text, the size defaulting to the length; the four module-level functions are proved to '
               'return the serialized results of the method in order. BOUNDED (labelled) on the real methods and functions: for generated '
               'annotations of length 1..4/5 (all modification kinds except intervals) and every size 1..n, None, and sizes above n, the '
               'results against itertools over an abstract (residue, own modifications) view, wrapping in the unchanged global / labile / '
               'terminal annotations and charge, the counts n!/(n-k)!, C(n,k), C(n+k-1,k), n^k, parseability, argument unchanged.',
    level_note='the enumeration itself (order and number of results of itertools), the serializer pieces, split() and parse() are pure callees: '
               'what they return is checked by the bounded tier only (LC-ITERTOOLS, LC-JOIN).',
    design_ref='DESIGN.md section 6, C19',
    technique='weakest-precondition VCs from the real AST of the four expansion methods and the four module functions against sidecar '
              'contracts over uninterpreted itertools / join / serializer functions, discharged by z3 / cvc5; bounded run-time contract '
              'check against itertools over an abstract view as labelled stand-in for counts and wrapping',
    contracts=['combo'],
    bounded=[dict(name='C19-bounded', script='bounded/C19.py')],
    replay_finder='bounded/C19.py',
    explanation='the recombination structure is proved; counts / wrapping / parseability bounded',
    proved_clauses=['each expansion is the corresponding standard enumeration over the modified residues, in order, wrapped in the peptide\'s own start and end text; default size = length',
                    'module functions return the serialized method results in order'],
    bounded_clauses=['counts n!/(n-k)!, C(n,k), C(n+k-1,k), n^k', 'global / labile / terminal annotations unchanged in every result', 'every result parses'],
    uncovered_clauses=[], assumptions=['LC-ITERTOOLS', 'LC-JOIN', 'LC-DEEPCOPY'], trusted_base=['z3 5.1', 'cvc5 1.0.3', 'pyvc', 'bounded/C19.py'],
)
