SPEC = dict(
    property='C19',
    level='other',
    level_text='Bounded (labelled) on the real methods and module functions: for generated annotations of length 1..4/5 (all modification '
               'kinds except intervals) and every size 1..n, None, and sizes above n for the non-repeating forms, the results are -- in '
               'order -- the itertools enumeration of the peptide\'s (residue, own modifications) items, each wrapped in the unchanged global, '
               'labile and terminal annotations and charge; the number of results is n!/(n-k)!, C(n,k), C(n+k-1,k), n^k; every result '
               'parses; the argument is unchanged. Deductive support: split()/slice() contracts (C11) give the components; the text '
               'recombination parse(start + join(components) + end) is not under contract.',
    level_note='LC-ITERTOOLS exercised, not modelled.',
    design_ref='DESIGN.md section 6, C19',
    technique='bounded run-time contract check against itertools over an abstract view (labelled stand-in)',
    bounded=[dict(name='C19-bounded', script='bounded/C19.py')],
    replay_finder='bounded/C19.py',
    explanation='bounded check only in this revision',
    proved_clauses=[], bounded_clauses=['order, contents, wrapping, counts, parseability, function == method'],
    uncovered_clauses=[], assumptions=[], trusted_base=['bounded/C19.py'],
)
