SPEC = dict(
    property='C20',
    level='other',
    level_text='Bounded (labelled) on the real functions over a grammar-directed family of annotations: get_mods / strip_mods / add_mods '
               'reproduce the original string; create_annotation(**a.dict()) == a; copies are equal and share no mutable field object; '
               'strip() (both modes) removes every modification and nothing else; add_mod_dict(strip(a), mod_dict(a)) == a; equality is '
               'reflexive, symmetric (every comparison is made in both directions), insensitive to the order of modifications at one position '
               'and unequal to every single-field perturbation (value, multiplier, position, interval bound, ambiguity, charge, drop, '
               'duplicate, residue). Deductive support: the 23 accessor contracts and slice/shift/reverse value contracts (C11) rest on the '
               'same record model; __eq__ (Counter-based multiset comparison) is not yet under contract.',
    level_note='equality is exercised through the real __eq__ of ProFormaAnnotation / Mod / Interval; LC-COUNTER not modelled.',
    design_ref='DESIGN.md section 6, C20',
    technique='bounded run-time contract check (round trips, equality laws, exhaustive single-field perturbations) as labelled stand-in',
    bounded=[dict(name='C20-bounded', script='bounded/C20.py')],
    replay_finder='bounded/C20.py',
    explanation='bounded check only in this revision',
    proved_clauses=[], bounded_clauses=['string and dictionary round trips', 'copy equal and independent', 'strip', 'equality laws + sensitivity to every single-field perturbation'],
    uncovered_clauses=[], assumptions=[], trusted_base=['bounded/C20.py'],
)
