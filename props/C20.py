SPEC = dict(
    property='C20',
    level='other',
    level_text='Mixed. DEDUCTIVE (record model of the annotation, unbounded): ProFormaAnnotation.__eq__ is proved to return True EXACTLY when '
               'the residues are equal, each of the seven modification lists and every residue position hold the same multiset of '
               'modifications (or are both absent), the intervals are the same multiset with the same length, and the charge is equal -- '
               'nothing ignored, nothing extra (loop over the union of both key sets with an invariant over the positions seen); '
               'are_mods_equal / are_intervals_equal / get_internal_mods_by_index are proved against their multiset contracts; strip() is '
               'proved to remove every modification and nothing else in both modes (in place: through the ten property setters, each under '
               'its own verified contract; copy mode leaves the receiver unchanged); copy() returns an equal value. Lemmas over the contracts: '
               'equality is reflexive, symmetric, transitive, copy-equal and sensitive to residues / charge / presence. '
               'BOUNDED (labelled) on the real functions over a grammar-directed family of annotations: get_mods / strip_mods / add_mods '
               'reproduce the original string; create_annotation(**a.dict()) == a; copies share no mutable field object; '
               'add_mod_dict(strip(a), mod_dict(a)) == a; equality laws and every single-field perturbation through the real __eq__ / '
               '__hash__ of Mod and Interval (which the deductive tier abstracts as LC-COUNTER).',
    level_note='Counter(list) is an uninterpreted multiset abstraction (LC-COUNTER): hashing and equality of Mod / Interval elements are '
               'exercised only by the bounded tier; the string / dictionary round trips are bounded only.',
    design_ref='DESIGN.md section 6, C20',
    technique='weakest-precondition VCs from the real AST of __eq__, strip, copy, the ten property setters and the comparison helpers '
              'against sidecar contracts, discharged by z3 / cvc5; lemmas over the contracts; bounded run-time contract check (round trips, '
              'perturbations) as labelled stand-in for the string round trips',
    contracts=['equality'],
    bounded=[dict(name='C20-bounded', script='bounded/C20.py')],
    replay_finder='bounded/C20.py',
    explanation='equality / strip / copy proved on the record model; round trips bounded',
    proved_clauses=['create_annotation: every field of the new annotation is the normalised input of that name; lemma: an annotation rebuilt from the fields of '
                    'another (already normal) annotation is EQUAL to it (the step from the field dictionary dict() to the keyword arguments is bounded)',
                    '== is True exactly when every listed field is equal as a multiset (order-insensitive, sensitive to every field)',
                    'reflexive / symmetric / transitive (lemmas over the contract)', 'strip removes every modification and nothing else (both modes)',
                    'copy returns an equal value'],
    bounded_clauses=['string and dictionary round trips', 'copy independent (no shared mutable field)', 'element-level equality of Mod / Interval (value, multiplier, bounds, ambiguity)'],
    uncovered_clauses=[], assumptions=['LC-COUNTER', 'LC-DEEPCOPY'], trusted_base=['z3 5.1', 'cvc5 1.0.3', 'pyvc', 'bounded/C20.py'],
)
