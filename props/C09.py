SPEC = dict(
    property='C09',
    level='other',
    level_text='Mixed, mostly deductive. PROVED (every input string, unbounded): the cursor helpers (_current, _peek, _skip, _parse_char, '
               '_end_of_sequence), _parse_integer, _parse_modification, _parse_modifications and the three phases _parse_sequence_start / '
               '_middle / _end of the real recursive-descent parser raise nothing but ValueError-family errors (no IndexError / TypeError / '
               'AttributeError / KeyError obligation survives), keep the cursor invariant 0 <= position <= length == len(text), never move '
               'backwards, and every loop has a strictly decreasing variant length - position (termination); the driver generator '
               '_ProFormaParser.parse (one chain per iteration) is proved to consume text in EVERY iteration (the start phase stops only at '
               'the end or in front of a residue / an opening parenthesis, which the middle phase then consumes), hence to terminate with the '
               'whole text consumed, raising nothing but ValueError; constructing the format error never raises. The two defects of the pinned tree (IndexError for a bracket group at the very end, TypeError for a numeric '
               'global modification) are exactly the obligations no-IndexError / no-TypeError of _parse_sequence_start and were repaired. '
               'BOUNDED (labelled): parse() end to end (module-level wrapper, _get_result, serialize of the result) over every string of up '
               'to 4 / 5 tokens, sampled longer strings and single-token mutations; deferred validation (mass()/comp() raise for '
               'unresolvable values and for ontology entries without mass and formula).',
    level_note='Assumed (trusted, listed in evidence): the nine _add_* accumulator methods do not touch the cursor and raise at most ValueError; '
               'the Mod constructor (dataclass + convert_type); int(text) raises ValueError or returns; str.isdigit uninterpreted. '
               'Mod.val is modelled as a str|int|float union (kind tag). _get_result / _reset_sequence are assumed not to move the cursor; the module-level parse() wrapper (list / '
               'MultiProFormaAnnotation packaging) is bounded only.',
    design_ref='DESIGN.md section 6, C09',
    contracts=['parser'],
    bounded=[dict(name='C09-bounded', script='bounded/C09.py', timeout=7200)],
    replay_finder='bounded/C09.py',
    explanation='deductive obligations for the error object + exhaustive bounded enumeration of token strings; see proved/bounded clauses',
    proved_clauses=['the module-level parse(): every path returns or raises a ValueError-family error -- no IndexError from the chain list, no other '
                    'exception (the driver enters through its contract; the constructor and _is_unmodified are assumed not to raise)',
                    'ProFormaFormatError.__init__ raises nothing for any (msg, index, sequence)',
                    'cursor helpers, _parse_integer, _parse_modification(s), three phases: only ValueError-family exceptions, cursor invariant, forward progress, termination variants'],
    bounded_clauses=['parse(text) returns a serializable annotation or raises ValueError, and terminates: all strings of <= 4/5 tokens',
                     'deferred validation: unresolvable modification => mass/comp raise (9 positions x 14 values + ontology entries without mass)'],
    uncovered_clauses=['strings longer than the enumerated bound are sampled, not enumerated'],
    assumptions=['str as SMT strings'],
    trusted_base=['z3 5.1', 'pyvc AST->VC translation'],
)
