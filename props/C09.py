SPEC = dict(
    property='C09',
    level='other',
    level_text='Mixed. PROVED deductively (every message, index and text): constructing the format error never raises (the index guard of '
               'ProFormaFormatError.__init__), so an error reported at any position -- also one past the end -- reaches the caller as a '
               'ValueError. BOUNDED (labelled): parse() over EVERY string of up to 4 (quick) / 5 (thorough) tokens of a 30-token notation '
               'alphabet, sampled longer strings and single-token mutations of valid strings returns an annotation that serializes or raises '
               'ValueError within 5 s; mass()/comp() raise a ValueError-family error for every modification position x a corpus of '
               'unresolvable values and for every ontology entry without mass and formula. The recursive-descent parser class itself '
               '(mutable cursor object, union-typed modification values) is not yet under deductive contract.',
    level_note='The parser methods of _ProFormaParser are outside the deductive tier in this revision (planned: cursor invariant '
               '0 <= position <= length, variants). Bounded tier: 5 s alarm as hang detector; corpus of unresolvable values is finite.',
    design_ref='DESIGN.md section 6, C09',
    contracts=['parser'],
    bounded=[dict(name='C09-bounded', script='bounded/C09.py', timeout=7200)],
    replay_finder='bounded/C09.py',
    explanation='deductive obligations for the error object + exhaustive bounded enumeration of token strings; see proved/bounded clauses',
    proved_clauses=['ProFormaFormatError.__init__ raises nothing for any (msg, index, sequence)'],
    bounded_clauses=['parse(text) returns a serializable annotation or raises ValueError, and terminates: all strings of <= 4/5 tokens',
                     'deferred validation: unresolvable modification => mass/comp raise (9 positions x 14 values + ontology entries without mass)'],
    uncovered_clauses=['strings longer than the enumerated bound are sampled, not enumerated'],
    assumptions=['str as SMT strings'],
    trusted_base=['z3 5.1', 'pyvc AST->VC translation'],
)
