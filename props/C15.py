SPEC = dict(
    property='C15',
    level='other',
    level_text='Mixed. DEDUCTIVE: chem_mass on a composition dictionary is proved to be the finite sum over its entries of count x atomic mass '
               '(isotope table in monoisotopic mode and for isotope-labelled entries, average table otherwise, particle masses for e / p / n; '
               'spec function CSUM defined by its empty / insert equations), rounded on request, to raise the formula error exactly when an '
               'entry is unknown and never a KeyError / IndexError (the table fact "every natural element of the isotope table has an average '
               'mass" is checked key by key on the real 476-entry table in every run); the bracket tokenizer _split_chem_formula is proved to '
               'terminate on every text, to return components that tile the formula in order, each a whole [..] bracket or a bracket-free '
               'text (so bracketed isotopes stay distinct from their element), and to reject unmatched brackets with a ValueError-family '
               'error (the fold lemma it needs is proved by induction inside the run). BOUNDED (labelled) on the real functions: '
               'write_chem_formula -> parse_chem_formula is the identity on compositions (zero counts dropped) over all table elements, '
               'isotope-prefixed keys, D/T, e/p/n, integer counts in [-200,500] and decimal counts, every separator and Hill ordering; mass of '
               'the string == mass of the composition; additivity over concatenation, accumulation of repeated elements, explicit zero counts, '
               'fresh dictionary per parse; malformed texts rejected without hanging; glycan composition and mass are count-weighted sums for '
               'every monosaccharide (names and synonyms) and random multisets.',
    level_note='the element tokenizers are two compiled regexes driven by finditer (outside the verified subset): the write/parse round trip is '
               'bounded only; "unambiguous written form" for glycans is limited to single-name formulas.',
    design_ref='DESIGN.md section 6, C15',
    technique='weakest-precondition VCs from the real AST of chem_mass and _split_chem_formula against sidecar contracts (finite-sum spec '
              'function, loop variants, string VCs; ground table facts checked on the real table), discharged by z3 / cvc5; bounded run-time '
              'contract check (round trip, additivity, linearity) as labelled stand-in for the regex tokenizers',
    contracts=['chemmass', 'glycanmass', 'formulaparse'],
    bounded=[dict(name='C15-bounded', script='bounded/C15.py')],
    replay_finder='bounded/C15.py',
    explanation='mass of a composition and the bracket tokenizer proved; round trip bounded',
    proved_clauses=['parse_chem_formula (no separator): the weighted total of the parsed composition == the sum over the tokenizer\'s components of the total of '
                    'each component\'s own composition (additivity over the pieces; repeated symbols accumulate; bracketed isotopes are their own symbols) -- '
                    'contracts/formulaparse.py; the two per-component readers (regular expressions) enter as callees',
                    'the composition of a glycan (dictionary input, _glycan_comp / glycan_comp): for ANY weighting of the element symbols its weighted total == '
                    'the count-weighted sum of the totals of the monosaccharides\' compositions (name first, then synonym); unknown key raises',
                    'glycan_mass of a dictionary of monosaccharide counts == the count-weighted sum of the tabulated masses of the monosaccharides the keys '
                    'denote (by name first, then by synonym), in the requested mode, rounded on request; an unknown key raises the glycan formula error '
                    '(contracts/glycanmass.py; the table enters abstractly, "every entry has both masses" is a precondition)',
                    'the mass of a composition is the sum of count x atomic mass over its entries (both modes, isotope entries, particles)',
                    'bracketed isotope components are kept whole and distinct; the tokenizer terminates on every text'],
    bounded_clauses=['write/parse round trip incl. mass', 'additivity, accumulation, zero counts', 'glycan composition / mass linear; synonyms'],
    uncovered_clauses=['glycan write/parse round trip for multi-name formulas (ambiguity of the written form not decided)'],
    assumptions=['A-REAL', 'A-FINSUM', 'LC-ROUND'], trusted_base=['z3 5.1', 'cvc5 1.0.3', 'pyvc', 'bounded/C15.py'],
)
