SPEC = dict(
    property='C15',
    level='other',
    level_text='Bounded (labelled) on the real functions: write_chem_formula -> parse_chem_formula is the identity on compositions (zero counts '
               'dropped) over all table elements, isotope-prefixed keys, D/T, e/p/n, integer counts in [-200,500] and decimal counts, for '
               'every separator and Hill ordering, and the mass of the string equals the mass of the composition; parsing is additive over '
               'concatenation, repeated elements accumulate, bracketed isotopes stay distinct, explicit zero counts contribute nothing, each '
               'parse returns a fresh dictionary; for every monosaccharide (names and synonyms) and random multisets the glycan composition '
               'and mass are the count-weighted sums. The tokenisers are two compiled regexes driven by finditer, outside the verified subset.',
    level_note='regex tokenisers exercised, not modelled; "unambiguous written form" for glycans is limited to single-name formulas.',
    design_ref='DESIGN.md section 6, C15',
    technique='bounded run-time contract check (round trip, additivity, linearity) as labelled stand-in',
    bounded=[dict(name='C15-bounded', script='bounded/C15.py')],
    replay_finder='bounded/C15.py',
    explanation='bounded check only in this revision',
    proved_clauses=[], bounded_clauses=['write/parse round trip incl. mass', 'additivity, accumulation, isotope brackets, zero counts', 'glycan composition / mass linear; synonyms'],
    uncovered_clauses=['glycan write/parse round trip for multi-name formulas (ambiguity of the written form not decided)'],
    assumptions=[], trusted_base=['bounded/C15.py'],
)
