SPEC = dict(
    property='C03',
    level='other',
    level_text='Mixed. BOUNDED (labelled): agreement of the two real calculators end to end: for 37 annotation texts covering every modification position / kind, '
               'multipliers, alternatives, tags, intervals, labile and unknown modifications, static rules, isotope labels, charges and '
               'adducts x all 18 ion types x (charge sign, isotope, mode) tuples, mass() == chem_mass(comp_mass() composition) + reported '
               'residual within 1e-4 (mono) / 1e-3 + 5 ppm (average), and the averagine estimate has the same monoisotopic mass; '
               'exhaustively every Unimod entry (average: CHNOPS only) and every self-consistent PSI-MOD entry. Deductive support: the '
               'charge-carrier / ion-offset side of the mass path is adjust_mass#ensures (proved under C02); the composition path '
               '(_sequence_comp) is under contract (contracts/seqcomp.py: sum of the parts for any weighting of the entries); the glue of comp_mass '
               '(copy, setters, condense_static_mods, _pop_delta_mass_mods -- in-place pops through property aliases) and the per-part lemma '
               '"mass of a part == mass of its composition" (L-CM: tables ground, vocabulary bounded) are not. PROVED '
               '(contracts/masssum.py): for LABELLED peptides mass() is by construction chem_mass(comp_mass(..)[0]) + comp_mass(..)[1] + loss with '
               'the same ion type, resolved charge, isotope offset, adducts and labels.',
    level_note='Part-wise deductive agreement (DESIGN section 6, C03) is not built; the ground table obligations of C05 cover the ion offsets as '
               'masses, and the cy adduct-text defect found here shows what a ground comparison of FRAGMENT_ION_BASE_CHARGE_ADDUCTS with '
               'FRAGMENT_ION_COMPOSITIONS decides (added as ground obligations).',
    design_ref='DESIGN.md section 6, C03',
    technique='contract-based deductive verification of the two sides part by part (composition side: _sequence_comp and the charge-carrier '
              'compositions, contracts/seqcomp.py; mass side: mass(), contracts/masssum.py; labelled peptides: mass() IS the composition mass) + '
              'ground obligations linking the mass tables to the composition tables + bounded end-to-end relational check (labelled stand-in) for '
              'the glue of comp_mass and the per-modification link',
    contracts=['masssum', 'seqcomp', 'averagine'], targets={'masssum': ['peptacular.mass_calc:mass']},
    ground=[dict(module='ground.c03_tables')],
    bounded=[dict(name='C03-bounded', script='bounded/C03.py')],
    replay_finder='bounded/C03.py',
    explanation='ground obligations on the two ion-offset representations + bounded relational check; see level_text',
    proved_clauses=['estimate_comp (no labels): exactly the averagine elements, each ratio x mass / averagine mass (contracts/averagine.py); the averagine mass '
                    'is the monoisotopic mass of the ratios (ground obligation) -- together: the estimate of a residual m weighs m',
                    'comp(): with no residual mass shift it returns the composition of comp_mass itself; with one it raises unless estimation is asked for, '
                    'and otherwise the weighted total of the result == total of that composition + total of the averagine estimate of the residual '
                    '(entries ADDED, for any weighting) -- contracts/seqcomp.py',
                    'per-part link for the TABLES (ground, exact rational arithmetic on the real tables of this run, 84 obligations): each residue mass '
                    '(both modes) == the mass of its table composition, each neutral ion-type adjustment (both modes) == the mass of its composition '
                    'adjustment -- so the residue / ion-type parts of mass() (contracts/masssum.py) and of _sequence_comp (contracts/seqcomp.py) agree',
                    'the real composition calculator _sequence_comp (both adduct variants; no static rules -- comp_mass condenses them first; no global '
                    'label): for ANY weighting of the entry symbols -- so for the atomic masses of either mode -- the weighted total of the reported '
                    'composition == sum over residues of the table composition + ion-type adjustment + charge carriers / adducts + the composition of '
                    'every modification where it is written (labile only for the precursor) + isotope neutrons; no zero entries; the two residue '
                    'errors exactly when stated (contracts/seqcomp.py, 126 obligations: 27 loops, cuts after the top-level statements). This is the '
                    'composition-side counterpart of mass() == the sum of the MASSES of the same parts (contracts/masssum.py, C02)',
                    'for every peptide with a global isotope label the real mass() returns chem_mass(composition of comp_mass(same peptide, same ion type, '
                    'resolved charge, isotope, adducts, labels)) + the residual it reports (+ loss), rounded only at the end (contracts/masssum.py, '
                    'mass#ensures[labelled-peptides-through-the-composition]; comp_mass / chem_mass enter as callees)',
                    'for each of the 18 ion types: mass of the charge-adduct TEXT == mass of the ion COMPOSITION == precomputed ion offset (ground, exact)'],
    bounded_clauses=['mass == composition mass + residual for every ion type, charge sign, isotope offset, adducts, labels, static rules, multipliers, labile',
                     'averagine estimate has the same monoisotopic mass', 'every Unimod / self-consistent PSI-MOD entry'],
    uncovered_clauses=[],
    assumptions=[],
    trusted_base=['bounded/C03.py', 'exact rational arithmetic'],
)
