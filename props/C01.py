SPEC = dict(
    property='C01',
    level='other',
    level_text='Mixed. DEDUCTIVE: the single-chain WRITER is proved to write exactly the notation\'s layout -- _serialize_annotation_start: labile '
               '{..}, static <..>, isotope <..>, unknown-position [..]?, N-terminal [..]- in this order, each group the concatenation of its '
               'modifications\' own serialize(brackets, include_plus) and only when present; _serialize_annotation_middle: for every residue in order '
               'the opening / closing brackets (and ? / modifications) of the intervals that start / end in front of it, the residue letter, its '
               'modifications in [..], and after the last residue the closing brackets of the intervals ending there; _serialize_annotation_end: '
               '-[..] C-terminal, /charge, [..] adducts, each only when present; serialize() = start + middle + end (concatenation folds over '
               'the list of pieces, eleven loop invariants); the multi-chain serializer is under contract against the recursive spec SER (text of the first k chains with '
               'the link token the parser recognises: "//" for a cross-link, "+" otherwise): for chains joined by "+" every obligation is '
               'discharged (unbounded number of chains); for cross-links the loop-invariant obligation is refuted on the pinned tree and '
               'recorded as a known finding. BOUNDED (labelled): chains generated from descriptions (4 residue strings incl. all 26 letters x '
               'every modification position x 24 spellings x multipliers, intervals, charge, adducts; random chains; 2-3 chains joined by + '
               'and //): parse(text) == the description, serialize -> parse gives an EQUAL annotation and re-serializes to itself, for '
               'include_plus in {False, True}. A whole-grammar inductive proof that the recursive-descent parser inverts the serializer is '
               'outside SMT string reasoning (DESIGN section 6, C01).',
    level_note='that the parser INVERTS this layout (the round trip) is bounded only; Mod.serialize (one modification in its brackets) is an abstract method of the opaque item; ProFormaAnnotation.serialize enters the multi-chain proof as a pure function.',
    design_ref='DESIGN.md section 6, C01',
    contracts=['multi', 'serial', 'parser'],
    targets={'parser': ['peptacular.proforma.proforma_parser:_ProFormaParser._parse_sequence_end',
                        'peptacular.proforma.proforma_parser:_ProFormaParser.parse']},
    bounded=[dict(name='C01-bounded', script='bounded/C01.py')],
    replay_finder='bounded/C01.py',
    explanation='string obligations for the chain-link tokens + grammar-directed bounded round trip',
    proved_clauses=['parser driver: every chain but the last is yielded WITH a link flag (a separator was read after it) -- _ProFormaParser.parse#ensures[every-chain-but-the-last-has-a-link]',
                    'parser end phase: when text remains after a chain, the link flag is False exactly after a \'+\' and True exactly after \'//\' '
                    '(_parse_sequence_end#ensures[link-flag-says-which-separator-was-read]; the chain links the notation denotes)',
                    'single-chain writer: field order, brackets, interval placement, residue modifications, charge / adducts exactly as the notation lays them out (unbounded)',
                    'multi-chain serializer writes "+" between chains and nothing after the last chain (all obligations, unbounded)'],
    bounded_clauses=['parse yields exactly the described residues / modifications / intervals / charge / adducts / links', 'serialize-parse-serialize fixed point and equality', 'include_plus'],
    uncovered_clauses=[], assumptions=['str as SMT strings', 'LC-NUMTEXT (text of the charge)', 'A-FOLD concatenation folds SJ / ISER / IVT / IVC / MID'], trusted_base=['z3 5.1', 'cvc5 1.0.3', 'pyvc'],
)
