SPEC = dict(
    property='C11',
    level='proof',
    level_text='Deductive proof (unbounded sequence length, any number of modifications / intervals, both inplace modes) on the real methods '
               'ProFormaAnnotation.slice, shift and reverse that residues are cut / rotated / reversed, every residue modification moves with '
               'its residue and no other appears, fully contained intervals are kept re-indexed in order and nothing else (slice), intervals '
               'cover the same residues (reverse), terminal modifications stay / swap / are dropped with the cut-off end, globals are kept, '
               'and the argument is unchanged when not in place -- loop invariants over dict and list loops on a record model of the '
               'annotation. shuffle / sort_residues / split, the identities (reverse twice, shift k then -k), slice composition and mass '
               'invariance are an exhaustive bounded check on the real functions, labelled bounded.',
    level_note='A-NOALIAS value semantics (deepcopy = equal value; aliasing is C08). Lists of Mod objects opaque. 23 accessor methods / '
               'properties verified against their bodies and used modularly. shift: intervals under a shift are bounded only (VC undecided). '
               'random.shuffle / sorted(key=) / zip outside the subset (shuffle, sort_residues: bounded). Trusted: pyvc, z3/cvc5.',
    design_ref='DESIGN.md section 6, C11',
    contracts=['annot', 'wrappers'],
    bounded=[dict(name='C11-bounded', script='bounded/C11.py')],
    replay_finder='bounded/C11.py',
    proved_clauses=['string-level wrappers reverse / shift / span_to_sequence (and strip_mods, condense_static_mods): the annotation method in copy mode with the '
                    'wrapper\'s own arguments, then the serializer (contracts/wrappers.py)',
                    'slice: residues, residue modifications exactly those of the range (re-indexed), fully contained intervals exactly (order '
                    'kept, counted by the fold CNT), nterm iff start==0, cterm iff stop==n, globals kept, argument unchanged / inplace equal',
                    'shift: rotation of residues, modifications move to (p-k) mod n and no other, termini and globals stay, frame',
                    'reverse: reversal, modifications to n-1-p, intervals [s,e)->[n-e,n-s), termini stay or swap, globals, frame'],
    bounded_clauses=['shuffle / sort_residues permutation + multiset of modified residues', 'reverse twice, shift k then -k, shift by the '
                     'length are identities; mass unchanged', 'slice of a slice == slice of summed offsets; non-empty slice re-parses to itself',
                     'split then concatenation reproduces the peptide', 'intervals under shift'],
    uncovered_clauses=[],
    assumptions=['Python int = mathematical integer', 'str as SMT sequences of characters',
                 'dict iteration visits every key exactly once (order abstracted)'],
    trusted_base=['z3 5.1', 'cvc5 1.0.3', 'pyvc AST->VC translation', 'CPython ast'],
)
