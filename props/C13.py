SPEC = dict(
    property='C13',
    level='other',
    level_text='Bounded (labelled) on the real builders: apply_static_mods over 8 peptides x 6 rule sets x 5 terminal specs x 3 conflict modes '
               'against a per-site oracle (modifications on every matched residue / terminus and on no other; skip / append / overwrite; '
               'idempotence of skip; input not mutated; str == annotation); apply_variable_mods over 5 rule sets x 5 terminal specs x max_mods '
               '0..2(4) x 3 modes against an exhaustive subset enumeration of the eligible sites (exactly those forms, each once, input form '
               'included, in skip mode; residues kept / changes confined to matched sites / input included / no duplicates in the other modes). '
               'The enumeration claim is a statement about the leaves of a recursion tree and is not expressed as a contract in this revision.',
    level_note='regex site finder exercised with letters, character classes, overlapping and anchored consuming patterns (zero-width rule keys '
               'are outside the oracle).',
    design_ref='DESIGN.md section 6, C13',
    technique='bounded run-time contract check against an exhaustive subset enumeration (labelled stand-in)',
    bounded=[dict(name='C13-bounded', script='bounded/C13.py')],
    replay_finder='bounded/C13.py',
    explanation='bounded check only in this revision',
    proved_clauses=[], bounded_clauses=['static builder: per-site exactness, modes, idempotence', 'variable builder: exact enumeration (skip), weaker clause otherwise'],
    uncovered_clauses=['zero-width regex rule keys'], assumptions=[], trusted_base=['bounded/C13.py'],
)
