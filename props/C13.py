SPEC = dict(
    property='C13',
    level='other',
    level_text='Mixed. DEDUCTIVE (record model; any peptide, any offer, any depth of recursion): every form yielded by the recursive enumerator '
               '_apply_variable_mods_rec keeps the original residues and every annotation other than the residue modifications, leaves the '
               'positions before the current index as they were, newly modifies only positions for which modifications are offered, never '
               'exceeds the budget of modified residues, in skip mode keeps every pre-existing residue modification intact, raises only '
               'ValueError and only for an invalid mode, and the recursion terminates (measure: residues left); _variable_mods_builder hands '
               'it the budget max_mods + (number of already modified residues), so every returned form has at most max_mods additional '
               'modified residues. The static builder apply_static_mods (annotation input, residue rules, any conflict mode) is proved to keep the '
               'residues and every other annotation, to leave every position no rule matches untouched, to modify every matched position, '
               'and in skip mode to leave every already modified position exactly as it was (two nested loop invariants over the rules seen '
               'and the matches done; dictionary comprehensions of the input normalisation). BOUNDED (labelled) on the real builders: apply_static_mods over 8 peptides x 6 rule sets x 5 terminal specs x 3 conflict modes '
               'against a per-site oracle (modifications on every matched residue / terminus and on no other; skip / append / overwrite; '
               'idempotence of skip; input not mutated; str == annotation); apply_variable_mods over 5 rule sets x 5 terminal specs x max_mods '
               '0..2(4) x 3 modes against an exhaustive subset enumeration of the eligible sites (exactly those forms, each once, input form '
               'included, in skip mode; residues kept / changes confined to matched sites / input included / no duplicates in the other modes). '
               'The exact-enumeration claim (every form exactly once) is a statement about the leaves of a recursion tree: bounded only.',
    level_note='regex site finder exercised with letters, character classes, overlapping and anchored consuming patterns (zero-width rule keys '
               'are outside the oracle).',
    design_ref='DESIGN.md section 6, C13',
    contracts=['varmods', 'stores'],
    technique='weakest-precondition VCs from the real AST of the recursive enumerator and its builder against sidecar contracts (bag of yielded forms, recursion measure), discharged by z3 / cvc5; bounded run-time contract check against an exhaustive subset enumeration as labelled stand-in for exact enumeration and the static builder',
    bounded=[dict(name='C13-bounded', script='bounded/C13.py')],
    replay_finder='bounded/C13.py',
    explanation='safety half of the variable builder proved (nothing else changes, budget, termination); exact enumeration, terminal rules, append / overwrite values and idempotence bounded',
    proved_clauses=['the terminal stores the static builder writes through (add_nterm_mods / add_cterm_mods and the two property setters with a value): replace / '
                    'append / clear exactly as documented, nothing else touched (contracts/stores.py; mutation through the read-only property alias and '
                    'extension of an opaque list are modelled)',
                    'apply_variable_mods with residue rules only (annotation return type): the forms of the builder on a COPY of the peptide -- each keeps the residues '
                    'and every other annotation, has at most max_mods additional modified residues, and in skip mode keeps every existing modification '
                    '(apply_variable_mods~residues, over the contracts of the enumerator)',
                    'static builder, terminal rules (N-terminal / C-terminal rule maps, any mode): the terminus is modified iff a rule with a non-empty '
                    'modification list matches the first / last residue; skip mode keeps an existing terminal modification; everything but that '
                    'terminus is untouched (apply_static_mods~nterm / ~cterm)',
                    'static builder (residue rules): modifications on every matched residue and on no other; skip mode keeps existing modifications; everything else untouched',
                    'variable builder: original residues and pre-existing modifications intact, changes only at offered positions, at most max_mods additional modified residues, terminates'],
    bounded_clauses=['static builder: per-site exactness, modes, idempotence', 'variable builder: exact enumeration (skip), weaker clause otherwise'],
    uncovered_clauses=['zero-width regex rule keys'], assumptions=['LC-DEEPCOPY'], trusted_base=['z3 5.1', 'cvc5 1.0.3', 'pyvc', 'bounded/C13.py'],
)
