SPEC = dict(
    property='C07',
    level='other',
    level_text='Mixed. DEDUCTIVE: the dispatcher _return_digested_sequences is proved, for each of its five return types, to return one item per '
               'span in order -- the span itself, or the slice of the protein at that span (for an unmodified protein: the bare annotation of '
               'its residues s..e-1), or its serialization, alone or paired with the span -- and to reject an unknown return type with '
               'ValueError; digest() with return_type span is proved to hand it exactly the spans the rules define (C06, contracts/digest.py); '
               'and slice#ensures (PROVED under C11, unbounded) is exactly '
               '"residues s..e-1, each residue modification on the same residue, terminal modifications only with the terminus, global rules '
               'and labels kept, fully contained intervals kept"; the spans themselves are the proved C06 families; the search clause uses '
               'the (bounded-checked) occurrence contract of C16. What is checked HERE (bounded, labelled) is the composition on the real '
               'digest() / sequence generators: every returned peptide against the slice of an abstract view, the five return types '
               'describing the same peptides, the string re-parsing to the annotation, the peptide found again at offset s, and the masses of '
               'the zero-missed-cleavage peptides summing to the protein mass plus one water per cut.',
    level_note='serialize(), create_annotation() and the subsequence search are pure callees (bounded-checked); mass conservation is checked numerically (1e-6 per piece).',
    design_ref='DESIGN.md section 6, C07',
    technique='lemmas over contracts proved under C06/C11 (slice, span builders) + bounded run-time contract check of the real digest '
              'dispatcher (labelled stand-in)',
    contracts=['annot', 'digest'],
    targets={'annot': ['peptacular.proforma.proforma_parser:ProFormaAnnotation.slice', 'peptacular.proforma.proforma_parser:ProFormaAnnotation.slice@anycut',
                       'peptacular.proforma.proforma_parser:ProFormaAnnotation.has_mods'],
             'digest': ['peptacular.digestion:_return_digested_sequences@' + t for t in ('span', 'annotation', 'str', 'annotation-span', 'str-span', 'unknown', 'spanbag')] +
                       ['peptacular.digestion:' + g + '@spanbag' for g in ('get_left_semi_enzymatic_sequences', 'get_right_semi_enzymatic_sequences',
                                                                           'get_non_enzymatic_sequences', 'get_semi_enzymatic_sequences')]},
    bounded=[dict(name='C07-bounded', script='bounded/C07.py')],
    replay_finder='bounded/C07.py',
    explanation='slice#ensures re-proved in this check (it carries the first sentence of the property) + bounded composition check',
    proved_clauses=['the four sequence generators (span return type) return exactly the spans their builder defines for the whole sequence '
                    '(builders proved under C06): get_left_/right_/non_enzymatic_sequences, get_semi_enzymatic_sequences = left then right',
                    'slice(s,e) wherever the cuts fall (also strictly inside an ambiguity interval, as a digest of such a protein does): the peptide is '
                    'WELL FORMED (every interval non-empty and inside the new residues, each a clipped interval of the protein with its own '
                    'modifications), with the residues / residue / terminal / global modifications of the range (slice~anycut)',
                    'every return type of the digest dispatcher is, per span and in order, the slice of the protein at that span (or its text, or the span)',
                    'slice(s,e): exactly residues s..e-1, residue modifications on the same residues, termini only with the terminus, globals kept (C11 contract, re-discharged here)'],
    bounded_clauses=['the sequence generators; all five return types agree on real digests', 'string re-parses to the annotation; found again at offset s',
                     'zero-missed-cleavage masses sum to protein mass + one water per cut'],
    uncovered_clauses=['intervals straddling a cut (outside the property)'],
    assumptions=['Python int = mathematical integer', 'A-NOALIAS value semantics in slice'],
    trusted_base=['z3 5.1', 'pyvc', 'bounded/C07.py oracle'],
)
