SPEC = dict(
    property='C07',
    level='other',
    level_text='The carry-over clauses are lemmas over contracts proved elsewhere plus a bounded run of the dispatcher: a peptide returned for '
               'span (s,e) is ProFormaAnnotation.slice(s,e) of the protein, and slice#ensures (PROVED under C11, unbounded) is exactly '
               '"residues s..e-1, each residue modification on the same residue, terminal modifications only with the terminus, global rules '
               'and labels kept, fully contained intervals kept"; the spans themselves are the proved C06 families; the search clause uses '
               'the (bounded-checked) occurrence contract of C16. What is checked HERE (bounded, labelled) is the composition on the real '
               'digest() / sequence generators: every returned peptide against the slice of an abstract view, the five return types '
               'describing the same peptides, the string re-parsing to the annotation, the peptide found again at offset s, and the masses of '
               'the zero-missed-cleavage peptides summing to the protein mass plus one water per cut.',
    level_note='_return_digested_sequences (generator expressions over annotation methods, unmodified fast path through create_annotation) '
               'is not under deductive contract in this revision; mass conservation is checked numerically (1e-6 per piece).',
    design_ref='DESIGN.md section 6, C07',
    technique='lemmas over contracts proved under C06/C11 (slice, span builders) + bounded run-time contract check of the real digest '
              'dispatcher (labelled stand-in)',
    contracts=['annot'],
    targets={'annot': ['peptacular.proforma.proforma_parser:ProFormaAnnotation.slice',
                       'peptacular.proforma.proforma_parser:ProFormaAnnotation.has_mods']},
    bounded=[dict(name='C07-bounded', script='bounded/C07.py')],
    replay_finder='bounded/C07.py',
    explanation='slice#ensures re-proved in this check (it carries the first sentence of the property) + bounded composition check',
    proved_clauses=['slice(s,e): exactly residues s..e-1, residue modifications on the same residues, termini only with the terminus, globals kept (C11 contract, re-discharged here)'],
    bounded_clauses=['digest()/generators return slice(s,e) for every span, all five return types agree', 'string re-parses to the annotation; found again at offset s',
                     'zero-missed-cleavage masses sum to protein mass + one water per cut'],
    uncovered_clauses=['intervals straddling a cut (outside the property)'],
    assumptions=['Python int = mathematical integer', 'A-NOALIAS value semantics in slice'],
    trusted_base=['z3 5.1', 'pyvc', 'bounded/C07.py oracle'],
)
