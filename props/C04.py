SPEC = dict(
    property='C04',
    level='other',
    level_text='Bounded (labelled) on the real fragment()/Fragmenter: for 15 peptides x 10 ion-type subsets x 5 parameter tuples (+ random '
               'peptides) the returned key set (type, span, charge, isotope, loss) equals an independent enumeration with no duplicate, every '
               'ion\'s mass and m/z equal mass()/mz() of the ion\'s own sequence, the ion sequence is the slice of the peptide, and the five '
               'alternative return types and the cached Fragmenter are projections of the same list. Deductive support: the span families used '
               'for prefixes / suffixes / internal spans are the proved C06 span builders, slice() is proved under C11, adjust_mass / adjust_mz '
               'under C02 (the per-ion arithmetic); _build_fragments (five nested loops over a set of losses, regex in get_losses) is not yet '
               'under contract.',
    level_note='regex engine and itertools.combinations in get_losses are exercised, not modelled. Two recorded findings restrict the '
               'mass-agreement clause for static terminal rules and isotope labels.',
    design_ref='DESIGN.md section 6, C04',
    technique='bounded run-time contract check of the real fragmenter against an independent enumeration and the real mass calculator '
              '(labelled stand-in); relies on contracts proved under C02/C06/C11',
    bounded=[dict(name='C04-bounded', script='bounded/C04.py')],
    replay_finder='bounded/C04.py',
    explanation='bounded enumeration only in this revision (no obligations of its own); the functions it composes are under contract elsewhere',
    proved_clauses=[],
    bounded_clauses=['one ion per (type, cleavage position, charge, isotope, applicable loss); n prefixes, n suffixes, every strictly internal span, n immonium',
                     'mass and m/z of every ion == mass()/mz() of its own sequence / type / charge / isotope / loss',
                     'mass, mz, label, mass-label, mz-label and Fragmenter are projections of the fragment list'],
    uncovered_clauses=[],
    assumptions=[],
    trusted_base=['bounded/C04.py oracle'],
)
