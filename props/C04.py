SPEC = dict(
    property='C04',
    level='other',
    level_text='Mixed. DEDUCTIVE (unbounded peptide length, any requested sets; lists whose order the statement does not mention are bags): '
               '_build_fragments (five nested loops: span > ion type > isotope > loss > charge) is proved to return EXACTLY one Fragment per '
               '(span, ion type, isotope, applicable loss, charge) of its distinct inputs and nothing else, each carrying start/end/type/charge/'
               'isotope/loss of its own key, neutral mass / mass / m/z equal to adjust_mass / adjust_mz of the sum of the per-residue '
               'components over its own span, the serialized slice of the peptide as its sequence and the internal flag; '
               '_get_forward / _get_backward / _get_internal / _get_immonium_fragments are proved to request exactly the n prefixes, n '
               'suffixes, every strictly internal span and the n one-residue spans (span builders under their C06 contracts); '
               '_get_terminal_fragments gives prefixes to a/b/c and suffixes to x/y/z; fragment() (annotation input, list options, explicit '
               'loss rules) is proved to return the union of the four families for exactly the requested types on the peptide without its '
               'labile modifications, to raise ValueError exactly for interval / unknown-position peptides, and - when no per-residue masses '
               'are supplied - to use the calculator mass of each one-residue piece, and ProFormaAnnotation.split() is proved to return, in order, the '
               'slice [i, i+1) of the peptide without labile modifications for every residue i (labile ones on the first piece only); get_number numbers prefixes by end, suffixes by n - start, '
               'immonium ions by position and rejects unknown types; Fragmenter.fragment is proved to be the same call with its own '
               'annotation, monoisotopic flag and cached masses. '
               'BOUNDED (labelled) on the real fragment()/Fragmenter: for 15 peptides x 10 ion-type subsets x 5 parameter tuples (+ random '
               'peptides) key set vs an independent enumeration, every ion\'s mass and m/z vs mass()/mz() of the ion\'s OWN sequence (i.e. '
               'additivity of the calculator over the one-residue pieces, which the deductive tier does not prove), the five alternative '
               'return types, scalar / string input forms, water / ammonia switches, regex loss applicability.',
    level_note='adjust_mass / adjust_mz are proved under C02, slice under C11, the span builders under C06 (assumed here by contract); '
               'get_losses (regex + itertools.combinations), mass() and serialize() are pure callees whose own behaviour is bounded only. '
               'Two recorded findings restrict the mass-agreement clause for static terminal rules and isotope labels.',
    design_ref='DESIGN.md section 6, C04',
    technique='weakest-precondition VCs from the real AST of _build_fragments, the four _get_*_fragments, _get_terminal_fragments, '
              'fragment(), get_number and Fragmenter.fragment against sidecar contracts (bag-valued loop invariants over the five-deep loop '
              'nest), discharged by z3 / cvc5; bounded run-time contract check against an independent enumeration and the real mass '
              'calculator as labelled stand-in for calculator additivity and the alternative return types',
    contracts=['frag', 'pieces'],
    bounded=[dict(name='C04-bounded', script='bounded/C04.py')],
    replay_finder='bounded/C04.py',
    explanation='enumeration and per-ion calculator values proved; additivity of the calculator and the projections bounded',
    proved_clauses=['exactly one ion per requested (ion type, span, charge, isotope, applicable loss); n prefixes for a/b/c, n suffixes for x/y/z, every strictly internal span, n immonium',
                    'every ion carries adjust_mass / adjust_mz of the summed components of its own span, type, charge, isotope, loss; its sequence is the slice of the peptide',
                    'prefix / suffix / immonium numbering; the cached Fragmenter is the same call with its own cached masses'],
    bounded_clauses=['summed one-residue components == mass() of the ion\'s own sequence (calculator additivity)',
                     'mass, mz, label, mass-label, mz-label are projections of the fragment list', 'scalar / string inputs, water / ammonia switches, regex loss applicability'],
    uncovered_clauses=[],
    assumptions=['A-REAL', 'bags for order-free lists'],
    trusted_base=['z3 5.1', 'cvc5 1.0.3', 'pyvc', 'bounded/C04.py oracle'],
)
