SPEC = dict(
    property='C16',
    level='other',
    level_text='Mixed. PROVED deductively (unbounded lengths / list sizes): the real coverage() marks (or, accumulating, counts) position x '
               'iff some reported occurrence of a listed subsequence contains it, and percent_coverage() is the marked fraction (0 for the '
               'empty sequence) -- loop invariants over nested loops with slice assignment, modular over the contract of '
               'find_subsequence_indices. ALSO PROVED (record model, contracts/search.py): ProFormaAnnotation.is_subsequence is True exactly '
               'when the query occurs somewhere in the target; find_indices returns, ascending and each once, EXACTLY the offsets p at '
               'which the query\'s residues occur in the target and the target\'s stretch [p, p+len) equals the query, modifications included '
               '(overlapping occurrences too: the candidate list is every literal occurrence, the filter is shown equivalent to the '
               'occurrence predicate); find_subsequence_indices returns nothing for an empty query / target and otherwise exactly those offsets, '
               'of the stripped peptides when modifications are ignored. BOUNDED (labelled): the same clause on the real functions over a '
               'two-letter alphabet (the regex scan itself), plain-substring equivalence, the unordered containment test.',
    level_note='In the coverage proofs find_subsequence_indices enters through its contract over opaque annotations (ascending, in range, '
               'exactly the occurrences OCC) -- the clauses proved in contracts/search.py with OCC written out. Assumed there: LC-REGEX-LITERAL '
               '(re.finditer with a residue string and overlapped=True yields every literal occurrence, ascending), A-WHOLE-SLICE (slicing out '
               'the whole peptide gives an equal peptide: proved in contracts/wholeslice.py from the C11 / C20 contracts for well-formed peptides, assumed for stretches cut through an interval), symmetry / transitivity of == (proved as lemmas under C20), the slice and == contracts '
               '(proved under C11 / C20), sequence_length. Annotation objects are opaque in the proofs; purity of the two callees is C08\'s frame '
               'claim. SPEC-SUM fold definition. Trusted: pyvc, z3/cvc5.',
    design_ref='DESIGN.md section 6, C16',
    contracts=['seqfuncs', 'search', 'wholeslice'],
    bounded=[dict(name='C16-bounded', script='bounded/C16.py')],
    replay_finder='bounded/C16.py',
    explanation='deductive obligations for coverage/percent_coverage (all discharged) + exhaustive bounded check of the occurrence search; '
                'see proved_clauses / bounded_clauses',
    proved_clauses=['is_subsequence / find_indices / find_subsequence_indices: exactly the offsets where residues and modifications match, ascending, each once, overlaps included (modulo LC-REGEX-LITERAL)',
                    'coverage(): len == n; non-accumulating: cov[x] == 1 iff exists listed s and occurrence p with p <= x < p+len(s); '
                    'accumulating: cov[x] == number of (listed subsequence, reported offset) pairs covering x (recursive fold spec)',
                    'percent_coverage(): == sum(cov)/n, 0 for n == 0'],
    bounded_clauses=['the regex scan over residue letters (LC-REGEX-LITERAL); ignore_mods == plain substring search',
                     'percent coverage within [0,1] (follows from 0/1 entries; checked bounded)', 'unordered containment == multiset containment'],
    uncovered_clauses=['unordered containment for peptides with terminal modifications (statement does not fix the key of a terminal residue)'],
    assumptions=['Python int = mathematical integer', 'callee purity (C08)', 'LC-REGEX-LITERAL', 'A-WHOLE-SLICE', 'SPEC-FILTER'],
    trusted_base=['z3 5.1', 'cvc5 1.0.3', 'pyvc AST->VC translation', 'CPython ast'],
)
