SPEC = dict(
    property='C16',
    level='other',
    level_text='Mixed. PROVED deductively (unbounded lengths / list sizes): the real coverage() marks (or, accumulating, counts) position x '
               'iff some reported occurrence of a listed subsequence contains it, and percent_coverage() is the marked fraction (0 for the '
               'empty sequence) -- loop invariants over nested loops with slice assignment, modular over the contract of '
               'find_subsequence_indices. BOUNDED (labelled): that find_subsequence_indices / find_indices / is_subsequence report exactly '
               'the occurrences incl. overlapping ones, equal plain substring search when modifications are ignored, and the unordered '
               'containment test -- they run a regex scan and compare sliced annotation objects, outside the verified subset.',
    level_note='Assumed contracts (bounded-checked on the real functions): find_subsequence_indices (ascending, in range, exactly the '
               'occurrences OCC), sequence_length. Annotation objects are opaque in the proofs; purity of the two callees is C08\'s frame '
               'claim. SPEC-SUM fold definition. Trusted: pyvc, z3/cvc5.',
    design_ref='DESIGN.md section 6, C16',
    contracts=['seqfuncs'],
    bounded=[dict(name='C16-bounded', script='bounded/C16.py')],
    replay_finder='bounded/C16.py',
    explanation='deductive obligations for coverage/percent_coverage (all discharged) + exhaustive bounded check of the occurrence search; '
                'see proved_clauses / bounded_clauses',
    proved_clauses=['coverage(): len == n; non-accumulating: cov[x] == 1 iff exists listed s and occurrence p with p <= x < p+len(s); '
                    'accumulating: cov[x] == number of (listed subsequence, reported offset) pairs covering x (recursive fold spec)',
                    'percent_coverage(): == sum(cov)/n, 0 for n == 0'],
    bounded_clauses=['search returns exactly the occurrence offsets incl. overlaps; ignore_mods == plain substring search',
                     'percent coverage within [0,1] (follows from 0/1 entries; checked bounded)', 'unordered containment == multiset containment'],
    uncovered_clauses=['unordered containment for peptides with terminal modifications (statement does not fix the key of a terminal residue)'],
    assumptions=['Python int = mathematical integer', 'callee purity (C08)'],
    trusted_base=['z3 5.1', 'cvc5 1.0.3', 'pyvc AST->VC translation', 'CPython ast'],
)
