import argparse
import os
import sys


def main():
    ap = argparse.ArgumentParser()
    ap.add_argument('pid')
    ap.add_argument('--tier', default=os.environ.get('VERIF_TIER', 'quick'))
    ap.add_argument('--replay', default=None)
    a = ap.parse_args()
    seed = int(os.environ.get('VERIF_SEED', '0') or 0)
    from . import runner
    try:
        rc = runner.main(a.pid, a.tier, seed, a.replay)
    except Exception:
        import traceback
        traceback.print_exc()
        rc = 3
    sys.exit(rc)


if __name__ == '__main__':
    main()
