"""pyvc.expr -- symbolic evaluation of Python expressions (real code AND contract clauses) to z3 terms.

One evaluator, two modes:
  code mode  : every operation that can raise in CPython records (ExcClass, condition, line) in ctx.excs
  spec mode  : clauses of contracts; total by convention, extra spec functions (forall, exists, implies, count, ...)
"""
import ast
from fractions import Fraction
import z3
from .types import *

_fresh_n = [0]


def fresh(prefix, sort):
    _fresh_n[0] += 1
    return z3.Const(f'{prefix}!{_fresh_n[0]}', sort)


class OutOfSubset(Exception):
    pass


class Ctx:
    """evaluation context: environment, guards of the enclosing short-circuit operators, recorded exceptions,
    extra assumptions (axioms of fresh values), side obligations"""

    def __init__(self, env, spec=False, old=None, ghosts=None, engine=None, line=0):
        self.env = env
        self.spec = spec
        self.old = old or {}
        self.ghosts = ghosts or {}
        self.guards = []
        self.excs = []        # (class name, z3 cond, line)
        self.assumes = []     # z3 bools: axioms about fresh terms
        self.side = []        # (name, z3 goal under guards) side obligations
        self.engine = engine
        self.line = line
        self.binders = 0      # depth of forall/exists binders of the spec term being evaluated

    def guard_term(self):
        return z3.And(*self.guards) if self.guards else z3.BoolVal(True)

    def exc(self, cls, cond, line=None):
        if self.spec:
            return
        c = z3.And(*(self.guards + [cond]))
        self.excs.append((cls, c, line or self.line))

    def assume(self, f):
        if self.guards:
            f = z3.Implies(z3.And(*self.guards), f)
        self.assumes.append(f)


# ---------------------------------------------------------------- helpers on values

def mk_int(i):
    return V(INT, z3.IntVal(i))


def mk_bool(b):
    return V(BOOL, z3.BoolVal(b))


def mk_real(x):
    fr = Fraction(repr(x)) if isinstance(x, float) else Fraction(x)
    return V(REAL, z3.RealVal(str(fr)))


def mk_str(s):
    return V(STR, z3.StringVal(s))


def mk_none():
    return V(NONE, NONE.sort().None_)


def is_num(v):
    return v.ty in (INT, REAL, BOOL)


def to_real(v):
    if v.ty == REAL:
        return v.t
    if v.ty == INT:
        return z3.ToReal(v.t)
    if v.ty == BOOL:
        return z3.If(v.t, z3.RealVal(1), z3.RealVal(0))
    raise OutOfSubset(f'to_real {v.ty}')


def to_int(v):
    if v.ty == INT:
        return v.t
    if v.ty == BOOL:
        return z3.If(v.t, z3.IntVal(1), z3.IntVal(0))
    raise OutOfSubset(f'to_int {v.ty}')


def unify_num(a, b):
    if a.ty == REAL or b.ty == REAL:
        return REAL, to_real(a), to_real(b)
    return INT, to_int(a), to_int(b)


def truthy(v):
    ty = v.ty
    if ty == BOOL:
        return v.t
    if ty == INT:
        return v.t != 0
    if ty == REAL:
        return v.t != 0
    if ty == STR:
        return z3.Length(v.t) > 0
    if ty == NONE:
        return z3.BoolVal(False)
    if isinstance(ty, TOpt):
        return z3.And(z3.Not(ty.is_none(v.t)), truthy(V(ty.inner, ty.val(v.t))))
    if isinstance(ty, TList):
        return ty.n(v.t) > 0
    if isinstance(ty, TTuple):
        return z3.BoolVal(len(ty.elems) > 0)
    if isinstance(ty, TRec):
        return z3.BoolVal(True)
    if isinstance(ty, TDict):
        has_ = z3.simplify(ty.has(v.t))
        if z3.is_K(has_) and z3.is_false(has_.arg(0)):
            return z3.BoolVal(False)          # the empty dictionary literal
        k = fresh('k', ty.k.sort())
        return z3.Exists([k], z3.Select(ty.has(v.t), k))
    if isinstance(ty, TAbs):
        # an opaque container (e.g. a list of Mod objects): its truthiness is a function of the value (non-emptiness)
        return z3.Function('truthy_' + ty.name, ty.sort(), z3.BoolSort())(v.t)
    if isinstance(ty, TBag):
        k = fresh('k', ty.elem.sort())
        return z3.Exists([k], z3.Select(v.t, k) > 0)
    if isinstance(ty, TSet):
        k = fresh('k', ty.elem.sort())
        return z3.Exists([k], z3.Select(v.t, k))
    raise OutOfSubset(f'truthy {ty}')


def coerce(v, ty):
    """convert value v to static type ty (int->real, T->Optional[T], None->Optional[T])"""
    if v.ty == ty:
        return v
    if ty == REAL and v.ty in (INT, BOOL):
        return V(REAL, to_real(v))
    if ty == INT and v.ty == BOOL:
        return V(INT, to_int(v))
    if isinstance(ty, TOpt):
        if v.ty == NONE:
            return V(ty, ty.none())
        if isinstance(v.ty, TOpt):
            # opt[int] -> opt[real]
            inner = coerce(V(v.ty.inner, v.ty.val(v.t)), ty.inner)
            return V(ty, z3.If(v.ty.is_none(v.t), ty.none(), ty.some(inner.t)))
        return V(ty, ty.some(coerce(v, ty.inner).t))
    if isinstance(ty, TTuple) and isinstance(v.ty, TTuple) and len(ty.elems) == len(v.ty.elems):
        parts = [coerce(V(e, v.ty.acc(i, v.t)), ty.elems[i]).t for i, e in enumerate(v.ty.elems)]
        return V(ty, ty.mk(*parts))
    if isinstance(ty, TSet) and isinstance(v.ty, TSet) and z3.is_K(v.t):
        return V(ty, z3.K(ty.elem.sort(), False))       # the empty set literal `set()` at another element type
    if isinstance(ty, TBag) and isinstance(v.ty, TList) and v.ty.elem.sort() == ty.elem.sort():
        # a list LITERAL (concrete length) where a bag is expected: the order is abstracted
        nn = z3.simplify(list_len(v))
        if z3.is_int_value(nn):
            b = z3.K(ty.elem.sort(), z3.IntVal(0))
            for i in range(nn.as_long()):
                x = z3.simplify(z3.Select(v.ty.arr(v.t), i))
                b = z3.Store(b, x, z3.Select(b, x) + 1)
            return V(ty, b)
    if isinstance(ty, TList) and isinstance(v.ty, TList):
        # [x] * n  (a constant list) at another element type, e.g. [None] * n where List[Optional[T]] is expected
        arr = z3.simplify(v.ty.arr(v.t))
        nn = z3.simplify(v.ty.n(v.t))
        if z3.is_int_value(nn) and nn.as_long() == 0:
            return V(ty, ty.mk(z3.K(z3.IntSort(), fresh('nil', ty.elem.sort())), z3.IntVal(0)))     # the empty list at any element type
        if z3.is_K(arr):
            elem = coerce(V(v.ty.elem, arr.arg(0)), ty.elem)
            return V(ty, ty.mk(z3.K(z3.IntSort(), elem.t), z3.simplify(v.ty.n(v.t))))
    raise OutOfSubset(f'cannot coerce {v.ty} to {ty}')


def join_types(a, b):
    if a == b:
        return a
    if {a, b} <= {INT, REAL, BOOL}:
        return REAL if REAL in (a, b) else INT
    if a == NONE:
        return b if isinstance(b, TOpt) else TOpt(b)
    if b == NONE:
        return a if isinstance(a, TOpt) else TOpt(a)
    if isinstance(a, TOpt) and not isinstance(b, TOpt):
        return TOpt(join_types(a.inner, b))
    if isinstance(b, TOpt) and not isinstance(a, TOpt):
        return TOpt(join_types(a, b.inner))
    if isinstance(a, TOpt) and isinstance(b, TOpt):
        return TOpt(join_types(a.inner, b.inner))
    raise OutOfSubset(f'cannot join {a} and {b}')


def tuple_parts(v):
    return [V(e, v.ty.acc(i, v.t)) for i, e in enumerate(v.ty.elems)]


def mk_tuple(vals):
    ty = TTuple([x.ty for x in vals])
    return V(ty, ty.mk(*[x.t for x in vals]))


def list_len(v):
    return v.ty.n(v.t)


def list_at(v, idx):
    return V(v.ty.elem, z3.Select(v.ty.arr(v.t), idx))


def values_equal(a, b):
    """Python == on two symbolic values -> z3 Bool"""
    if is_num(a) and is_num(b):
        _, x, y = unify_num(a, b)
        return x == y
    if a.ty == NONE and b.ty == NONE:
        return z3.BoolVal(True)
    if isinstance(a.ty, TOpt) or isinstance(b.ty, TOpt):
        if a.ty == NONE:
            return b.ty.is_none(b.t)
        if b.ty == NONE:
            return a.ty.is_none(a.t)
        if isinstance(a.ty, TOpt) and isinstance(b.ty, TOpt):
            ia, ib = V(a.ty.inner, a.ty.val(a.t)), V(b.ty.inner, b.ty.val(b.t))
            return z3.Or(z3.And(a.ty.is_none(a.t), b.ty.is_none(b.t)),
                         z3.And(z3.Not(a.ty.is_none(a.t)), z3.Not(b.ty.is_none(b.t)), values_equal(ia, ib)))
        if isinstance(a.ty, TOpt):
            return z3.And(z3.Not(a.ty.is_none(a.t)), values_equal(V(a.ty.inner, a.ty.val(a.t)), b))
        return values_equal(b, a)
    if a.ty == NONE or b.ty == NONE:
        return z3.BoolVal(False)
    if isinstance(a.ty, TTuple) and isinstance(b.ty, TTuple):
        if len(a.ty.elems) != len(b.ty.elems):
            return z3.BoolVal(False)
        return z3.And(*[values_equal(x, y) for x, y in zip(tuple_parts(a), tuple_parts(b))]) \
            if a.ty.elems else z3.BoolVal(True)
    if isinstance(a.ty, TList) and isinstance(b.ty, TList):
        k = fresh('k', z3.IntSort())
        return z3.And(list_len(a) == list_len(b),
                      z3.ForAll([k], z3.Implies(z3.And(0 <= k, k < list_len(a)),
                                                values_equal(list_at(a, k), list_at(b, k)))))
    if a.ty == b.ty:
        return a.t == b.t
    if a.ty == STR or b.ty == STR:
        return z3.BoolVal(False)  # str vs non-str
    raise OutOfSubset(f'== between {a.ty} and {b.ty}')


def py_floordiv(a, b):
    # Python floor division on ints for any sign of b (z3 div is floor for b>0, ceil for b<0)
    return z3.If(b > 0, a / b, (-a) / (-b))


def clamp_index(idx, n):
    """CPython slice index normalisation"""
    i2 = z3.If(idx < 0, idx + n, idx)
    return z3.If(i2 < 0, z3.IntVal(0), z3.If(i2 > n, n, i2))


# ---------------------------------------------------------------- the evaluator

class Evaluator:
    def __init__(self, engine):
        self.engine = engine  # gives access to contracts / type aliases / spec functions

    # -- entry
    def ev(self, node, ctx):
        m = getattr(self, 'ev_' + type(node).__name__, None)
        if m is None:
            raise OutOfSubset(f'expression {type(node).__name__} at line {getattr(node, "lineno", "?")}')
        if hasattr(node, 'lineno') and not ctx.spec:
            ctx.line = node.lineno
        return m(node, ctx)

    def ev_Constant(self, n, ctx):
        v = n.value
        if v is None:
            return mk_none()
        if isinstance(v, bool):
            return mk_bool(v)
        if isinstance(v, int):
            return mk_int(v)
        if isinstance(v, float):
            return mk_real(v)
        if isinstance(v, str):
            return mk_str(v)
        raise OutOfSubset(f'constant {v!r}')

    def ev_Name(self, n, ctx):
        if n.id in ctx.env:
            return ctx.env[n.id]
        if n.id in ctx.ghosts:
            return ctx.ghosts[n.id]
        if ctx.spec and n.id in ctx.old:
            return ctx.old[n.id]
        g = self.engine.global_value(n.id, ctx)
        if g is not None:
            return g
        raise OutOfSubset(f'unbound name {n.id} (line {getattr(n, "lineno", "?")})')

    def ev_Tuple(self, n, ctx):
        return mk_tuple([self.ev(e, ctx) for e in n.elts])

    def ev_List(self, n, ctx):
        vals = [self.ev(e, ctx) for e in n.elts]
        if not vals:
            hint = getattr(n, '_elem_ty', None) or INT
            return self.list_literal([], hint)
        ty = vals[0].ty
        try:
            for x in vals[1:]:
                ty = join_types(ty, x.ty)
        except OutOfSubset:
            return mk_tuple(vals)     # a small heterogeneous list used as a record ([start, None, False, None]): fixed shape
        if getattr(n, '_as_tuple', False):
            return mk_tuple(vals)
        return self.list_literal([coerce(x, ty) for x in vals], ty)

    def list_literal(self, vals, elem_ty):
        lt = TList(elem_ty)
        arr = z3.K(z3.IntSort(), self.default_term(elem_ty))
        for i, x in enumerate(vals):
            arr = z3.Store(arr, i, x.t)
        return V(lt, lt.mk(arr, z3.IntVal(len(vals))))

    def default_term(self, ty):
        return fresh('dflt', ty.sort())

    def ev_UnaryOp(self, n, ctx):
        v = self.ev(n.operand, ctx)
        if isinstance(n.op, ast.Not):
            return V(BOOL, z3.Not(truthy(v)))
        if isinstance(n.op, ast.USub):
            v = self.unwrap_opt(v, ctx, 'TypeError')
            if v.ty == REAL:
                return V(REAL, -v.t)
            return V(INT, -to_int(v))
        if isinstance(n.op, ast.UAdd):
            return v
        raise OutOfSubset('unary op')

    def unwrap_opt(self, v, ctx, exc='TypeError'):
        """use of an Optional where a concrete value is needed: None raises `exc`"""
        while isinstance(v.ty, TOpt):
            ctx.exc(exc, v.ty.is_none(v.t))
            v = V(v.ty.inner, v.ty.val(v.t))
        if v.ty == NONE:
            ctx.exc(exc, z3.BoolVal(True))
        return v

    def ev_BinOp(self, n, ctx):
        a = self.ev(n.left, ctx)
        b = self.ev(n.right, ctx)
        return self.binop(n.op, a, b, ctx)

    def binop(self, op, a, b, ctx):
        a = self.unwrap_opt(a, ctx)
        b = self.unwrap_opt(b, ctx)
        if isinstance(op, ast.Add):
            if a.ty == STR and b.ty == STR:
                return V(STR, z3.Concat(a.t, b.t))
            if isinstance(a.ty, TList) and isinstance(b.ty, TList):
                return self.list_concat(a, b, ctx)
            if isinstance(a.ty, TList) and isinstance(b.ty, TBag) or isinstance(a.ty, TBag) and isinstance(b.ty, TList):
                # [x, ..] + list(generator): order abstracted, the bag sum
                lit, bag = (a, b) if isinstance(a.ty, TList) else (b, a)
                lb = self.engine.literal_list_to_bag(V(TList(bag.ty.elem), lit.t) if lit.ty.elem != bag.ty.elem and lit.ty.sort() == TList(bag.ty.elem).sort() else lit)
                if lb is None or lb.ty != bag.ty:
                    raise OutOfSubset(f'{a.ty} + {b.ty}')
                return self.engine.bag_union(lb, bag, ctx)
            if isinstance(a.ty, TBag) and isinstance(b.ty, TBag) and a.ty == b.ty:
                return self.engine.bag_union(a, b, ctx)
            if isinstance(a.ty, TTuple) and isinstance(b.ty, TTuple):
                return mk_tuple(tuple_parts(a) + tuple_parts(b))
        if isinstance(op, ast.Mult):
            if isinstance(a.ty, TList) and b.ty == INT:
                return self.list_repeat(a, b, ctx)
            if a.ty == STR and b.ty == INT:
                return self.engine.str_repeat(a, b, ctx)
        if not (is_num(a) and is_num(b)):
            if a.ty == NONE or b.ty == NONE:
                return V(INT, fresh('junk', z3.IntSort()))  # TypeError already recorded by unwrap_opt
            raise OutOfSubset(f'binop {type(op).__name__} on {a.ty},{b.ty}')
        ty, x, y = unify_num(a, b)
        if isinstance(op, ast.Add):
            return V(ty, x + y)
        if isinstance(op, ast.Sub):
            return V(ty, x - y)
        if isinstance(op, ast.Mult):
            return V(ty, x * y)
        if isinstance(op, ast.Div):
            xr, yr = to_real(a), to_real(b)
            ctx.exc('ZeroDivisionError', yr == 0)
            return V(REAL, xr / yr)
        if isinstance(op, ast.FloorDiv):
            if ty == INT:
                ctx.exc('ZeroDivisionError', y == 0)
                return V(INT, py_floordiv(x, y))
        if isinstance(op, ast.Mod):
            if ty == INT:
                ctx.exc('ZeroDivisionError', y == 0)
                r = x - y * py_floordiv(x, y)
                if not z3.is_int_value(z3.simplify(y)):
                    # modulus by a symbolic positive divisor is non-linear for the solver: state the consequences of the
                    # definition of Python's % for the quotient values -1, 0, 1 and the range of the result
                    pos = y > 0
                    ctx.assume(z3.Implies(pos, z3.And(0 <= r, r < y)))
                    ctx.assume(z3.Implies(z3.And(pos, 0 <= x, x < y), r == x))
                    ctx.assume(z3.Implies(z3.And(pos, -y <= x, x < 0), r == x + y))
                    ctx.assume(z3.Implies(z3.And(pos, y <= x, x < 2 * y), r == x - y))
                return V(INT, r)
        if isinstance(op, ast.Pow):
            if isinstance(y, z3.ExprRef) and z3.is_int_value(y) and y.as_long() >= 0:
                r = z3.IntVal(1) if ty == INT else z3.RealVal(1)
                for _ in range(y.as_long()):
                    r = r * x
                return V(ty, r)
        raise OutOfSubset(f'binop {type(op).__name__} on {a.ty},{b.ty}')

    def list_concat(self, a, b, ctx):
        et = join_types(a.ty.elem, b.ty.elem)
        lt = TList(et)
        r = fresh('cat', lt.sort())
        k = fresh('k', z3.IntSort())
        na, nb = list_len(a), list_len(b)
        ctx.assume(lt.n(r) == na + nb)
        ctx.assume(z3.ForAll([k], z3.Implies(z3.And(0 <= k, k < na),
                                             z3.Select(lt.arr(r), k) == coerce(list_at(a, k), et).t)))
        ctx.assume(z3.ForAll([k], z3.Implies(z3.And(0 <= k, k < nb),
                                             z3.Select(lt.arr(r), na + k) == coerce(list_at(b, k), et).t)))
        x = fresh('x', z3.IntSort())     # the same fact indexed by the position in the result (a trigger on r[x])
        ctx.assume(z3.ForAll([x], z3.Implies(z3.And(na <= x, x < na + nb),
                                             z3.Select(lt.arr(r), x) == coerce(list_at(b, x - na), et).t)))
        return V(lt, r)

    def list_repeat(self, a, b, ctx):
        lt = a.ty
        if z3.is_int_value(z3.simplify(list_len(a))) and z3.simplify(list_len(a)).as_long() == 1:
            x = list_at(a, z3.IntVal(0))
            n = z3.If(b.t < 0, z3.IntVal(0), b.t)
            return V(lt, lt.mk(z3.K(z3.IntSort(), x.t), n))
        raise OutOfSubset('list repeat of non-singleton')

    def ev_BoolOp(self, n, ctx):
        vals = []
        saved = list(ctx.guards)
        try:
            for i, e in enumerate(n.values):
                v = self.ev(e, ctx)
                vals.append(v)
                if i < len(n.values) - 1:
                    t = truthy(v)
                    ctx.guards.append(t if isinstance(n.op, ast.And) else z3.Not(t))
        finally:
            ctx.guards[:] = saved
        if all(v.ty == BOOL for v in vals):
            return V(BOOL, (z3.And if isinstance(n.op, ast.And) else z3.Or)(*[v.t for v in vals]))
        # value-returning and/or
        ty = vals[0].ty
        try:
            for v in vals[1:]:
                ty = join_types(ty, v.ty)
        except OutOfSubset:
            # operands of unrelated types (`i == 0 and some_list`): only the truth value of such an expression is modelled
            return V(BOOL, (z3.And if isinstance(n.op, ast.And) else z3.Or)(*[truthy(v) for v in vals]))
        res = coerce(vals[-1], ty).t
        for v in reversed(vals[:-1]):
            t = truthy(v)
            if isinstance(n.op, ast.And):
                res = z3.If(t, res, coerce(v, ty).t)
            else:
                res = z3.If(t, coerce(v, ty).t, res)
        return V(ty, res)

    def ev_IfExp(self, n, ctx):
        c = truthy(self.ev(n.test, ctx))
        saved = list(ctx.guards)
        ctx.guards.append(c)
        a = self.ev(n.body, ctx)
        ctx.guards[:] = saved + [z3.Not(c)]
        b = self.ev(n.orelse, ctx)
        ctx.guards[:] = saved
        ty = join_types(a.ty, b.ty)
        return V(ty, z3.If(c, coerce(a, ty).t, coerce(b, ty).t))

    def ev_Compare(self, n, ctx):
        left = self.ev(n.left, ctx)
        parts = []
        saved = list(ctx.guards)
        try:
            for op, rn in zip(n.ops, n.comparators):
                if isinstance(op, (ast.In, ast.NotIn)) and isinstance(rn, ast.Name) and rn.id not in ctx.env and \
                        isinstance(self.engine.globals_.get(rn.id), (list, tuple, set, frozenset)) and \
                        all(isinstance(x, str) for x in self.engine.globals_[rn.id]):
                    # membership in a module-level constant collection of strings (read from the real module): a disjunction
                    items = sorted(self.engine.globals_[rn.id])
                    c = z3.Or(*[values_equal(left, mk_str(x)) for x in items]) if items else z3.BoolVal(False)
                    if isinstance(op, ast.NotIn):
                        c = z3.Not(c)
                    parts.append(c)
                    ctx.guards.append(c)
                    left = None
                    continue
                if isinstance(op, (ast.In, ast.NotIn)) and isinstance(rn, (ast.List, ast.Tuple, ast.Set)):
                    # membership in a literal collection: a disjunction of equalities
                    items = [self.ev(e, ctx) for e in rn.elts]
                    c = z3.Or(*[values_equal(left, it) for it in items]) if items else z3.BoolVal(False)
                    if isinstance(op, ast.NotIn):
                        c = z3.Not(c)
                    parts.append(c)
                    ctx.guards.append(c)
                    left = None
                    continue
                right = self.ev(rn, ctx)
                c = self.compare(op, left, right, ctx)
                parts.append(c)
                ctx.guards.append(c)
                left = right
        finally:
            ctx.guards[:] = saved
        return V(BOOL, z3.And(*parts) if len(parts) > 1 else parts[0])

    def compare(self, op, a, b, ctx):
        if isinstance(op, (ast.Is, ast.IsNot)):
            if b.ty == NONE:
                if isinstance(a.ty, TOpt):
                    r = a.ty.is_none(a.t)
                else:
                    r = z3.BoolVal(a.ty == NONE)
            elif a.ty == BOOL and b.ty == BOOL:
                r = a.t == b.t
            else:
                raise OutOfSubset('`is` on non-None')
            return z3.Not(r) if isinstance(op, ast.IsNot) else r
        if isinstance(op, (ast.Eq, ast.NotEq)) and not ctx.spec and isinstance(a.ty, TRec) and a.ty == b.ty and self.engine is not None:
            # `x == y` between objects of a class whose __eq__ is under contract in this module: a call of that contract (in code only;
            # in contract clauses == on records stays structural)
            q = self.engine.method_qual(a.ty, '__eq__')
            if q and self.engine.contracts[q].d.get('pure'):
                r = truthy(self.engine.call_bound(q, [('self', a)], [b], {}, ctx, ctx.line))
                return z3.Not(r) if isinstance(op, ast.NotEq) else r
        if isinstance(op, ast.Eq):
            return values_equal(a, b)
        if isinstance(op, ast.NotEq):
            return z3.Not(values_equal(a, b))
        if isinstance(op, (ast.In, ast.NotIn)):
            r = self.member(a, b, ctx)
            return z3.Not(r) if isinstance(op, ast.NotIn) else r
        a = self.unwrap_opt(a, ctx)
        b = self.unwrap_opt(b, ctx)
        if is_num(a) and is_num(b):
            _, x, y = unify_num(a, b)
        elif a.ty == STR and b.ty == STR:
            x, y = a.t, b.t
        elif isinstance(a.ty, TTuple) and isinstance(b.ty, TTuple) and len(a.ty.elems) == len(b.ty.elems):
            return self.lex_compare(op, tuple_parts(a), tuple_parts(b), ctx)
        elif a.ty == NONE or b.ty == NONE:
            return z3.BoolVal(False)  # TypeError recorded
        else:
            raise OutOfSubset(f'compare {a.ty} {b.ty}')
        if isinstance(op, ast.Lt):
            return x < y
        if isinstance(op, ast.LtE):
            return x <= y
        if isinstance(op, ast.Gt):
            return x > y
        if isinstance(op, ast.GtE):
            return x >= y
        raise OutOfSubset('compare op')

    def lex_compare(self, op, xs, ys, ctx):
        strict = isinstance(op, (ast.Lt, ast.Gt))
        lt = isinstance(op, (ast.Lt, ast.LtE))
        res = z3.BoolVal(not strict)
        for x, y in reversed(list(zip(xs, ys))):
            _, a, b = unify_num(x, y)
            res = z3.Or(a < b if lt else a > b, z3.And(a == b, res))
        return res

    def member(self, a, b, ctx):
        if isinstance(b.ty, TOpt) and isinstance(b.ty.inner, (TDict, TList, TSet)):
            b = self.unwrap_opt(b, ctx)        # `x in None` raises TypeError
        if isinstance(b.ty, TRec) and b.ty.name in getattr(self.engine, 'unions', {}) and a.ty == STR:
            # `text in x` where x is a str | int | float union: TypeError unless x is a str
            ctx.exc('TypeError', b.ty.get('kind', b.t) != 0)
            return z3.Contains(b.ty.get('s', b.t), a.t)
        if b.ty == STR and a.ty == STR:
            return z3.Contains(b.t, a.t)
        if isinstance(b.ty, TList):
            et = b.ty.elem
            if et in (INT, BOOL, STR) or isinstance(et, (TRec, TTuple, TAbs)):
                # `x in L` Skolemised with a witness-index function W (conservative: W may be "the first index of x"):
                #   x in L  :=  0 <= W(L,x) < len(L) and L[W(L,x)] == x ;  axiom: every L[k] is a member of L
                try:
                    x = coerce(a, et)
                except OutOfSubset:
                    return z3.BoolVal(False)
                W = z3.Function('W_' + b.ty.name.replace('[', '_').replace(']', '_').replace(',', '_'), b.ty.sort(), et.sort(),
                                z3.IntSort())
                arr, n = b.ty.arr(b.t), list_len(b)
                k = fresh('k', z3.IntSort())
                ek = z3.Select(arr, k)
                ctx.assume(z3.ForAll([k], z3.Implies(z3.And(0 <= k, k < n),
                                                     z3.And(0 <= W(b.t, ek), W(b.t, ek) < n, z3.Select(arr, W(b.t, ek)) == ek))))
                w = W(b.t, x.t)
                return z3.And(0 <= w, w < n, z3.Select(arr, w) == x.t)
            k = fresh('k', z3.IntSort())
            return z3.Exists([k], z3.And(0 <= k, k < list_len(b), values_equal(list_at(b, k), a)))
        if isinstance(b.ty, TTuple):
            return z3.Or(*[values_equal(x, a) for x in tuple_parts(b)]) if b.ty.elems else z3.BoolVal(False)
        if isinstance(b.ty, TSet):
            return z3.Select(b.t, coerce(a, b.ty.elem).t)
        if isinstance(b.ty, TBag):
            return z3.Select(b.t, coerce(a, b.ty.elem).t) > 0
        if isinstance(b.ty, TDict):
            return z3.Select(b.ty.has(b.t), coerce(a, b.ty.k).t)
        raise OutOfSubset(f'`in` on {b.ty}')

    def ev_Subscript(self, n, ctx):
        sp = self.split_index(n, ctx)
        if sp is not None:
            return sp
        base = self.ev(n.value, ctx)
        base = self.unwrap_opt(base, ctx)
        if isinstance(n.slice, ast.Slice):
            return self.slice(base, n.slice, ctx)
        idx = self.ev(n.slice, ctx)
        return self.index(base, idx, ctx)

    def split_index(self, n, ctx):
        """s.split(sep)[k] / s.split(sep, 1)[k] for a one-character constant sep and k in {0, 1}, through index-of"""
        v = n.value
        if not (isinstance(v, ast.Call) and isinstance(v.func, ast.Attribute) and v.func.attr == 'split' and 1 <= len(v.args) <= 2
                and isinstance(v.args[0], ast.Constant) and isinstance(v.args[0].value, str) and len(v.args[0].value) == 1
                and isinstance(n.slice, ast.Constant) and n.slice.value in (0, 1)):
            return None
        maxsplit = None
        if len(v.args) == 2:
            if not (isinstance(v.args[1], ast.Constant) and v.args[1].value == 1):
                return None
            maxsplit = 1
        s_ = self.ev(v.func.value, ctx)
        if s_.ty != STR:
            return None
        sep = z3.StringVal(v.args[0].value)
        n_ = z3.Length(s_.t)
        i = z3.IndexOf(s_.t, sep, 0)
        if n.slice.value == 0:
            return V(STR, z3.If(i < 0, s_.t, z3.SubString(s_.t, 0, i)))
        ctx.exc('IndexError', i < 0)
        rest = z3.SubString(s_.t, i + 1, n_ - i - 1)
        if maxsplit == 1:
            return V(STR, rest)
        j = z3.IndexOf(s_.t, sep, i + 1)
        return V(STR, z3.If(j < 0, rest, z3.SubString(s_.t, i + 1, j - i - 1)))

    def index(self, base, idx, ctx):
        if isinstance(base.ty, TTuple):
            it = z3.simplify(to_int(idx))
            if z3.is_int_value(it):
                i = it.as_long()
                if i < 0:
                    i += len(base.ty.elems)
                if not (0 <= i < len(base.ty.elems)):
                    ctx.exc('IndexError', z3.BoolVal(True))
                    return V(INT, fresh('junk', z3.IntSort()))
                return tuple_parts(base)[i]
            raise OutOfSubset('tuple index not constant')
        if isinstance(base.ty, TAbs) and base.ty.name in getattr(self.engine, 'opaque_lists', ()):
            base = self.engine.items_of(base, ctx)
        if isinstance(base.ty, TList):
            i = to_int(self.unwrap_opt(idx, ctx))
            n = list_len(base)
            ctx.exc('IndexError', z3.Or(i >= n, i < -n))
            j = i if ctx.spec else z3.If(i < 0, i + n, i)
            return list_at(base, j)
        if base.ty == STR:
            i = to_int(self.unwrap_opt(idx, ctx))
            n = z3.Length(base.t)
            ctx.exc('IndexError', z3.Or(i >= n, i < -n))
            j = i if ctx.spec else z3.If(i < 0, i + n, i)
            return V(STR, z3.SubString(base.t, j, 1))
        if isinstance(base.ty, TDict):
            k = coerce(idx, base.ty.k)
            ctx.exc('KeyError', z3.Not(z3.Select(base.ty.has(base.t), k.t)))
            return V(base.ty.v, z3.Select(base.ty.at(base.t), k.t))
        raise OutOfSubset(f'subscript on {base.ty}')

    def slice(self, base, sl, ctx):
        if sl.step is not None:
            if base.ty == STR and sl.lower is None and sl.upper is None and isinstance(sl.step, ast.UnaryOp) \
                    and isinstance(sl.step.op, ast.USub) and isinstance(sl.step.operand, ast.Constant) and sl.step.operand.value == 1:
                # s[::-1]: the reversed string, characterised per position
                f = z3.Function('str_rev', z3.StringSort(), z3.StringSort())
                r = f(base.t)
                k = fresh('k', z3.IntSort())
                n = z3.Length(base.t)
                ctx.assume(z3.Length(r) == n)
                ctx.assume(z3.ForAll([k], z3.Implies(z3.And(0 <= k, k < n),
                                                     z3.SubString(r, k, 1) == z3.SubString(base.t, n - 1 - k, 1))))
                return V(STR, r)
            if isinstance(base.ty, TList) and sl.lower is None and sl.upper is None and isinstance(sl.step, ast.UnaryOp) \
                    and isinstance(sl.step.op, ast.USub) and isinstance(sl.step.operand, ast.Constant) and sl.step.operand.value == 1:
                # L[::-1]: a new list of the same length with R[k] == L[n-1-k]
                lt = base.ty
                r = z3.Function('rev_' + lt.name.replace('[', '_').replace(']', '').replace(',', '_'), lt.sort(), lt.sort())(base.t)
                k = fresh('k', z3.IntSort())
                n = list_len(base)
                ctx.assume(lt.n(r) == n)
                ctx.assume(z3.ForAll([k], z3.Implies(z3.And(0 <= k, k < n),
                                                     z3.Select(lt.arr(r), k) == z3.Select(lt.arr(base.t), n - 1 - k))))
                return V(lt, r)
            raise OutOfSubset('slice step')
        n = z3.Length(base.t) if base.ty == STR else list_len(base)
        lo = z3.IntVal(0) if sl.lower is None else clamp_index(to_int(self.unwrap_opt(self.ev(sl.lower, ctx), ctx)), n)
        hi = n if sl.upper is None else clamp_index(to_int(self.unwrap_opt(self.ev(sl.upper, ctx), ctx)), n)
        ln = z3.If(hi > lo, hi - lo, z3.IntVal(0))
        if base.ty == STR:
            return V(STR, z3.SubString(base.t, lo, ln))
        if isinstance(base.ty, TList):
            lt = base.ty
            # the slice is a FUNCTION of (list, lo, hi): the same slice expression evaluated twice denotes the same value
            r = z3.Function('slice_' + lt.name.replace('[', '_').replace(']', '').replace(',', '_'), lt.sort(), z3.IntSort(),
                            z3.IntSort(), lt.sort())(base.t, lo, hi)
            k = fresh('k', z3.IntSort())
            ctx.assume(lt.n(r) == ln)
            if ctx.binders > 0:
                # inside a quantified spec term the slice is only a NAME for f(list, lo, hi) (compared by congruence with the
                # code's own slice); its element axioms would be re-stated under every binder for nothing
                return V(lt, r)
            ctx.assume(z3.ForAll([k], z3.Implies(z3.And(0 <= k, k < ln),
                                                 z3.Select(lt.arr(r), k) == z3.Select(lt.arr(base.t), lo + k))))
            x = fresh('x', z3.IntSort())   # same axiom indexed by the source position (trigger on base[x])
            ctx.assume(z3.ForAll([x], z3.Implies(z3.And(lo <= x, x < lo + ln),
                                                 z3.Select(lt.arr(r), x - lo) == z3.Select(lt.arr(base.t), x))))
            return V(lt, r)
        raise OutOfSubset(f'slice on {base.ty}')

    def ev_Attribute(self, n, ctx):
        if isinstance(n.value, ast.Name) and n.value.id == 'sys' and n.attr == 'maxsize' and 'sys' not in ctx.env:
            return V(INT, z3.IntVal(9223372036854775807))      # sys.maxsize on the 64-bit interpreters the library runs on
        base = self.ev(n.value, ctx)
        return self.engine.attribute(base, n.attr, ctx, n)

    def ev_Call(self, n, ctx):
        return self.engine.call(n, ctx, self)

    def ev_Dict(self, n, ctx):
        if n.keys:
            # {k1: v1, ..}: built from the empty dictionary by stores (all keys / values of one type each)
            if any(k is None for k in n.keys):
                raise OutOfSubset('dict literal with ** unpacking')
            ks = [self.ev(k, ctx) for k in n.keys]
            vs = [self.ev(v, ctx) for v in n.values]
            dt = TDict(ks[0].ty, vs[0].ty)
            has = z3.K(dt.k.sort(), False)
            at = fresh('dflt', z3.ArraySort(dt.k.sort(), dt.v.sort()))
            for k_, v_ in zip(ks, vs):
                has = z3.Store(has, coerce(k_, dt.k).t, True)
                at = z3.Store(at, coerce(k_, dt.k).t, coerce(v_, dt.v).t)
            return V(dt, dt.mk(has, at))
        hint = getattr(n, '_dict_ty', None)
        if hint is None:
            raise OutOfSubset('dict literal without a type hint (contract `locals`)')
        return V(hint, hint.mk(z3.K(hint.k.sort(), False), fresh('dflt', z3.ArraySort(hint.k.sort(), hint.v.sort()))))

    def ev_DictComp(self, n, ctx):
        """{k: f(k, v) for k, v in d.items() [if c(k, v)]}: same keys (those satisfying c), values mapped -- key expression must be k itself"""
        if len(n.generators) != 1:
            raise OutOfSubset('dict comprehension with several generators')
        g = n.generators[0]
        it = g.iter
        if not (isinstance(it, ast.Call) and isinstance(it.func, ast.Attribute) and it.func.attr == 'items' and not it.args
                and isinstance(g.target, ast.Tuple) and len(g.target.elts) == 2 and all(isinstance(t, ast.Name) for t in g.target.elts)
                and isinstance(n.key, ast.Name) and n.key.id == g.target.elts[0].id):
            raise OutOfSubset('dict comprehension form')
        src = self.unwrap_opt(self.ev(it.func.value, ctx), ctx, 'AttributeError')
        if not isinstance(src.ty, TDict):
            raise OutOfSubset(f'dict comprehension over {src.ty}')
        dt = src.ty
        e = fresh('key', dt.k.sort())
        saved = dict(ctx.env)
        ctx.env[g.target.elts[0].id] = V(dt.k, e)
        ctx.env[g.target.elts[1].id] = V(dt.v, z3.Select(dt.at(src.t), e))
        n_as, n_ex = len(ctx.assumes), len(ctx.excs)
        saved_g = list(ctx.guards)
        ctx.guards.append(z3.Select(dt.has(src.t), e))
        conds = []
        for c_ in g.ifs:
            t_ = truthy(self.ev(c_, ctx))
            conds.append(t_)
            ctx.guards.append(t_)
        val = self.ev(n.value, ctx)
        ctx.guards[:] = saved_g
        self.engine._close_assumes(ctx, n_as, [e], n_ex)
        ctx.env.clear()
        ctx.env.update(saved)
        rt = TDict(dt.k, val.ty)
        has_src = z3.simplify(dt.has(src.t))
        if z3.is_K(has_src) and z3.is_false(has_src.arg(0)):
            # a comprehension over the empty dictionary literal is the empty dictionary (of the value type the element expression has)
            return V(rt, rt.mk(z3.K(dt.k.sort(), False), fresh('dflt', z3.ArraySort(dt.k.sort(), val.ty.sort()))))
        R = fresh('dcomp', rt.sort())
        cond = z3.And(*conds) if conds else z3.BoolVal(True)
        ctx.assume(z3.ForAll([e], z3.Select(rt.has(R), e) == z3.And(z3.Select(dt.has(src.t), e), cond)))
        ctx.assume(z3.ForAll([e], z3.Implies(z3.Select(rt.has(R), e), z3.Select(rt.at(R), e) == val.t)))
        return V(rt, R)

    def ev_Lambda(self, n, ctx):
        raise OutOfSubset('lambda outside a modelled position')

    def ev_JoinedStr(self, n, ctx):
        parts = []
        for v in n.values:
            if isinstance(v, ast.Constant):
                parts.append(z3.StringVal(v.value))
            elif isinstance(v, ast.FormattedValue):
                x = self.ev(v.value, ctx)
                if x.ty == STR and v.format_spec is None and v.conversion == -1:
                    parts.append(x.t)
                else:
                    if isinstance(x.ty, TOpt) and x.ty.inner in (INT, REAL) and v.format_spec is None and v.conversion == -1:
                        fn_ = z3.Function('py_str_' + x.ty.inner.name, x.ty.inner.sort(), z3.StringSort())
                        parts.append(z3.If(x.ty.is_none(x.t), z3.StringVal('None'), fn_(x.ty.val(x.t))))
                    elif x.ty in (INT, REAL, BOOL) and v.format_spec is None and v.conversion == -1:
                        # str() of a number inside an f-string: a function of the value (LC-NUMTEXT)
                        parts.append(z3.Function('py_str_' + x.ty.name, x.ty.sort(), z3.StringSort())(x.t))
                    else:
                        parts.append(fresh('fmt', z3.StringSort()))  # text of a formatted non-string: abstract
            else:
                raise OutOfSubset('f-string part')
        if not parts:
            return mk_str('')
        return V(STR, z3.Concat(*parts) if len(parts) > 1 else parts[0])

    def ev_GeneratorExp(self, n, ctx):
        g = n.generators[0]
        if len(n.generators) == 1 and not g.ifs and isinstance(g.target, ast.Name) and isinstance(n.elt, ast.Name) \
                and n.elt.id == g.target.id and not (isinstance(g.iter, ast.Call) and isinstance(g.iter.func, ast.Name)
                                                      and g.iter.func.id == 'range'):
            src = self.ev(g.iter, ctx)
            if isinstance(src.ty, (TList, TBag, TSet)):
                return src           # (x for x in xs): the same elements in the same order
        if len(n.generators) == 1 and not g.ifs and not (isinstance(g.iter, ast.Call) and isinstance(g.iter.func, ast.Name)
                                                           and g.iter.func.id == 'range'):
            saved = dict(ctx.env)
            try:
                src = self.ev(g.iter, ctx)
            finally:
                ctx.env.clear()
                ctx.env.update(saved)
            if isinstance(src.ty, TList):
                return self.engine.list_comprehension(n, ctx, self)     # (f(x) for x in list): consumed in order, as the list of f(x)
        return self.engine.comprehension_bag(n, ctx, self)

    def ev_ListComp(self, n, ctx):
        return self.engine.list_comprehension(n, ctx, self)
