"""pyvc.solve -- discharge obligations: z3 (python API, one obligation per worker) then cvc5 CLI for unknowns."""
import os
import subprocess
import tempfile
import time
from concurrent.futures import ProcessPoolExecutor


Z3_CLI = '/usr/local/bin/z3-new'

CONFIGS = {
    'z3': {},
    'z3-ematch': {'smt.mbqi': False, 'smt.auto_config': False},
    'z3-nombqi': {'smt.mbqi': False},
    'z3-seed7': {'smt.random_seed': 7, 'smt.mbqi': False, 'smt.auto_config': False},
    # many nested if-expressions (index clamping, optional values): case splitting on the relevant ones first
    'z3-cs3': {'smt.mbqi': False, 'smt.auto_config': False, 'smt.case_split': 3},
}


def _z3_worker(args):
    """one obligation, one z3 configuration. `sat` is only accepted from the default configuration (the E-matching-only
    configurations cannot establish satisfiability of quantified formulas)"""
    name, smt2, timeout_ms, want_model, label = args
    t0 = time.time()
    # every obligation is decided by a FRESH z3 process on the obligation's SMT-LIB text: the verdict depends on the text alone, not
    # on what the same process solved (or generated) before -- reproducible with `z3-new <opts> file.smt2`
    text = smt2 if '(check-sat)' in smt2 else smt2 + '\n(check-sat)\n'
    opts = []
    for k, v in CONFIGS[label].items():
        opts.append(f'{k}={str(v).lower() if isinstance(v, bool) else v}')
    path = None
    try:
        with tempfile.NamedTemporaryFile('w', suffix='.smt2', delete=False) as f:
            f.write(text)
            path = f.name
        p = subprocess.run([Z3_CLI, f'-t:{int(timeout_ms)}', f'-T:{int(timeout_ms / 1000) + 5}'] + opts + [path], capture_output=True, text=True,
                           timeout=timeout_ms / 1000 + 15)
        first_line = p.stdout.strip().split('\n')[0] if p.stdout.strip() else 'unknown'
    except Exception:
        first_line = 'unknown'
    finally:
        if path:
            try:
                os.unlink(path)
            except OSError:
                pass
    if first_line == 'unsat':
        return name, 'unsat', None, int((time.time() - t0) * 1000), label
    if first_line != 'sat' or label != 'z3':
        return name, 'unknown', None, int((time.time() - t0) * 1000), label
    # satisfiable (default configuration only): the counter-model is extracted through the API
    import z3
    try:
        s = z3.Solver()
        s.set('timeout', int(timeout_ms))
        s.from_string(smt2)
        r = s.check()
        if r == z3.unsat:
            return name, 'unknown', None, int((time.time() - t0) * 1000), label      # the two runs disagree: no verdict
        if r == z3.sat and label == 'z3':
            model = None
            if want_model:
                try:
                    m = s.model()
                    model = {}
                    for d in m.decls():
                        if d.arity() == 0:
                            try:
                                model[str(d)] = to_py(m, d())
                            except Exception:
                                model[str(d)] = str(m[d])
                except Exception as e:  # noqa
                    model = {'_error': repr(e)}
            return name, 'sat', model, int((time.time() - t0) * 1000), label
        return name, 'unknown', None, int((time.time() - t0) * 1000), label
    except Exception as e:  # solver crash is "unknown", never a verdict
        return name, 'unknown', {'_error': repr(e)}, int((time.time() - t0) * 1000), label


def to_py(m, term, depth=0):
    """z3 model value of a term -> plain python (ints, floats, strings, tuples, None, lists)"""
    import z3
    v = m.eval(term, model_completion=True)
    srt = v.sort()
    k = srt.kind()
    if k == z3.Z3_INT_SORT:
        return v.as_long()
    if k == z3.Z3_REAL_SORT:
        if z3.is_algebraic_value(v):
            v = v.approx(12)
        fr = v.as_fraction()
        return float(fr) if fr.denominator != 1 else float(fr.numerator)
    if k == z3.Z3_BOOL_SORT:
        return z3.is_true(v)
    if k == z3.Z3_SEQ_SORT:
        return v.as_string()
    if k == z3.Z3_DATATYPE_SORT:
        name = srt.name()
        cname = v.decl().name()
        if name == 'NoneT' or cname.startswith('none_'):
            return None
        if cname.startswith('some_'):
            return to_py(m, v.arg(0), depth + 1)
        if name.startswith('T_'):
            return tuple(to_py(m, v.arg(i), depth + 1) for i in range(v.num_args()))
        if name.startswith('L_'):
            n = to_py(m, srt.accessor(0, 1)(v))
            arr = srt.accessor(0, 0)(v)
            return [to_py(m, z3.Select(arr, i), depth + 1) for i in range(max(0, min(n, 64)))]
        if name.startswith('R_'):
            return {srt.accessor(0, i).name().split('__')[0]: to_py(m, srt.accessor(0, i)(v), depth + 1)
                    for i in range(srt.constructor(0).arity())}
    return str(v)


def _cvc5_worker(args):
    name, smt2, timeout_ms, want_model = args
    t0 = time.time()
    text = smt2
    if '(set-logic' not in text:
        text = '(set-logic ALL)\n' + text
    if '(check-sat)' not in text:
        text += '\n(check-sat)\n'
    with tempfile.NamedTemporaryFile('w', suffix='.smt2', delete=False) as f:
        f.write(text)
        path = f.name
    try:
        p = subprocess.run(['/usr/bin/cvc5', '--strings-exp', f'--tlimit={timeout_ms}', path],
                           capture_output=True, text=True, timeout=timeout_ms / 1000 + 10)
        out = p.stdout.strip().split('\n')[0] if p.stdout.strip() else 'unknown'
        if out not in ('sat', 'unsat'):
            out = 'unknown'
    except Exception:
        out = 'unknown'
    finally:
        os.unlink(path)
    return name, out, None, int((time.time() - t0) * 1000), 'cvc5'


def _any_worker(job):
    kind, args = job
    return _z3_worker(args) if kind == 'z3' else _cvc5_worker(args)


def discharge(obls, timeout_ms=10000, workers=None, use_cvc5=True, cvc5_timeout_ms=None, portfolio=True):
    """obls: list of Obligation -> dict name -> dict(verdict, backend, ms, model)
    verdict: proved (unsat) / refuted (sat) / unknown.
    phase 1: default z3 with a short budget; phase 2 (unknowns): every z3 configuration in parallel with the full budget,
    first unsat wins; phase 3 (still unknown): cvc5."""
    workers = workers or min(16, os.cpu_count() or 4)
    texts = {o.name: o.smt2() for o in obls}
    res = {}
    # solver budgets are wall-clock: when the machine is busy (other checks, test suites) they are stretched by the load factor so
    # that a verdict does not flip from proved to unknown merely because the cores are shared
    try:
        scale = min(6.0, max(1.0, 1.5 * os.getloadavg()[0] / (os.cpu_count() or 1)))
    except OSError:
        scale = 1.0
    timeout_ms = int(timeout_ms * scale)
    if cvc5_timeout_ms:
        cvc5_timeout_ms = int(cvc5_timeout_ms * scale)
    first = int(max(1000, min(timeout_ms, 4000 * scale))) if portfolio else timeout_ms
    with ProcessPoolExecutor(max_workers=workers) as ex:
        jobs = [(n, t, first, True, 'z3') for n, t in texts.items()]
        for name, r, model, ms, be in ex.map(_z3_worker, jobs, chunksize=1):
            res[name] = dict(raw=r, model=model, ms=ms, backend=be)
        unk = [n for n in texts if res[n]['raw'] == 'unknown']
        if unk and portfolio:
            # phase 2: the other z3 configurations AND cvc5 side by side (cvc5 is deterministic and decides many of the string /
            # nonlinear obligations in well under a second); the first `unsat` wins
            jobs = [('z3', (n, texts[n], timeout_ms, True, label)) for n in unk for label in CONFIGS if label != 'z3']
            jobs += [('z3', (n, texts[n], timeout_ms, True, 'z3')) for n in unk if first < timeout_ms]
            if use_cvc5:
                jobs += [('cvc5', (n, texts[n], cvc5_timeout_ms or timeout_ms, False)) for n in unk]
            for name, r, model, ms, be in ex.map(_any_worker, jobs, chunksize=1):
                cur = res[name]
                if r != 'unknown' and (cur['raw'] == 'unknown' or ms < cur.get('won_ms', 1 << 60)):
                    if r == 'sat' and be != 'z3':
                        continue
                    res[name] = dict(raw=r, model=model if model is not None else cur.get('model'), ms=ms, backend=be, won_ms=ms,
                                     configs=dict(cur.get('configs', {}), **{be: ms}))
                elif r != 'unknown':
                    cur.setdefault('configs', {})[be] = ms
        elif use_cvc5:
            unk = [n for n in texts if res[n]['raw'] == 'unknown']
            if unk:
                jobs = [(n, texts[n], cvc5_timeout_ms or timeout_ms, False) for n in unk]
                for name, r, model, ms, be in ex.map(_cvc5_worker, jobs, chunksize=1):
                    if r == 'unsat':
                        res[name] = dict(raw=r, model=res[name]['model'], ms=res[name]['ms'] + ms, backend=be)
                    else:
                        res[name]['ms'] += ms
    for name, d in res.items():
        d['verdict'] = {'unsat': 'proved', 'sat': 'refuted'}.get(d['raw'], 'unknown')
    return res
