"""pyvc.solve -- discharge obligations: z3 (python API, one obligation per worker) then cvc5 CLI for unknowns."""
import os
import subprocess
import tempfile
import time
from concurrent.futures import ProcessPoolExecutor


def _z3_worker(args):
    name, smt2, timeout_ms, want_model = args
    import z3
    t0 = time.time()
    try:
        s = z3.Solver()
        s.set('timeout', timeout_ms)
        s.from_string(smt2)
        r = s.check()
        model = None
        if r == z3.sat and want_model:
            try:
                m = s.model()
                model = {}
                for d in m.decls():
                    if d.arity() == 0:
                        try:
                            model[str(d)] = to_py(m, d())
                        except Exception:
                            model[str(d)] = str(m[d])
            except Exception as e:  # noqa
                model = {'_error': repr(e)}
        return name, str(r), model, int((time.time() - t0) * 1000), 'z3'
    except Exception as e:  # solver crash is "unknown", never a verdict
        return name, 'unknown', {'_error': repr(e)}, int((time.time() - t0) * 1000), 'z3'


def to_py(m, term, depth=0):
    """z3 model value of a term -> plain python (ints, floats, strings, tuples, None, lists)"""
    import z3
    v = m.eval(term, model_completion=True)
    srt = v.sort()
    k = srt.kind()
    if k == z3.Z3_INT_SORT:
        return v.as_long()
    if k == z3.Z3_REAL_SORT:
        if z3.is_algebraic_value(v):
            v = v.approx(12)
        fr = v.as_fraction()
        return float(fr) if fr.denominator != 1 else float(fr.numerator)
    if k == z3.Z3_BOOL_SORT:
        return z3.is_true(v)
    if k == z3.Z3_SEQ_SORT:
        return v.as_string()
    if k == z3.Z3_DATATYPE_SORT:
        name = srt.name()
        cname = v.decl().name()
        if name == 'NoneT' or cname.startswith('none_'):
            return None
        if cname.startswith('some_'):
            return to_py(m, v.arg(0), depth + 1)
        if name.startswith('T_'):
            return tuple(to_py(m, v.arg(i), depth + 1) for i in range(v.num_args()))
        if name.startswith('L_'):
            n = to_py(m, srt.accessor(0, 1)(v))
            arr = srt.accessor(0, 0)(v)
            return [to_py(m, z3.Select(arr, i), depth + 1) for i in range(max(0, min(n, 64)))]
        if name.startswith('R_'):
            return {srt.accessor(0, i).name().split('__')[0]: to_py(m, srt.accessor(0, i)(v), depth + 1)
                    for i in range(srt.constructor(0).arity())}
    return str(v)


def _cvc5_worker(args):
    name, smt2, timeout_ms, want_model = args
    t0 = time.time()
    text = smt2
    if '(set-logic' not in text:
        text = '(set-logic ALL)\n' + text
    if '(check-sat)' not in text:
        text += '\n(check-sat)\n'
    with tempfile.NamedTemporaryFile('w', suffix='.smt2', delete=False) as f:
        f.write(text)
        path = f.name
    try:
        p = subprocess.run(['/usr/bin/cvc5', '--strings-exp', f'--tlimit={timeout_ms}', path],
                           capture_output=True, text=True, timeout=timeout_ms / 1000 + 10)
        out = p.stdout.strip().split('\n')[0] if p.stdout.strip() else 'unknown'
        if out not in ('sat', 'unsat'):
            out = 'unknown'
    except Exception:
        out = 'unknown'
    finally:
        os.unlink(path)
    return name, out, None, int((time.time() - t0) * 1000), 'cvc5'


def discharge(obls, timeout_ms=10000, workers=None, use_cvc5=True, cvc5_timeout_ms=None):
    """obls: list of Obligation -> dict name -> dict(verdict, backend, ms, model)
    verdict: proved (unsat) / refuted (sat) / unknown"""
    workers = workers or min(16, os.cpu_count() or 4)
    jobs = [(o.name, o.smt2(), timeout_ms, True) for o in obls]
    res = {}
    with ProcessPoolExecutor(max_workers=workers) as ex:
        for name, r, model, ms, be in ex.map(_z3_worker, jobs, chunksize=1):
            res[name] = dict(raw=r, model=model, ms=ms, backend=be)
        if use_cvc5:
            unk = [j for j in jobs if res[j[0]]['raw'] == 'unknown']
            if unk:
                unk = [(n, s, cvc5_timeout_ms or timeout_ms, False) for n, s, _, _ in unk]
                for name, r, model, ms, be in ex.map(_cvc5_worker, unk, chunksize=1):
                    if r != 'unknown':
                        res[name] = dict(raw=r, model=res[name]['model'], ms=res[name]['ms'] + ms, backend=be)
                    else:
                        res[name]['ms'] += ms
    for name, d in res.items():
        d['verdict'] = {'unsat': 'proved', 'sat': 'refuted'}.get(d['raw'], 'unknown')
    return res
