"""pyvc.execute -- statement-level symbolic execution and per-function VC generation."""
import ast
import os
import z3
from .types import *
from .expr import *
from .engine import Engine, State, Contract, Obligation, MUTATORS, _labelled


def assigned_names(stmts, mutating_methods=()):
    """names (re)bound or mutated by a block -- the havoc set of a loop"""
    out = set()
    yields = False
    for s in stmts:
        for n in ast.walk(s):
            if isinstance(n, ast.Name) and isinstance(n.ctx, (ast.Store, ast.Del)):
                out.add(n.id)
            elif isinstance(n, ast.Call) and isinstance(n.func, ast.Attribute) and (n.func.attr in MUTATORS or n.func.attr in mutating_methods):
                b = n.func.value
                while isinstance(b, (ast.Subscript, ast.Attribute)):
                    b = b.value
                if isinstance(b, ast.Name):
                    out.add(b.id)
            elif isinstance(n, (ast.Subscript, ast.Attribute)) and isinstance(n.ctx, (ast.Store, ast.Del)):
                b = n.value
                while isinstance(b, (ast.Subscript, ast.Attribute)):
                    b = b.value
                if isinstance(b, ast.Name):
                    out.add(b.id)
            elif isinstance(n, (ast.Yield, ast.YieldFrom)):
                yields = True
    return out, yields


class _SetKeysTy:
    """adapter: a set seen as the key set of a dict (loop machinery for `for k in some_set`)"""
    def __init__(self, st):
        self.k, self.v, self._st = st.elem, st.elem, st

    def has(self, t):
        return t

    def at(self, t):
        return z3.K(self.k.sort(), z3.Const('dummy!setiter', self.k.sort()))


class _SetAsKeys:
    def __init__(self, v):
        self.t, self.ty = v.t, _SetKeysTy(v.ty)


class Executor(Engine):
    sigs = {}
    side_n = 0

    # ------------------------------------------------------------------ commit an evaluation context
    def commit(self, st, ctx, results):
        """fold recorded assumptions / exceptions / side obligations of ctx into st; exceptional exits are appended
        to results; returns the normal-continuation state (or None if infeasible)"""
        pc = st.pc + ctx.assumes
        for name, guard, goal in ctx.side:
            self.side_n += 1
            self.obl(f'{self.cur.short}#{name}:s{self.side_n}', pc + [guard], goal, 'side', ctx.line)
        prev = []
        for cls, cond, line in ctx.excs:
            if z3.is_false(z3.simplify(cond)):
                continue
            epc = pc + prev + [cond]
            if self.feasible(epc):
                results.append((State(dict(st.env), epc, st.bag, st.old), ('raise', cls, line)))
            prev.append(z3.Not(cond))
        return State(st.env, pc + prev, st.bag, st.old)

    def new_ctx(self, st, line=0):
        return Ctx(st.env, spec=False, old=st.old, engine=self, line=line)

    # ------------------------------------------------------------------ blocks
    def exec_block(self, stmts, st):
        """-> list of (state, outcome); outcome None means fell through"""
        states = [st]
        results = []
        for s in stmts:
            nxt = []
            for cur in states:
                for st2, out in self.exec_stmt(s, cur):
                    if out is None:
                        nxt.append(st2)
                    else:
                        results.append((st2, out))
            states = nxt
            if not states:
                break
        return results + [(s_, None) for s_ in states]

    def exec_with_checkpoints(self, stmts, st, c, old):
        """the function body with CHECKPOINTS: contract key `checkpoints` = {text: [(label, expr), ..]}; after the top-level statement whose
        first source line contains `text`, each expr (locals visible, parameters at their entry values) is PROVED in every state that
        falls through (obligation #at[label]) and then assumed -- a cut that hands the solver the argument one link at a time"""
        cps = c.d['checkpoints']
        used = set()
        states = [st]
        results = []
        for s in stmts:
            nxt = []
            for cur in states:
                for st2, out in self.exec_stmt(s, cur):
                    if out is None:
                        nxt.append(st2)
                    else:
                        results.append((st2, out))
            states = nxt
            head = ast.unparse(s).split('\n')[0]
            for key, lems in cps.items():
                if key in head:
                    if key in used:
                        raise RuntimeError(f'checkpoint text {key!r} matches several statements of {c.short}')
                    used.add(key)
                    new_states = []
                    for i_, cur in enumerate(states):
                        env3 = dict(cur.env)
                        for p_ in old:
                            env3[p_] = old[p_]
                        pc2 = list(cur.pc)
                        for lem in lems:
                            lab, text = lem[0], lem[1]
                            opts = lem[2] if len(lem) > 2 else {}
                            g, a = self.spec_bool(text, env3, old=old, ghosts=c.ghost_vals)
                            hyps = pc2 + a
                            if opts.get('only_about'):
                                # proof engineering only (DROPPING hypotheses is always sound): keep the closed formulas (axioms) and
                                # the facts that mention one of the named locals
                                keep = set()
                                for nm in opts['only_about']:
                                    v_ = env3.get(nm)
                                    if v_ is not None:
                                        keep |= _consts_of(v_.t)
                                for _hop in range(opts.get('hops', 2) - 1):     # ... or a local-free constant of such a fact
                                    for h in hyps:
                                        ch = _consts_of(h)
                                        if ch & keep and len(ch) <= 6:
                                            keep = keep | ch
                                hyps = [h for h in hyps if not _consts_of(h) or (_consts_of(h) & keep)]
                            self.obl(f'{c.short}#at[{lab}]@{s.end_lineno}:s{i_}', hyps, g, 'lemma', s.end_lineno)
                            pc2 = pc2 + a + [g]
                        new_states.append(State(cur.env, pc2, cur.bag, cur.old))
                    states = new_states
            if not states:
                break
        missing = set(cps) - used
        if missing and states:
            raise RuntimeError(f'checkpoint text not found in {c.short}: {sorted(missing)}')
        return results + [(s_, None) for s_ in states]

    def exec_stmt(self, s, st):
        m = getattr(self, 'st_' + type(s).__name__, None)
        if m is None:
            raise OutOfSubset(f'statement {type(s).__name__} at line {s.lineno}')
        return m(s, st)

    # ------------------------------------------------------------------ simple statements
    def st_Pass(self, s, st):
        return [(st, None)]

    def st_Expr(self, s, st):
        v = s.value
        if isinstance(v, ast.Constant):
            return [(st, None)]
        if isinstance(v, ast.Yield):
            return self.do_yield(v, st)
        if isinstance(v, ast.YieldFrom):
            return self.do_yield_from(v, st)
        if isinstance(v, ast.Call) and isinstance(v.func, ast.Attribute):
            if v.func.attr in MUTATORS:
                return self.do_mutation(v, st, s.lineno)
            if ast.unparse(v.func) in ('warnings.warn', 'super().__init__'):
                # dropped by extraction: warnings; the base-class initialiser of an exception (stores the message)
                results = []
                ctx = self.new_ctx(st, s.lineno)
                for a_ in v.args:
                    if not isinstance(a_, ast.Starred):
                        self.ev.ev(a_, ctx)
                st2 = self.commit(st, ctx, results)
                return results + [(st2, None)]
        results = []
        ctx = self.new_ctx(st, s.lineno)
        self.ev.ev(v, ctx)
        st2 = self.commit(st, ctx, results)
        return results + [(st2, None)]

    def st_Assign(self, s, st):
        results = []
        ctx = self.new_ctx(st, s.lineno)
        self.hint_literal(s.value, s.targets[0])
        t0 = s.targets[0]
        if isinstance(t0, ast.Attribute) and isinstance(t0.value, ast.Name) and isinstance(s.value, (ast.Dict, ast.List)) \
                and isinstance(getattr(st.env.get(t0.value.id), 'ty', None), TRec) and t0.attr in st.env[t0.value.id].ty.fields:
            # x.field = {} / []: the empty literal has the field's declared type
            fty = st.env[t0.value.id].ty.fields[t0.attr]
            if isinstance(fty, TOpt):
                fty = fty.inner
            if isinstance(fty, TDict):
                s.value._dict_ty = fty
            if isinstance(fty, (TList, TSet)):
                s.value._elem_ty = fty.elem
        v_ = s.value
        if isinstance(v_, ast.Lambda) and len(s.targets) == 1 and isinstance(s.targets[0], ast.Name):
            # name = lambda ..: kept as syntax; a later call name(args) is the body with the parameters bound
            st2 = st.fork()
            st2.env['__lambda__' + s.targets[0].id] = v_
            return [(st2, None)]
        if isinstance(v_, ast.Call) and isinstance(v_.func, ast.Attribute) and v_.func.attr == 'pop' and len(v_.args) == 1 \
                and not v_.keywords and isinstance(v_.func.value, ast.Name) and v_.func.value.id in st.env \
                and isinstance(st.env[v_.func.value.id].ty, TDict):
            # x = d.pop(k): the value at k (KeyError if absent), and d loses k -- before the store to x happens
            nm = v_.func.value.id
            d = st.env[nm]
            k = coerce(self.ev.ev(v_.args[0], ctx), d.ty.k)
            ctx.exc('KeyError', z3.Not(z3.Select(d.ty.has(d.t), k.t)))
            val = V(d.ty.v, z3.Select(d.ty.at(d.t), k.t))
            st2 = self.commit(st, ctx, results).fork()
            st2.env[nm] = V(d.ty, d.ty.mk(z3.Store(d.ty.has(d.t), k.t, False), d.ty.at(d.t)))
            for tgt in s.targets:
                r = self.assign(tgt, val, st2, results, s.lineno)
                if r is None:
                    return results
                st2 = r
            return results + [(st2, None)]
        uz = self.unzip_sorted_pairs(s, ctx)
        if uz is not None:
            a_, b_ = uz
            st2 = self.commit(st, ctx, results).fork()
            st2.env[s.targets[0].elts[0].id] = a_
            st2.env[s.targets[0].elts[1].id] = b_
            return results + [(st2, None)]
        val = self.ev.ev(s.value, ctx)
        st2 = self.commit(st, ctx, results).fork()
        for tgt in s.targets:
            r = self.assign(tgt, val, st2, results, s.lineno)
            if r is None:
                return results
            st2 = r
        return results + [(st2, None)]

    def unzip_sorted_pairs(self, s, ctx):
        """a, b = zip(*sorted(zip(A, B), key=lambda x: x[0])): two sequences of the common length; when A is already in non-decreasing
        order and the lengths agree they ARE A and B (LC-SORT-STABLE); an empty zip raises ValueError (nothing to unpack)"""
        v = s.value
        if not (len(s.targets) == 1 and isinstance(s.targets[0], ast.Tuple) and len(s.targets[0].elts) == 2
                and all(isinstance(e, ast.Name) for e in s.targets[0].elts)
                and isinstance(v, ast.Call) and isinstance(v.func, ast.Name) and v.func.id == 'zip' and len(v.args) == 1
                and isinstance(v.args[0], ast.Starred)):
            return None
        inner = v.args[0].value
        if not (isinstance(inner, ast.Call) and isinstance(inner.func, ast.Name) and inner.func.id == 'sorted' and len(inner.args) == 1
                and len(inner.keywords) == 1 and inner.keywords[0].arg == 'key' and isinstance(inner.keywords[0].value, ast.Lambda)
                and ast.unparse(inner.keywords[0].value.body) == inner.keywords[0].value.args.args[0].arg + '[0]'):
            return None
        z = inner.args[0]
        if not (isinstance(z, ast.Call) and isinstance(z.func, ast.Name) and z.func.id == 'zip' and len(z.args) == 2):
            return None
        A = self.ev.unwrap_opt(self.ev.ev(z.args[0], ctx), ctx)
        B = self.ev.unwrap_opt(self.ev.ev(z.args[1], ctx), ctx)
        if not (isinstance(A.ty, TList) and isinstance(B.ty, TList) and is_num(V(A.ty.elem, z3.Select(A.ty.arr(A.t), 0)))):
            raise OutOfSubset('zip(*sorted(zip(a, b), key=first)) on non-lists')
        la, lb = A.ty.n(A.t), B.ty.n(B.t)
        m = z3.If(la <= lb, la, lb)
        ctx.exc('ValueError', m == 0)
        ra, rb = fresh('unzipA', A.ty.sort()), fresh('unzipB', B.ty.sort())
        j, k = z3.Int('j!uz'), z3.Int('k!uz')
        in_order = z3.ForAll([j, k], z3.Implies(z3.And(0 <= j, j <= k, k < la),
                                                to_real(V(A.ty.elem, z3.Select(A.ty.arr(A.t), j))) <= to_real(V(A.ty.elem, z3.Select(A.ty.arr(A.t), k)))))
        ctx.assume(A.ty.n(ra) == m)
        ctx.assume(B.ty.n(rb) == m)
        ctx.assume(z3.Implies(z3.And(in_order, la == lb), z3.And(ra == A.t, rb == B.t)))
        self.libs_used.add('LC-SORT-STABLE: zip(*sorted(zip(a, b), key=first)) gives two sequences of the common length, which ARE a and b when a is '
                           'already in non-decreasing order and the lengths agree (stable sort); the permutation otherwise is not modelled')
        return V(A.ty, ra), V(B.ty, rb)

    def hint_literal(self, value, target):
        """element type of an empty list/set literal from the contract's `locals`"""
        if isinstance(target, ast.Name) and target.id in self.cur.locals:
            ty = self.cur.ty(self.cur.locals[target.id])
            if isinstance(ty, (TList, TSet)):
                value._elem_ty = ty.elem
            if isinstance(ty, TBag):
                value._elem_ty = ty.elem
                if isinstance(value, ast.ListComp):
                    value._as_bag = True     # the list is only ever used as a multiset (contract `locals`): exact multiplicities
            if isinstance(ty, TDict):
                value._dict_ty = ty
                if isinstance(value, ast.IfExp):        # x = {..} if c else {}: both arms are dictionaries of the declared type
                    for arm in (value.body, value.orelse):
                        if isinstance(arm, ast.Dict):
                            arm._dict_ty = ty
            if isinstance(ty, TOpt) and isinstance(ty.inner, TDict):
                value._dict_ty = ty.inner
            if isinstance(ty, TOpt) and isinstance(ty.inner, (TList, TSet)):
                value._elem_ty = ty.inner.elem
            if isinstance(ty, TTuple) or (isinstance(ty, TOpt) and isinstance(ty.inner, TTuple)):
                value._as_tuple = True

    def st_AnnAssign(self, s, st):
        if s.value is None:
            return [(st, None)]
        fake = ast.Assign(targets=[s.target], value=s.value, lineno=s.lineno)
        return self.st_Assign(fake, st)

    def assign(self, tgt, val, st, results, line):
        if isinstance(tgt, ast.Name):
            if tgt.id in self.cur.locals:
                try:
                    val = coerce(val, self.cur.ty(self.cur.locals[tgt.id]))
                except OutOfSubset:
                    pass      # the variable is re-bound to a value of another type (`xs = sorted(xs)`): the hint was for its first use
            st.env[tgt.id] = val
            return st
        if isinstance(tgt, (ast.Tuple, ast.List)):
            if not isinstance(val.ty, TTuple) or len(val.ty.elems) != len(tgt.elts):
                raise OutOfSubset(f'unpacking {val.ty} at line {line}')
            for t, p in zip(tgt.elts, tuple_parts(val)):
                st = self.assign(t, p, st, results, line)
            return st
        if isinstance(tgt, ast.Attribute) and isinstance(tgt.value, ast.Name):
            name = tgt.value.id
            base = st.env[name]
            if isinstance(base.ty, TRec) and tgt.attr in base.ty.fields:
                rt = base.ty
                terms = [coerce(val, fty).t if f == tgt.attr else rt.get(f, base.t) for f, fty in rt.fields.items()]
                st.env[name] = V(rt, rt.mk(*terms))
                return st
            q = self.method_qual(base.ty, tgt.attr + '.setter') if isinstance(base.ty, TRec) else None
            if q:
                # `x.prop = v` on a property: a call of the setter, checked against the setter's contract (which mutates x)
                ctx = self.new_ctx(st, line)
                self.call_bound(q, [('self', base)], [val], {}, ctx, line, writeback={'self': name})
                return self.commit(st, ctx, results)
            raise OutOfSubset(f'attribute store {ast.unparse(tgt)} at line {line} (no field and no setter contract)')
        if isinstance(tgt, ast.Subscript) and isinstance(tgt.value, ast.Name) and isinstance(tgt.slice, ast.Slice):
            name = tgt.value.id
            base = st.env[name]
            if not isinstance(base.ty, TList) or not isinstance(val.ty, TList) or tgt.slice.step is not None:
                raise OutOfSubset(f'slice assignment at line {line}')
            ctx = self.new_ctx(st, line)
            lt = base.ty
            n = list_len(base)
            sl = tgt.slice
            lo = z3.IntVal(0) if sl.lower is None else clamp_index(to_int(self.ev.unwrap_opt(self.ev.ev(sl.lower, ctx), ctx)), n)
            hi = n if sl.upper is None else clamp_index(to_int(self.ev.unwrap_opt(self.ev.ev(sl.upper, ctx), ctx)), n)
            hi = z3.If(hi < lo, lo, hi)
            m = list_len(val)
            r = fresh('sliceasg', lt.sort())
            k = fresh('k', z3.IntSort())
            ra, ba, va = lt.arr(r), lt.arr(base.t), val.ty.arr(val.t)
            ctx.assume(lt.n(r) == n - (hi - lo) + m)
            ctx.assume(z3.ForAll([k], z3.Implies(z3.And(0 <= k, k < lo), z3.Select(ra, k) == z3.Select(ba, k))))
            ctx.assume(z3.ForAll([k], z3.Implies(z3.And(lo <= k, k < lo + m),
                                                 z3.Select(ra, k) == coerce(V(val.ty.elem, z3.Select(va, k - lo)), lt.elem).t)))
            ctx.assume(z3.ForAll([k], z3.Implies(z3.And(lo + m <= k, k < n - (hi - lo) + m),
                                                 z3.Select(ra, k) == z3.Select(ba, k - m + (hi - lo)))))
            st2 = self.commit(st, ctx, results).fork()
            st2.env[name] = V(lt, r)
            return st2
        if isinstance(tgt, ast.Subscript) and isinstance(tgt.value, ast.Name):
            name = tgt.value.id
            base = st.env[name]
            ctx = self.new_ctx(st, line)
            idx = self.ev.ev(tgt.slice, ctx)
            if isinstance(base.ty, TList):
                i = to_int(idx)
                n = list_len(base)
                ctx.exc('IndexError', z3.Or(i >= n, i < -n))
                j = z3.If(i < 0, i + n, i)
                st2 = self.commit(st, ctx, results).fork()
                lt = base.ty
                st2.env[name] = V(lt, lt.mk(z3.Store(lt.arr(base.t), j, coerce(val, lt.elem).t), n))
                return st2
            tb = base
            if isinstance(tb.ty, TOpt) and isinstance(tb.ty.inner, TTuple):
                ctx.exc('TypeError', tb.ty.is_none(tb.t))
                tb = V(tb.ty.inner, tb.ty.val(tb.t))
            if isinstance(tb.ty, TTuple):
                it = z3.simplify(to_int(idx))
                if not z3.is_int_value(it) or not (0 <= it.as_long() < len(tb.ty.elems)):
                    raise OutOfSubset(f'store into a fixed-shape list at a non-constant index (line {line})')
                parts = tuple_parts(tb)
                parts[it.as_long()] = coerce(val, tb.ty.elems[it.as_long()])
                st2 = self.commit(st, ctx, results).fork()
                st2.env[name] = coerce(mk_tuple(parts), base.ty)
                return st2
            obase = base
            if isinstance(base.ty, TOpt) and isinstance(base.ty.inner, TDict):
                ctx.exc('TypeError', base.ty.is_none(base.t))
                base = V(base.ty.inner, base.ty.val(base.t))
            if isinstance(base.ty, TDict):
                dt = base.ty
                k = coerce(idx, dt.k)
                st2 = self.commit(st, ctx, results).fork()
                newd = V(dt, dt.mk(z3.Store(dt.has(base.t), k.t, True),
                                   z3.Store(dt.at(base.t), k.t, coerce(val, dt.v).t)))
                st2.env[name] = coerce(newd, obase.ty)
                return st2
        if isinstance(tgt, ast.Subscript) and isinstance(tgt.value, ast.Attribute) and isinstance(tgt.value.value, ast.Name) \
                and self.field_of(st.env.get(tgt.value.value.id), tgt.value.attr):
            # x.field[k] = v on a dictionary-valued (possibly Optional) record field (or on the property that IS that field)
            name, fld = tgt.value.value.id, self.field_of(st.env.get(tgt.value.value.id), tgt.value.attr)
            owner = st.env[name]
            fty = owner.ty.fields[fld]
            base = V(fty, owner.ty.get(fld, owner.t))
            ctx = self.new_ctx(st, line)
            idx = self.ev.ev(tgt.slice, ctx)
            inner = base
            if isinstance(fty, TOpt) and isinstance(fty.inner, TDict):
                ctx.exc('TypeError', fty.is_none(base.t))
                inner = V(fty.inner, fty.val(base.t))
            if isinstance(inner.ty, TDict):
                dt = inner.ty
                k = coerce(idx, dt.k)
                newd = V(dt, dt.mk(z3.Store(dt.has(inner.t), k.t, True), z3.Store(dt.at(inner.t), k.t, coerce(val, dt.v).t)))
                st2 = self.commit(st, ctx, results).fork()
                st2.env[name] = V(owner.ty, owner.ty.set(fld, owner.t, coerce(newd, fty).t))
                return st2
        raise OutOfSubset(f'assignment target {ast.unparse(tgt)} at line {line}')

    def st_Delete(self, s, st):
        """del d[k] on a dict variable: KeyError if absent, otherwise the key is removed"""
        results = []
        for tgt in s.targets:
            if not (isinstance(tgt, ast.Subscript) and isinstance(tgt.value, ast.Name) and not isinstance(tgt.slice, ast.Slice)):
                raise OutOfSubset(f'del {ast.unparse(tgt)} at line {s.lineno}')
            name = tgt.value.id
            ctx = self.new_ctx(st, s.lineno)
            base = self.ev.unwrap_opt(st.env[name], ctx)
            if not isinstance(base.ty, TDict):
                raise OutOfSubset(f'del on {base.ty} at line {s.lineno}')
            dt = base.ty
            k = coerce(self.ev.ev(tgt.slice, ctx), dt.k)
            ctx.exc('KeyError', z3.Not(z3.Select(dt.has(base.t), k.t)))
            st = self.commit(st, ctx, results).fork()
            st.env[name] = coerce(V(dt, dt.mk(z3.Store(dt.has(base.t), k.t, False), dt.at(base.t))), st.env[name].ty)
        return results + [(st, None)]

    def st_AugAssign(self, s, st):
        load = copy_load(s.target)
        fake = ast.Assign(targets=[s.target], value=ast.BinOp(left=load, op=s.op, right=s.value, lineno=s.lineno,
                                                              col_offset=0), lineno=s.lineno)
        ast.fix_missing_locations(fake)
        return self.st_Assign(fake, st)

    def do_mutation(self, call, st, line):
        results = []
        ctx = self.new_ctx(st, line)
        recv = call.func.value
        meth = call.func.attr
        if meth == 'append' and isinstance(recv, ast.Call) and isinstance(recv.func, ast.Attribute) and recv.func.attr == 'setdefault' \
                and isinstance(recv.func.value, ast.Name) and len(recv.args) == 2 and isinstance(recv.args[1], ast.List) \
                and not recv.args[1].elts and recv.func.value.id in st.env and isinstance(st.env[recv.func.value.id].ty, TDict) \
                and isinstance(st.env[recv.func.value.id].ty.v, TList):
            # d.setdefault(k, []).append(x): d[k] becomes (d[k] if k in d else []) + [x]
            nm = recv.func.value.id
            d = st.env[nm]
            dt = d.ty
            k = coerce(self.ev.ev(recv.args[0], ctx), dt.k)
            x = coerce(self.ev.ev(call.args[0], ctx), dt.v.elem)
            lt = dt.v
            has = z3.Select(dt.has(d.t), k.t)
            oldl = z3.Select(dt.at(d.t), k.t)
            n_old = z3.If(has, lt.n(oldl), z3.IntVal(0))
            newl = lt.mk(z3.Store(lt.arr(oldl), n_old, x.t), n_old + 1)
            st2 = self.commit(st, ctx, results).fork()
            st2.env[nm] = V(dt, dt.mk(z3.Store(dt.has(d.t), k.t, True), z3.Store(dt.at(d.t), k.t, newl)))
            return results + [(st2, None)]
        if meth == 'extend' and isinstance(recv, ast.Subscript) and isinstance(recv.value, ast.Attribute) and isinstance(recv.value.value, ast.Name) \
                and self.field_of(st.env.get(recv.value.value.id), recv.value.attr) and len(call.args) == 1:
            # x.field[k].extend(L) on a record field holding a dictionary of opaque lists: the entry at k becomes CAT(entry, L)
            name, fld = recv.value.value.id, self.field_of(st.env.get(recv.value.value.id), recv.value.attr)
            owner = st.env[name]
            fty = owner.ty.fields[fld]
            base = V(fty, owner.ty.get(fld, owner.t))
            inner = base
            if isinstance(fty, TOpt) and isinstance(fty.inner, TDict):
                ctx.exc('TypeError', fty.is_none(base.t))
                inner = V(fty.inner, fty.val(base.t))
            if isinstance(inner.ty, TDict) and isinstance(inner.ty.v, TAbs) and inner.ty.v.name in getattr(self, 'opaque_lists', ()):
                dt = inner.ty
                k = coerce(self.ev.ev(recv.slice, ctx), dt.k)
                arg = self.ev.ev(call.args[0], ctx)
                if arg.ty != dt.v:
                    raise OutOfSubset(f'.extend argument {arg.ty} at line {line}')
                ctx.exc('KeyError', z3.Not(z3.Select(dt.has(inner.t), k.t)))
                cat = z3.Function('spec_CAT_' + dt.v.name, dt.v.sort(), dt.v.sort(), dt.v.sort())
                newd = V(dt, dt.mk(dt.has(inner.t), z3.Store(dt.at(inner.t), k.t, cat(z3.Select(dt.at(inner.t), k.t), arg.t))))
                st2 = self.commit(st, ctx, results).fork()
                st2.env[name] = V(owner.ty, owner.ty.set(fld, owner.t, coerce(newd, fty).t))
                return results + [(st2, None)]
        field = None
        if isinstance(recv, ast.Attribute) and isinstance(recv.value, ast.Name) and recv.value.id in st.env \
                and isinstance(st.env[recv.value.id].ty, TRec) and recv.attr in st.env[recv.value.id].ty.fields:
            field = recv.attr
            recv = recv.value
        elif isinstance(recv, ast.Attribute) and isinstance(recv.value, ast.Name) and recv.value.id in st.env \
                and isinstance(st.env[recv.value.id].ty, TRec) and ('_' + recv.attr) in st.env[recv.value.id].ty.fields \
                and self.method_qual(st.env[recv.value.id].ty, recv.attr) \
                and self.contracts[self.method_qual(st.env[recv.value.id].ty, recv.attr)].d.get('property'):
            # x.prop.extend(..) where the read-only property `prop` returns the field `_prop` itself (its accessor contract says so): the
            # mutation edits that field of x
            field = '_' + recv.attr
            recv = recv.value
        if not isinstance(recv, ast.Name):
            raise OutOfSubset(f'mutation of non-name {ast.unparse(recv)} at line {line}')
        name = recv.id
        if st.env.get(name) is None:
            raise OutOfSubset(f'mutation of unbound {name}')
        args = [self.ev.ev(a, ctx) for a in call.args]      # (may edit the receiver through mutating callees: read it afterwards)
        owner = ctx.env[name]
        base = owner if field is None else V(owner.ty.fields[field], owner.ty.get(field, owner.t))
        new = None
        obase = base
        if isinstance(base.ty, TOpt) and (isinstance(base.ty.inner, (TList, TSet, TBag, TDict)) or
                                         (isinstance(base.ty.inner, TAbs) and base.ty.inner.name in getattr(self, 'opaque_lists', ()))):
            ctx.exc('AttributeError', base.ty.is_none(base.t))
            base = V(base.ty.inner, base.ty.val(base.t))
        if isinstance(base.ty, TList):
            lt = base.ty
            arr, n = lt.arr(base.t), lt.n(base.t)
            if meth == 'append':
                xa = coerce(args[0], lt.elem).t
                new = V(lt, lt.mk(z3.Store(arr, n, xa), n + 1))
                et = lt.elem
                # (not for lists of strings: a quantifier over all strings with string equalities only slows the sequence solver down,
                #  and no function under contract asks `text in list_of_texts` after appending)
                if et in (INT, BOOL) or isinstance(et, (TRec, TTuple, TAbs)):
                    # membership after append (a fact about `in`, stated for the Skolemised form used by expr.member)
                    y = V(et, fresh('y', et.sort()))
                    c3 = Ctx(st.env, spec=True, engine=self)
                    m_new = self.ev.member(y, new, c3)
                    m_old = self.ev.member(y, base, c3)
                    for a_ in c3.assumes:
                        ctx.assume(a_)
                    ctx.assume(z3.ForAll([y.t], m_new == z3.Or(m_old, y.t == xa)))
                for fold in getattr(self, 'prefix_folds', []):
                    # an INSTANCE of the module's inductive lemma "<fold> reads only its prefix" at (new list, old list): stated so
                    # that the solver does not have to find the instantiation itself
                    argtys, _ = self.funcs[fold]
                    if parse_type(argtys[0], self.aliases) == lt:
                        g_, a_ = self.spec_bool(f'forall(lambda k: implies(k >= 0, implies(forall(lambda j: implies(0 <= j and j < k, '
                                                f'A_[j] == B_[j])), {fold}(A_, k) == {fold}(B_, k))))', {'A_': new, 'B_': base})
                        for x_ in a_:
                            ctx.assume(x_)
                        ctx.assume(g_)
            elif meth == 'extend' and isinstance(args[0].ty, TList):
                new = self.ev.list_concat(base, args[0], ctx)
                new = V(lt, new.t) if new.ty == lt else new
        elif isinstance(base.ty, TBag):
            bt = base.ty
            if meth == 'append':
                x = coerce(args[0], bt.elem).t
                new = V(bt, z3.Store(base.t, x, z3.Select(base.t, x) + 1))
            elif meth == 'extend' and isinstance(args[0].ty, TBag):
                new = self.bag_union(base, args[0], ctx)
        elif isinstance(base.ty, TAbs) and base.ty.name in getattr(self, 'opaque_lists', ()):
            if meth == 'extend' and isinstance(args[0].ty, TOpt) and args[0].ty.inner == base.ty:
                ctx.exc('TypeError', args[0].ty.is_none(args[0].t))       # list.extend(None)
                args[0] = V(base.ty, args[0].ty.val(args[0].t))
            if meth == 'extend' and args[0].ty == base.ty:
                # an opaque list extended by another: CAT(a, b), a function of the two values (only its items view is ever inspected)
                cat = z3.Function('spec_CAT_' + base.ty.name, base.ty.sort(), base.ty.sort(), base.ty.sort())   # = the spec function CAT_<type> of the contract module
                new = V(base.ty, cat(base.t, args[0].t))
        elif isinstance(base.ty, TDict):
            dt = base.ty
            if meth == 'pop' and len(args) in (1, 2):
                # d.pop(k[, default]) as a statement: d loses k (KeyError without a default when k is absent)
                k_ = coerce(args[0], dt.k).t
                if len(args) == 1:
                    ctx.exc('KeyError', z3.Not(z3.Select(dt.has(base.t), k_)))
                new = V(dt, dt.mk(z3.Store(dt.has(base.t), k_, False), dt.at(base.t)))
            if meth == 'setdefault' and len(args) == 2:
                # d.setdefault(k, v) as a statement: d[k] = v unless k is already a key
                k_ = coerce(args[0], dt.k).t
                v_ = coerce(args[1], dt.v).t
                has_ = z3.Select(dt.has(base.t), k_)
                new = V(dt, dt.mk(z3.Store(dt.has(base.t), k_, True),
                                  z3.If(has_, dt.at(base.t), z3.Store(dt.at(base.t), k_, v_))))
        elif isinstance(base.ty, TSet):
            stt = base.ty
            if meth == 'add':
                new = V(stt, z3.Store(base.t, coerce(args[0], stt.elem).t, True))
            elif meth == 'update':
                src = args[0]
                r = fresh('upd', stt.sort())
                t = fresh('t', stt.elem.sort())
                if isinstance(src.ty, TBag):
                    ctx.assume(z3.ForAll([t], z3.Select(r, t) == z3.Or(z3.Select(base.t, t), z3.Select(src.t, t) > 0)))
                elif isinstance(src.ty, TSet):
                    ctx.assume(z3.ForAll([t], z3.Select(r, t) == z3.Or(z3.Select(base.t, t), z3.Select(src.t, t))))
                else:
                    raise OutOfSubset('set.update source')
                new = V(stt, r)
        if new is None:
            raise OutOfSubset(f'.{meth} on {base.ty} at line {line}')
        st2 = self.commit(st, ctx, results).fork()
        newv = coerce(new, obase.ty) if obase is not base else new
        if field is None:
            st2.env[name] = newv
        else:
            rt = owner.ty
            terms = [coerce(newv, fty).t if f_ == field else rt.get(f_, owner.t) for f_, fty in rt.fields.items()]
            st2.env[name] = V(rt, rt.mk(*terms))
        return results + [(st2, None)]

    def bag_union(self, a, b, ctx):
        bt = a.ty
        r = fresh('bagsum', bt.sort())
        t = fresh('t', bt.elem.sort())
        ctx.assume(z3.ForAll([t], z3.Select(r, t) == z3.Select(a.t, t) + z3.Select(b.t, t)))
        return V(bt, r)

    # ------------------------------------------------------------------ yields
    def do_yield(self, y, st):
        results = []
        ctx = self.new_ctx(st, y.lineno)
        v = self.ev.ev(y.value, ctx)
        st2 = self.commit(st, ctx, results).fork()
        bt = self.cur.bag_ty
        x = coerce(v, bt.elem).t
        if isinstance(bt, TList):
            # generator whose ORDER matters (contract `returns` is a List): the yielded values in order
            st2.bag = bt.mk(z3.Store(bt.arr(st2.bag), bt.n(st2.bag), x), bt.n(st2.bag) + 1)
        else:
            st2.bag = z3.Store(st2.bag, x, z3.Select(st2.bag, x) + 1)
        return results + [(st2, None)]

    def do_yield_from(self, y, st):
        results = []
        ctx = self.new_ctx(st, y.lineno)
        v = self.ev.ev(y.value, ctx)
        bt = self.cur.bag_ty
        if isinstance(bt, TList) and isinstance(v.ty, TList):
            new = self.ev.list_concat(V(bt, st.bag), v, ctx)
            st2 = self.commit(st, ctx, results).fork()
            st2.bag = coerce(new, bt).t if new.ty != bt else new.t
            return results + [(st2, None)]
        if not isinstance(v.ty, TBag):
            raise OutOfSubset(f'yield from {v.ty}')
        new = self.bag_union(V(bt, st.bag), v, ctx)
        st2 = self.commit(st, ctx, results).fork()
        st2.bag = new.t
        return results + [(st2, None)]

    # ------------------------------------------------------------------ control flow
    def st_Return(self, s, st):
        results = []
        if s.value is None:
            return [(st, ('return', mk_none()))]
        ctx = self.new_ctx(st, s.lineno)
        if isinstance(s.value, ast.Dict) and not s.value.keys:
            # `return {}`: the empty dictionary of the contract's return type
            rty_ = self.cur.ty(self.cur.returns)
            if isinstance(rty_, TOpt):
                rty_ = rty_.inner
            if isinstance(rty_, TDict):
                s.value._dict_ty = rty_
        v = self.ev.ev(s.value, ctx)
        st2 = self.commit(st, ctx, results)
        return results + [(st2, ('return', v, s.lineno))]

    def st_Raise(self, s, st):
        if s.exc is None:
            return [(st, ('raise', st.env.get('__caught__', 'Exception'), s.lineno))]
        e = s.exc
        cls = e.func.id if isinstance(e, ast.Call) and isinstance(e.func, ast.Name) else \
            (e.id if isinstance(e, ast.Name) else None)
        if cls is None:
            raise OutOfSubset('raise form')
        return [(st, ('raise', cls, s.lineno))]

    def st_Break(self, s, st):
        return [(st, ('break',))]

    def st_Continue(self, s, st):
        return [(st, ('continue',))]

    def field_of(self, owner, attr):
        """the record field an attribute denotes: the field itself, or -- for a read-only property whose accessor contract says it IS the
        field `_<attr>` -- that field"""
        if not isinstance(getattr(owner, 'ty', None), TRec):
            return None
        if attr in owner.ty.fields:
            return attr
        q = self.method_qual(owner.ty, attr)
        if ('_' + attr) in owner.ty.fields and q and self.contracts[q].d.get('property'):
            return '_' + attr
        return None

    def narrow_union(self, test, br):
        """`if isinstance(x, int|float|str):` on a union-typed local (record with a kind tag and the payload fields i / f / s): inside the
        branch x IS the payload of that kind"""
        if not (isinstance(test, ast.Call) and isinstance(test.func, ast.Name) and test.func.id == 'isinstance' and len(test.args) == 2
                and isinstance(test.args[0], ast.Name) and isinstance(test.args[1], ast.Name)):
            return
        nm, tn = test.args[0].id, test.args[1].id
        v = br.env.get(nm)
        if v is None or not isinstance(getattr(v, 'ty', None), TRec) or v.ty.name not in self.unions:
            return
        field, ty = {'int': ('i', INT), 'float': ('f', REAL), 'str': ('s', STR)}.get(tn, (None, None))
        if field and field in v.ty.fields and v.ty.fields[field] == ty:
            br.env[nm] = V(ty, v.ty.get(field, v.t))

    def st_If(self, s, st):
        results = []
        ctx = self.new_ctx(st, s.lineno)
        c = truthy(self.ev.ev(s.test, ctx))
        st2 = self.commit(st, ctx, results)
        out = list(results)
        # `if c: x = e` (no else, no possible exception in e): merged as x = ite(c, e, x) instead of forking the path
        if not s.orelse and len(s.body) == 1 and isinstance(s.body[0], ast.Assign) and len(s.body[0].targets) == 1 \
                and isinstance(s.body[0].targets[0], ast.Name) and s.body[0].targets[0].id in st2.env \
                and not (isinstance(s.body[0].value, ast.Constant) and s.body[0].value.value is None) \
                and not z3.is_false(z3.simplify(c)) and not z3.is_true(z3.simplify(c)):
            nm = s.body[0].targets[0].id
            c2 = Ctx(st2.env, spec=False, old=st2.old, engine=self, line=s.lineno)
            c2.guards.append(c)
            try:
                self.hint_literal(s.body[0].value, s.body[0].targets[0])
                val = self.ev.ev(s.body[0].value, c2)
                if not c2.excs and not c2.side:
                    oldv = st2.env[nm]
                    if nm in self.cur.locals:
                        val = coerce(val, self.cur.ty(self.cur.locals[nm]))
                    ty = join_types(val.ty, oldv.ty)
                    st3 = State(dict(st2.env), st2.pc + c2.assumes, st2.bag, st2.old)
                    st3.env[nm] = V(ty, z3.If(c, coerce(val, ty).t, coerce(oldv, ty).t))
                    return out + [(st3, None)]
            except OutOfSubset:
                pass
        falls = []
        for cond, block in ((c, s.body), (z3.Not(c), s.orelse)):
            cs = z3.simplify(cond)
            if z3.is_false(cs):
                continue
            br = st2.fork([cond])
            if not self.feasible(br.pc):
                continue
            if cond is c:
                self.narrow_union(s.test, br)
            res_ = self.exec_block(block, br) if block else [(br, None)]
            for st_, o_ in res_:
                if o_ is None:
                    falls.append((cond, st_))
                else:
                    out.append((st_, o_))
        if self.cur.d.get('merge_ifs') and len(falls) == 2 and falls[0][0] is c:
            merged = self.merge_states(st2, c, falls[0][1], falls[1][1])
            if merged is not None:
                return out + [(merged, None)]
        return out + [(st_, None) for _, st_ in falls]

    def merge_states(self, base, c, a, b):
        """join of the two fall-through states of `if c: .. else: ..` (contract option merge_ifs): variables become ite(c, then, else),
        the path condition keeps the common prefix and the two branch suffixes under c / not c.  Exact (no information lost)."""
        n0 = len(base.pc)
        if a.pc[:n0] != base.pc or b.pc[:n0] != base.pc:
            return None
        env = {}
        for k in set(a.env) | set(b.env):
            if k not in a.env or k not in b.env:
                continue          # bound on one side only: unusable afterwards (a later read is an unbound name)
            va, vb = a.env[k], b.env[k]
            if va is vb or (va.ty == vb.ty and va.t.eq(vb.t)):
                env[k] = va
                continue
            try:
                ty = join_types(va.ty, vb.ty)
                env[k] = V(ty, z3.If(c, coerce(va, ty).t, coerce(vb, ty).t))
            except OutOfSubset:
                return None
        ea, eb = a.pc[n0 + 1:], b.pc[n0 + 1:]          # (position n0 holds c / not c)
        pc = list(base.pc)
        if ea:
            pc.append(z3.Implies(c, z3.And(*ea)))
        if eb:
            pc.append(z3.Implies(z3.Not(c), z3.And(*eb)))
        bag = a.bag
        if a.bag is not None and b.bag is not None and not a.bag.eq(b.bag):
            bag = z3.If(c, a.bag, b.bag)
        return State(env, pc, bag, base.old)

    def st_Assert(self, s, st):
        results = []
        ctx = self.new_ctx(st, s.lineno)
        c = truthy(self.ev.ev(s.test, ctx))
        st2 = self.commit(st, ctx, results)
        results.append((st2.fork([z3.Not(c)]), ('raise', 'AssertionError', s.lineno)))
        return results + [(st2.fork([c]), None)]

    def st_Try(self, s, st):
        if s.finalbody:
            raise OutOfSubset('try/finally')
        out = []
        for st2, o in self.exec_block(s.body, st):
            if o is not None and o[0] == 'raise':
                handled = False
                for h in s.handlers:
                    names = []
                    if h.type is None:
                        names = ['BaseException']
                    elif isinstance(h.type, ast.Tuple):
                        names = [ast.unparse(e) for e in h.type.elts]
                    else:
                        names = [ast.unparse(h.type)]
                    if any(self.is_subclass(o[1], nm) for nm in names):
                        st3 = st2.fork()
                        st3.env['__caught__'] = o[1]
                        if h.name:
                            st3.env[h.name] = mk_str('<exception>')
                        out.extend(self.exec_block(h.body, st3))
                        handled = True
                        break
                if not handled:
                    out.append((st2, o))
            elif o is None and s.orelse:
                out.extend(self.exec_block(s.orelse, st2))
            else:
                out.append((st2, o))
        return out

    EXC_PARENTS = {'IndexError': 'LookupError', 'KeyError': 'LookupError', 'LookupError': 'Exception',
                   'ValueError': 'Exception', 'TypeError': 'Exception', 'AttributeError': 'Exception',
                   'ZeroDivisionError': 'ArithmeticError', 'ArithmeticError': 'Exception',
                   'AssertionError': 'Exception', 'Exception': 'BaseException', 'StopIteration': 'Exception',
                   'UnicodeError': 'ValueError', 'RecursionError': 'RuntimeError', 'RuntimeError': 'Exception',
                   'OverflowError': 'ArithmeticError'}

    def is_subclass(self, cls, parent):
        seen = 0
        while cls is not None and seen < 20:
            if cls == parent:
                return True
            cls = self.exc_parents.get(cls) or self.EXC_PARENTS.get(cls)
            seen += 1
        return False

    exc_parents = {}

    # ------------------------------------------------------------------ loops
    def loop_setup(self, node, st, results):
        """evaluate the iterable once; returns (st, kind, data)"""
        ctx = self.new_ctx(st, node.lineno)
        it = node.iter
        kind = None
        data = {}
        if isinstance(it, ast.Call) and isinstance(it.func, ast.Name) and it.func.id == 'range':
            args = [to_int(self.ev.unwrap_opt(self.ev.ev(a, ctx), ctx)) for a in it.args]
            if len(args) == 1:
                lo, hi, step = z3.IntVal(0), args[0], 1
            elif len(args) == 2:
                lo, hi, step = args[0], args[1], 1
            else:
                sv = z3.simplify(args[2])
                if not z3.is_int_value(sv) or sv.as_long() == 0:
                    raise OutOfSubset('non-constant range step')
                lo, hi, step = args[0], args[1], sv.as_long()
            kind, data = 'range', dict(lo=lo, hi=hi, step=step)
        elif isinstance(it, ast.Call) and isinstance(it.func, ast.Attribute) and it.func.attr in ('items', 'keys', 'values') \
                and not it.args:
            src = self.ev.unwrap_opt(self.ev.ev(it.func.value, ctx), ctx, 'AttributeError')
            if not isinstance(src.ty, TDict):
                raise OutOfSubset(f'.{it.func.attr}() on {src.ty}')
            kind, data = 'dict', dict(src=src, mode=it.func.attr, enum=False, start=z3.IntVal(0))
        else:
            enum = False
            start = z3.IntVal(0)
            if isinstance(it, ast.Call) and isinstance(it.func, ast.Name) and it.func.id == 'enumerate':
                enum = True
                src = self.ev.ev(it.args[0], ctx)
                if len(it.args) > 1:
                    start = to_int(self.ev.ev(it.args[1], ctx))
            else:
                src = self.ev.ev(it, ctx)
            src = self.ev.unwrap_opt(src, ctx)
            if isinstance(src.ty, TAbs) and src.ty.name in getattr(self, 'opaque_lists', ()):
                src = self.items_of(src, ctx)       # an opaque list is iterated through its item view
            if isinstance(src.ty, TList):
                kind = 'list'
            elif src.ty == STR:
                kind = 'str'
            elif isinstance(src.ty, TBag):
                kind = 'bag'
            elif isinstance(src.ty, TDict):
                kind = 'dict'
            elif isinstance(src.ty, TSet):
                kind = 'dict'      # iteration over a set: every member exactly once, order abstracted (as dict keys)
                src = _SetAsKeys(src)
            else:
                raise OutOfSubset(f'for over {src.ty} at line {node.lineno}')
            data = dict(src=src, enum=enum, start=start, mode='keys')
        st2 = self.commit(st, ctx, results)
        return st2, kind, data

    def inv_env(self, st, ordn, k, extra=None):
        env = dict(st.env)
        env[f'_k{ordn}'] = V(INT, k)
        if extra:
            env.update(extra)
        return env

    def check_invs(self, ordn, st, env, tag, line):
        c = self.cur
        for lab, text in _labelled(c.invariants.get(ordn, [])):
            g, a = self.spec_bool(text, env, old=st.old, ghosts=c.ghost_vals)
            self.obl(f'{c.short}#inv[{ordn}.{lab}]@{tag}', st.pc + a, g, 'invariant', line)

    def assume_invs(self, ordn, st, env):
        c = self.cur
        for lab, text in _labelled(c.invariants.get(ordn, [])):
            g, a = self.spec_bool(text, env, old=st.old, ghosts=c.ghost_vals)
            st.pc = st.pc + a + [g]

    def havoc(self, st, names, yields):
        st2 = st.fork()
        for nm in sorted(names):
            if nm in st2.env:
                v, wf = self.fresh_value(nm, st2.env[nm].ty)
                st2.env[nm] = v
                st2.pc = st2.pc + wf
        if yields and st2.bag is not None:
            bt = self.cur.bag_ty
            v, wf = self.fresh_value('bag', bt)
            st2.bag = v.t
            st2.pc = st2.pc + wf
        return st2

    def st_For(self, node, st):
        results = []
        ordn = self.cur.loop_ord[id(node)]
        st0, kind, data = self.loop_setup(node, st, results)
        names, yields = assigned_names(node.body, self.mutating_methods())
        tnames = {n.id for n in ast.walk(node.target) if isinstance(n, ast.Name)}
        it_ = node.iter
        while isinstance(it_, (ast.Attribute, ast.Subscript)):
            it_ = it_.value
        # (an iterable that is the RESULT of a call is a fresh object evaluated once: later edits of its arguments do not matter)
        for nd in ([it_] if isinstance(it_, ast.Name) else []):
            if isinstance(nd, ast.Name) and nd.id in names and kind != 'range':
                raise OutOfSubset(f'loop at line {node.lineno} mutates or rebinds its own iterable `{nd.id}`')
        bagv = lambda s_: {'yields': V(self.cur.bag_ty, s_.bag)} if s_.bag is not None else {}
        # entry
        extra0 = bagv(st0)
        if kind == 'bag':
            bt = data['src'].ty
            extra0[f'_done{ordn}'] = V(bt, z3.K(bt.elem.sort(), z3.IntVal(0)))
        if kind == 'dict':
            dt = data['src'].ty
            extra0[f'_seen{ordn}'] = V(TSet(dt.k), z3.K(dt.k.sort(), False))
        at_entry = {f'{nm}_at{ordn}': st0.env[nm] for nm in names if nm in st0.env}   # values at this loop's entry
        extra0.update(at_entry)
        self.check_invs(ordn, st0, self.inv_env(st0, ordn, z3.IntVal(0), extra0), 'entry', node.lineno)
        # arbitrary iteration
        sth = self.havoc(st0, (names | tnames), yields)
        k = fresh(f'_k{ordn}', z3.IntSort())
        sth.pc = sth.pc + [k >= 0]
        extra = bagv(sth)
        extra.update(at_entry)
        done = None
        if kind == 'bag':
            bt = data['src'].ty
            done, wf = self.fresh_value(f'_done{ordn}', bt)
            t = fresh('t', bt.elem.sort())
            sth.pc = sth.pc + wf + [z3.ForAll([t], z3.Select(done.t, t) <= z3.Select(data['src'].t, t))]
            extra[f'_done{ordn}'] = done
        if kind == 'dict':
            dt = data['src'].ty
            done, wf = self.fresh_value(f'_seen{ordn}', TSet(dt.k))
            t = fresh('t', dt.k.sort())
            sth.pc = sth.pc + wf + [z3.ForAll([t], z3.Implies(z3.Select(done.t, t), z3.Select(dt.has(data['src'].t), t)))]
            extra[f'_seen{ordn}'] = done
        self.assume_invs(ordn, sth, self.inv_env(sth, ordn, k, extra))
        # guard and target binding (plus the implicit invariant: the iteration counter never exceeds the length)
        if kind == 'range':
            lo, hi, step = data['lo'], data['hi'], data['step']
            cur = lo + step * k
            guard = cur < hi if step > 0 else cur > hi
            tval = V(INT, cur)
            if step == 1:
                sth.pc = sth.pc + [k <= z3.If(hi > lo, hi - lo, 0)]
            elif step == -1:
                sth.pc = sth.pc + [k <= z3.If(lo > hi, lo - hi, 0)]
        elif kind in ('list', 'str'):
            src = data['src']
            n = list_len(src) if kind == 'list' else z3.Length(src.t)
            guard = k < n
            sth.pc = sth.pc + [k <= n]
            item = list_at(src, k) if kind == 'list' else V(STR, z3.SubString(src.t, k, 1))
            tval = mk_tuple([V(INT, data['start'] + k), item]) if data['enum'] else item
        elif kind == 'dict':
            src = data['src']
            dt = src.ty
            x, wf = self.fresh_value('key', dt.k)
            guard = z3.And(*(wf + [z3.Select(dt.has(src.t), x.t), z3.Not(z3.Select(done.t, x.t))]))
            item = V(dt.v, z3.Select(dt.at(src.t), x.t))
            tval = {'items': mk_tuple([x, item]), 'keys': x, 'values': item}[data['mode']]
        else:
            src = data['src']
            x, wf = self.fresh_value('elem', src.ty.elem)
            guard = z3.And(*(wf + [z3.Select(done.t, x.t) < z3.Select(src.t, x.t)]))
            tval = mk_tuple([V(INT, data['start'] + k), x]) if data['enum'] else x
        # body
        stb = sth.fork([guard])
        if self.feasible(stb.pc):
            stb = self.assign(node.target, tval, stb, results, node.lineno)
            stb.env[f'_k{ordn}'] = V(INT, k)   # ghost iteration counter, visible to nested loop invariants
            if done is not None:
                stb.env[('_seen' if kind == 'dict' else '_done') + str(ordn)] = done   # ... and the members already visited
            for st2, o in self.exec_block(node.body, stb):
                if o is None or o[0] == 'continue':
                    extra2 = bagv(st2)
                    extra2.update(at_entry)
                    if kind == 'bag':
                        extra2[f'_done{ordn}'] = V(done.ty, z3.Store(done.t, x.t, z3.Select(done.t, x.t) + 1))
                    if kind == 'dict':
                        extra2[f'_seen{ordn}'] = V(done.ty, z3.Store(done.t, x.t, True))
                    self.check_invs(ordn, st2, self.inv_env(st2, ordn, k + 1, extra2),
                                    f'preserve:p{self.next_path()}', node.lineno)
                elif o[0] == 'break':
                    results.append((st2, None))
                else:
                    results.append((st2, o))
        # exit
        if kind == 'dict':
            t = fresh('t', src.ty.k.sort())
            # every key visited: pointwise and (the same fact, by extensionality) as an equality of the two key sets
            nguard = z3.And(z3.ForAll([t], z3.Select(done.t, t) == z3.Select(src.ty.has(src.t), t)), done.t == src.ty.has(src.t))
        elif kind == 'bag':
            t = fresh('t', src.ty.elem.sort())
            nguard = z3.ForAll([t], z3.Select(done.t, t) == z3.Select(src.t, t))
        else:
            nguard = z3.Not(guard)
        ste = sth.fork([nguard])
        if self.feasible(ste.pc):
            if node.orelse:
                results.extend(self.exec_block(node.orelse, ste))
            else:
                results.append((ste, None))
        return results

    def st_While(self, node, st):
        results = []
        ordn = self.cur.loop_ord[id(node)]
        names, yields = assigned_names(node.body + [ast.Expr(value=node.test)], self.mutating_methods())
        bagv = lambda s_: {'yields': V(self.cur.bag_ty, s_.bag)} if s_.bag is not None else {}
        self.check_invs(ordn, st, self.inv_env(st, ordn, z3.IntVal(0), bagv(st)), 'entry', node.lineno)
        sth = self.havoc(st, names, yields)
        k = fresh(f'_k{ordn}', z3.IntSort())
        sth.pc = sth.pc + [k >= 0]
        self.assume_invs(ordn, sth, self.inv_env(sth, ordn, k, bagv(sth)))
        ctx = self.new_ctx(sth, node.lineno)
        g = truthy(self.ev.ev(node.test, ctx))
        sth2 = self.commit(sth, ctx, results)
        dec = self.cur.decreases.get(ordn)
        stb = sth2.fork([g])
        if self.feasible(stb.pc):
            stb.env[f'_k{ordn}'] = V(INT, k)
            d0 = None
            if dec:
                d0, a = self.spec_eval(dec, self.inv_env(stb, ordn, k, bagv(stb)), old=stb.old,
                                       ghosts=self.cur.ghost_vals)
                stb.pc = stb.pc + a
                self.obl(f'{self.cur.short}#decreases[{ordn}]@bounded', stb.pc, to_int(d0) >= 0, 'variant',
                         node.lineno)
            for st2, o in self.exec_block(node.body, stb):
                if o is None or o[0] == 'continue':
                    p = self.next_path()
                    self.check_invs(ordn, st2, self.inv_env(st2, ordn, k + 1, bagv(st2)), f'preserve:p{p}',
                                    node.lineno)
                    if dec:
                        d1, a = self.spec_eval(dec, self.inv_env(st2, ordn, k + 1, bagv(st2)), old=st2.old,
                                               ghosts=self.cur.ghost_vals)
                        self.obl(f'{self.cur.short}#decreases[{ordn}]@strict:p{p}', st2.pc + a,
                                 to_int(d1) < to_int(d0), 'variant', node.lineno)
                elif o[0] == 'break':
                    results.append((st2, None))
                else:
                    results.append((st2, o))
        ste = sth2.fork([z3.Not(g)])
        if self.feasible(ste.pc):
            if node.orelse:
                results.extend(self.exec_block(node.orelse, ste))
            else:
                results.append((ste, None))
        return results

    def mutating_methods(self):
        return {q.split(':')[1].split('.')[-1].split('@')[0] for q, c in self.contracts.items() if c.d.get('mutates')}

    def next_path(self):
        self.path_count += 1
        return self.path_count

    # ------------------------------------------------------------------ whole function
    def ground_axioms(self):
        """GROUND_FORALL facts of the contract module: `forall e: e in TABLE -> body(e)` for a constant table of the real module.
        Each is CHECKED here, key by key, on the table dumped from the real module (ground instances decided by z3), and only then
        used as a hypothesis -- a table fact the solver would otherwise have to rediscover by a several-hundred-way case split."""
        if getattr(self, '_ground_cache', None) is not None:
            return self._ground_cache
        out = []
        for lab, table, var, body in getattr(self, 'ground_forall', []):
            keys = list(self.globals_[table])
            ok = True
            for k in keys:
                lit = repr(k)
                g, a = self.spec_bool(f'(lambda {var}: {body})({lit})' if False else body.replace('@' + var, lit), {}, old={}, ghosts={})
                if z3.is_true(z3.simplify(g)):
                    continue
                s_ = z3.Solver()
                s_.set('timeout', 2000)
                s_.add(*a)
                s_.add(z3.Not(g))
                if s_.check() != z3.unsat:
                    ok = False
                    self.notes = getattr(self, 'notes', []) + [f'ground fact {lab} fails for key {k!r}']
                    break
            if ok:
                text = f'forall(lambda e_=str: implies(e_ in {table}, ' + body.replace('@' + var, 'e_') + '))'
                g, a = self.spec_bool(text, {}, old={}, ghosts={})
                out += a + [g]
                self.libs_used.add(f'GROUND[{lab}]: checked on every one of the {len(keys)} keys of the real table {table} in this run')
        self._ground_cache = out
        return out

    def inductive_axioms(self, only=()):
        """INDUCTIVE_LEMMAS (label, var, P): `forall var >= 0: P(var)` used as a hypothesis; its base case P(0) and its step
        P(k) -> P(k+1) are obligations of the same run (generate_lemmas), i.e. the framework applies induction on the naturals"""
        out = []
        for lab, var, text in getattr(self, 'inductive', []):
            if lab not in only:
                continue
            g, a = self.spec_bool(f'forall(lambda {var}: implies({var} >= 0, {text}))', {}, old={}, ghosts={})
            out += a + [g]
        return out

    def _strip_forall(self, text):
        """forall(lambda x=T, ..: body) -> ({x: fresh constant, .., '__wf__': [...]}, body text); other texts unchanged"""
        env_ = {'__wf__': []}
        node_ = ast.parse(text.strip(), mode='eval').body
        if isinstance(node_, ast.Call) and isinstance(node_.func, ast.Name) and node_.func.id == 'forall' \
                and isinstance(node_.args[0], ast.Lambda):
            lam = node_.args[0]
            defs = [None] * (len(lam.args.args) - len(lam.args.defaults)) + list(lam.args.defaults)
            for arg, d_ in zip(lam.args.args, defs):
                ty_ = INT if d_ is None else parse_type(ast.unparse(d_), self.aliases)
                v_, wf_ = self.fresh_value(arg.arg + '_lem', ty_)
                env_[arg.arg] = v_
                env_['__wf__'] += wf_
            return env_, ast.unparse(lam.body)
        return env_, text

    def generate_lemmas(self, modname, lemmas):
        """LEMMAS of a contract module: statements over the CONTRACTS alone (laws that must follow from the postconditions, e.g.
        symmetry of an equality).  No code is read: a lemma fails only if a contract it mentions no longer carries it."""
        self.cur = None
        from . import expr as _e
        _e._fresh_n[0] = 0
        n0 = len(self.obls)
        pc = []
        for lab, text in _labelled(self.axioms):
            g, a = self.spec_bool(text, {}, old={}, ghosts={})
            pc += a + [g]
        pc0 = list(pc)           # (the induction obligations themselves must not assume the inductive lemmas)
        proved_texts = {}
        ind = {lab: (var, text) for lab, var, text in getattr(self, 'inductive', [])}
        for ent in lemmas:
            lab, text = ent[0], ent[1]
            opts = ent[2] if len(ent) > 2 else {}
            hyps = list(pc0)
            env_, body_text = self._strip_forall(text)
            for wf_ in env_.pop('__wf__', []):
                hyps.append(wf_)
            # `uses`: instances P(k := expr) of inductive lemmas of this module (expr over the lemma's own variables);
            # `also`: lemmas stated earlier in this list (all are obligations of the same run)
            for il, kexpr in opts.get('uses', []):
                var, itext = ind[il]
                if kexpr is None:          # the lemma for every k >= 0
                    gi, ai = self.spec_bool(f'forall(lambda {var}: implies({var} >= 0, {itext}))', env_, old={}, ghosts={})
                    hyps += ai + [gi]
                    continue
                kv_, ka = self.spec_eval(kexpr, env_, {}, {})
                gi, ai = self.spec_bool(itext, dict(env_, **{var: kv_}), old={}, ghosts={})
                hyps += ka + ai + [z3.Implies(to_int(kv_) >= 0, gi)]
            for other in opts.get('also', []):
                if isinstance(other, tuple):
                    # an explicit instance of an earlier lemma: {its variable: expression over this lemma's variables}
                    oname, subst = other
                    oenv, obody = self._strip_forall(proved_texts[oname])
                    oenv.pop('__wf__', None)
                    inst = {}
                    for v_ in oenv:
                        val_, av = self.spec_eval(subst[v_], env_, {}, {})
                        hyps += av
                        inst[v_] = coerce(val_, oenv[v_].ty)
                    go, ao = self.spec_bool(obody, inst, old={}, ghosts={})
                else:
                    go, ao = self.spec_bool(proved_texts[other], {}, old={}, ghosts={})
                hyps += ao + [go]
            g, a = self.spec_bool(body_text, env_, old={}, ghosts={})
            self.obls.append(Obligation(f'lemmas.{modname}#lemma[{lab}]', hyps + a, g, 'lemma', 0, f'lemmas:{modname}'))
            proved_texts[lab] = text
        pc = pc0
        for lab, var, text in getattr(self, 'inductive', []):
            k0 = {var: V(INT, z3.IntVal(0))}
            g, a = self.spec_bool(text, k0, old={}, ghosts={})
            self.obls.append(Obligation(f'lemmas.{modname}#induction-base[{lab}]', pc + a, g, 'lemma', 0, f'lemmas:{modname}'))
            kv = z3.Const(var + '!ind', z3.IntSort())
            # P(k) of the form forall(lambda x.., body(x.., k)): induct for FIXED x.. (fresh constants) -- the induction hypothesis is
            # then body(x.., k) itself and needs no instantiation; the conclusion for all x.. follows since they are arbitrary
            env_ = {}
            body_text = text
            node_ = ast.parse(text.strip(), mode='eval').body
            if isinstance(node_, ast.Call) and isinstance(node_.func, ast.Name) and node_.func.id == 'forall' \
                    and isinstance(node_.args[0], ast.Lambda):
                lam = node_.args[0]
                defs = [None] * (len(lam.args.args) - len(lam.args.defaults)) + list(lam.args.defaults)
                for arg, d_ in zip(lam.args.args, defs):
                    ty_ = INT if d_ is None else parse_type(ast.unparse(d_), self.aliases)
                    v_, wf_ = self.fresh_value(arg.arg + '_ind', ty_)
                    env_[arg.arg] = v_
                    pc = pc + wf_
                body_text = ast.unparse(lam.body)
            gk, ak = self.spec_bool(body_text, dict(env_, **{var: V(INT, kv)}), old={}, ghosts={})
            gk1, ak1 = self.spec_bool(body_text, dict(env_, **{var: V(INT, kv + 1)}), old={}, ghosts={})
            self.obls.append(Obligation(f'lemmas.{modname}#induction-step[{lab}]', pc + ak + ak1 + [kv >= 0, gk], gk1, 'lemma', 0,
                                        f'lemmas:{modname}'))
        return self.obls[n0:]

    def generate(self, qual, fnode, canaries=True):
        """VCs of one real function (ast.FunctionDef) against its contract"""
        c = self.contracts[qual]
        self.cur = c
        # fresh names are numbered per function: the text of an obligation depends on its own function, contract and module axioms only
        from . import expr as _e
        _e._fresh_n[0] = 0
        self._ground_cache = None
        c.short = qual.split(':')[1].replace('@', '~')   # '~tag' marks a specialised contract ('@' is the line separator in names)
        c.qual = qual
        n0 = len(self.obls)
        self.side_n = 0
        self.path_count = 0
        # loop ordinals in source order
        c.loop_ord = {}
        for nd in ast.walk(fnode):
            pass
        order = [nd for nd in _preorder(fnode) if isinstance(nd, (ast.For, ast.While))]
        for i, nd in enumerate(order):
            c.loop_ord[id(nd)] = i
        for o_ in c.invariants:
            if o_ >= len(order):
                raise ContractOutOfDate(f'{qual}: invariant for loop {o_} but function has {len(order)} loops')
        heads = c.d.get('loop_heads', {})
        self.notes = getattr(self, 'notes', [])
        for o_, text in heads.items():
            got = ast.unparse(order[o_]).split('\n')[0] if o_ < len(order) else '<missing>'
            if got.strip() != text.strip():
                # not an error: the invariants are still tried by ordinal; a wrong pairing fails its obligations
                self.notes.append(f'{qual}: loop {o_} header is now `{got}` (contract was written for `{text}`)')
        is_gen = any(isinstance(nd, (ast.Yield, ast.YieldFrom)) for nd in _preorder(fnode))
        rty = c.ty(c.returns)
        c.bag_ty = rty if (is_gen and isinstance(rty, (TBag, TList))) else None
        if is_gen and c.bag_ty is None:
            raise OutOfSubset(f'{qual} is a generator; contract `returns` must be Bag[..]')
        # parameters
        argnames = [a.arg for a in fnode.args.args]
        if fnode.args.kwarg:
            raise OutOfSubset('**kwargs')
        # keyword-only parameters are parameters like the others; *args is the list of the extra positional arguments when the contract
        # types it (a List[..] entry under its name in `params`)
        argnames += [a.arg for a in fnode.args.kwonlyargs]
        if fnode.args.vararg and fnode.args.vararg.arg in c.params:
            argnames.append(fnode.args.vararg.arg)
        elif fnode.args.vararg:
            # *args is accepted only if the body merely forwards it to super().__init__ (dropped by extraction, see st_Expr)
            uses = [n for n in _preorder(fnode) if isinstance(n, ast.Name) and n.id == fnode.args.vararg.arg]
            fw = [n for n in _preorder(fnode) if isinstance(n, ast.Call) and ast.unparse(n.func) == 'super().__init__']
            if len(uses) != sum(1 for c_ in fw for a_ in c_.args if isinstance(a_, ast.Starred)):
                raise OutOfSubset('*args used other than forwarded to super().__init__')
        missing = [a for a in argnames if a not in c.params and a != 'self' and a not in c.d.get('specialize', {})]
        if missing:
            raise ContractOutOfDate(f'{qual}: parameters {missing} have no type in the contract')
        env = {}
        pc = []
        spec_ = c.d.get('specialize', {})
        for a in argnames:
            if a in spec_:
                env[a] = self.const_value(spec_[a])   # specialised contract: this parameter is fixed
                continue
            v, wf = self.fresh_value(a, c.ty(c.params[a]))
            env[a] = v
            pc += wf
        old = dict(env)
        self.param_consts = {a: str(env[a].t) for a in argnames}
        c.ghost_vals = {}
        for g, gty in c.d.get('ghost_params', {}).items():
            v, wf = self.fresh_value(g, c.ty(gty))
            c.ghost_vals[g] = v
            pc += wf
        for g, text in c.ghost.items():
            gv, a = self.spec_eval(text, env, old=old, ghosts=c.ghost_vals)
            c.ghost_vals[g] = gv
            pc += a
        req_terms = []
        for lab, text in _labelled(c.requires):
            g, a = self.spec_bool(text, env, old=old, ghosts=c.ghost_vals)
            pc += a + [g]
            req_terms.append(g)
        for lab, text in _labelled(self.axioms):
            if c.d.get('axioms') is not None and lab not in c.d['axioms']:
                continue          # the contract names the module axioms it needs (fewer quantified hypotheses: more stable proofs)
            g, a = self.spec_bool(text, {}, old={}, ghosts={})
            pc += a + [g]
        c.measure_val = None
        if c.d.get('measure'):
            mv, am = self.spec_eval(c.d['measure'], env, old=old, ghosts=c.ghost_vals)
            c.measure_val = mv
            pc += am
        pc += self.ground_axioms()
        pc += self.inductive_axioms(c.d.get('uses_lemmas', ()))     # only the inductive lemmas the contract asks for
        c.pre_pc = list(pc)
        bag0 = None
        if isinstance(c.bag_ty, TBag):
            bag0 = z3.K(c.bag_ty.elem.sort(), z3.IntVal(0))
        elif isinstance(c.bag_ty, TList):
            bag0 = c.bag_ty.mk(z3.K(z3.IntSort(), z3.Const('dflt!yield', c.bag_ty.elem.sort())), z3.IntVal(0))
        st = State(env, pc, bag0, old)
        if c.d.get('checkpoints'):
            exits = self.exec_with_checkpoints(fnode.body, st, c, old)
        else:
            exits = self.exec_block(fnode.body, st)
        npaths = 0
        for st2, o in exits:
            npaths += 1
            p = self.next_path()
            if o is None:
                o = ('return', mk_none(), fnode.end_lineno)
            if o[0] in ('break', 'continue'):
                raise OutOfSubset('break/continue outside loop')
            if o[0] == 'return':
                line = o[2] if len(o) > 2 else fnode.end_lineno
                if c.bag_ty is not None:
                    res = V(c.bag_ty, st2.bag)
                else:
                    rv = o[1]
                    if isinstance(rv.ty, TOpt) and not isinstance(rty, TOpt) and rty != NONE:
                        # an Optional value returned where the contract promises a value: it must not be None on this path
                        self.obl(f'{c.short}#returns-a-value@{line}:p{p}', st2.pc, z3.Not(rv.ty.is_none(rv.t)), 'type', line)
                        rv = V(rv.ty.inner, rv.ty.val(rv.t))
                        o = (o[0], rv) + tuple(o[2:])
                    try:
                        if isinstance(rty, TAbs) and rty.name == 'Any':
                            # returns='Any': the contract says nothing about the VALUE returned (exception-safety / frame contracts of
                            # functions returning one of several classes)
                            res = self.fresh_value('result', rty)[0]
                        else:
                            res = coerce(o[1], rty)
                    except OutOfSubset:
                        self.obl(f'{c.short}#return-type@{line}:p{p}', st2.pc, z3.BoolVal(False), 'type', line,
                                 meta={'why': f'returns {o[1].ty}, contract says {rty}'})
                        continue
                env2 = dict(old)
                env2['result'] = res
                env2['yields'] = res
                if 'self' in st2.env:
                    env2['self_final'] = st2.env['self']   # the receiver after the call (in-place editors)
                # exit lemmas: proved in order at this exit (locals visible), then available to the ensures clauses
                lem_pc = list(st2.pc)
                proved_lemmas = {}
                env3 = dict(st2.env)
                for p_ in old:                      # parameters denote their ENTRY values in lemmas (as in ensures);
                    if p_ in st2.env:               # the value at exit is available as <name>_exit
                        env3[p_ + '_exit'] = st2.env[p_]
                    env3[p_] = old[p_]
                if 'self' in st2.env:
                    env3['self_final'] = st2.env['self']
                env3['result'] = res
                env3['yields'] = res
                for lem in c.d.get('exit_lemmas', []):
                    lab, text = lem[0], lem[1]
                    opts = lem[2] if len(lem) > 2 else {}
                    try:
                        g, a = self.spec_bool(text, env3, old=old, ghosts=c.ghost_vals)
                    except OutOfSubset:
                        continue   # lemma mentions a local that does not exist on this path
                    if 'uses' in opts:
                        hyps = list(st2.pc) + [x for l_ in opts['uses'] for x in proved_lemmas.get(l_, [])] + a
                    else:
                        hyps = lem_pc + a
                    proved_lemmas[lab] = a + [g]
                    if opts.get('without'):
                        # proof engineering only: DROPPING hypotheses is always sound
                        banned = set()
                        for nm in opts['without']:
                            v_ = env3.get(nm)
                            if v_ is not None:
                                banned |= _consts_of(v_.t)
                        hyps = [h for h in hyps if not (_consts_of(h) & banned)]
                    self.obl(f'{c.short}#lemma[{lab}]@{line}:p{p}', hyps, g, 'lemma', line)
                    lem_pc = lem_pc + a + [g]
                st2 = State(st2.env, lem_pc, st2.bag, st2.old)
                for lab, text in _labelled(c.ensures):
                    g, a = self.spec_bool(text, env2, old=old, ghosts=c.ghost_vals)
                    self.obl(f'{c.short}#ensures[{lab}]@{line}:p{p}', st2.pc + a, g, 'ensures', line)
                for cls, cond in c.raises.items():
                    if cond is not None and not c.d.get('raises_inexact'):
                        g, a = self.spec_bool(cond, old, old=old, ghosts=c.ghost_vals)
                        self.obl(f'{c.short}#must-raise[{cls}]@{line}:p{p}', st2.pc + a, z3.Not(g), 'raises', line)
                if canaries:
                    for lab, text in _labelled(c.canary):
                        g, a = self.spec_bool(text, env2, old=old, ghosts=c.ghost_vals)
                        self.obl(f'{c.short}#canary[{lab}]@{line}:p{p}', st2.pc + a, g, 'canary', line,
                                 expect='notproved')
            else:
                cls, line = o[1], o[2]
                allowed = [k_ for k_ in c.raises if self.is_subclass(cls, k_)]
                if allowed:
                    cond = c.raises[allowed[0]]
                    if cond is not None:
                        g, a = self.spec_bool(cond, old, old=old, ghosts=c.ghost_vals)
                        self.obl(f'{c.short}#raises-only-if[{allowed[0]}]@{line}:p{p}', st2.pc + a, g, 'raises', line)
                    else:
                        self.obl(f'{c.short}#raises-allowed[{allowed[0]}]@{line}:p{p}', st2.pc, z3.BoolVal(True),
                                 'raises', line)
                else:
                    self.obl(f'{c.short}#no-{cls}@{line}:p{p}', st2.pc, z3.BoolVal(False), 'exception', line)
        # vacuity: the precondition itself must be satisfiable (expect sat => "refuted" of False)
        self.obl(f'{c.short}#requires-satisfiable', c.pre_pc, z3.BoolVal(False), 'vacuity', fnode.lineno,
                 expect='notproved')
        self.cur = None
        for o in self.obls[n0:]:
            o.meta['params'] = self.param_consts
        return self.obls[n0:], npaths


_co_cache = {}


def _consts_of(f):
    """names of the uninterpreted constants occurring in a term"""
    k = f.get_id()
    if k in _co_cache:
        return _co_cache[k]
    seen = set()
    out = set()
    stack = [f]
    while stack:
        x = stack.pop()
        i = x.get_id()
        if i in seen:
            continue
        seen.add(i)
        if z3.is_quantifier(x):
            stack.append(x.body())
            continue
        if z3.is_app(x):
            if x.num_args() == 0 and x.decl().kind() == z3.Z3_OP_UNINTERPRETED:
                out.add(x.decl().name())
            stack.extend(x.children())
    _co_cache[k] = out
    return out


class ContractOutOfDate(Exception):
    pass


def _preorder(fnode):
    """all nodes of a function body in source order, not descending into nested defs"""
    out = []

    def go(n):
        out.append(n)
        for ch in ast.iter_child_nodes(n):
            if isinstance(ch, (ast.FunctionDef, ast.AsyncFunctionDef, ast.ClassDef)):
                continue
            go(ch)

    for s in fnode.body:
        go(s)
    return out


def copy_load(t):
    import copy as _c
    n = _c.deepcopy(t)
    for x in ast.walk(n):
        if hasattr(x, 'ctx'):
            x.ctx = ast.Load()
    return n


def make_engine(modname, repo=None):
    """build an Executor for contracts/<modname>.py: -> (engine, contracts, function nodes, source hashes, errors)"""
    import importlib
    from . import extract
    m = importlib.import_module('contracts.' + modname)
    cons = {q: Contract(q, d, m.ALIASES) for q, d in m.C.items()}
    globs = dict(getattr(m, 'GLOBALS', {}))
    if getattr(m, 'GLOBALS_FROM', None):
        globs.update(dump_globals(m.GLOBALS_FROM, repo or extract.REPO))
    eng = Executor(cons, m.ALIASES, getattr(m, 'MACROS', {}), globs)
    eng.exc_parents = getattr(m, 'EXC_PARENTS', {})
    from . import types as _t
    _t.RECORDS.clear()
    for rname, fields in getattr(m, 'RECORDS', {}).items():
        _t.register_record(rname, fields, m.ALIASES)
    _t.finish_records()
    eng.classes = getattr(m, 'CLASSES', {})
    eng.unions = getattr(m, 'UNIONS', {})
    eng.ctors = getattr(m, 'CTORS', {})
    eng.funcs = getattr(m, 'FUNCS', {})
    eng.abstract_globals = getattr(m, 'GLOBALS_ABSTRACT', {})
    eng.axioms = getattr(m, 'AXIOMS', [])
    eng.sigs = {}
    eng.lemmas = getattr(m, 'LEMMAS', [])
    eng.abstract_methods = getattr(m, 'ABSTRACT_METHODS', {})
    eng.ground_forall = getattr(m, 'GROUND_FORALL', [])
    eng.inductive = getattr(m, 'INDUCTIVE_LEMMAS', [])
    eng.opaque_lists = set(getattr(m, 'OPAQUE_LISTS', ()))
    eng.join_fold = getattr(m, 'JOIN_FOLD', None)
    eng.prefix_folds = getattr(m, 'PREFIX_FOLDS', [])
    for f_ in eng.prefix_folds:
        if not any(f_ + '-reads-only-its-prefix' == lab for lab, _, _ in eng.inductive):
            raise RuntimeError(f'PREFIX_FOLDS: {f_} has no inductive lemma {f_}-reads-only-its-prefix in the module')
    eng._ground_cache = None
    nodes, shas, errors = {}, {}, []
    if eng.lemmas or eng.inductive:
        import hashlib
        shas['lemmas:' + modname] = hashlib.sha256(open(m.__file__, 'rb').read()).hexdigest()
    for q, c in cons.items():
        if c.d.get('external'):
            continue
        try:
            node, seg, sha, path = extract.find(q, repo or extract.REPO)
        except KeyError as e:
            errors.append(f'target missing: {e}')
            continue
        nodes[q] = node
        shas[q] = sha
        eng.sigs[q] = extract.signature_defaults(node)
    return eng, cons, nodes, shas, errors


def dump_globals(spec, repo):
    """ground facts: module-level constants of the REAL modules, dumped by the repo's interpreter on every run.
    spec: {module: [names]}; floats travel as hex so that they arrive exactly"""
    import json
    import subprocess
    code = ('import json,sys,warnings\nwarnings.simplefilter("ignore")\nimport importlib\nout={}\n'
            'def enc(v):\n'
            '    if isinstance(v,float): return {"f":v.hex()}\n'
            '    if isinstance(v,dict): return {"d":{str(k):enc(x) for k,x in v.items()}}\n'
            '    if isinstance(v,(list,tuple,set,frozenset)): return {"l":[enc(x) for x in sorted(v)]}\n'
            '    return {"v":v}\n'
            'spec=json.loads(sys.argv[1])\n'
            'for mod,names in spec.items():\n'
            '    m=importlib.import_module(mod)\n'
            '    for n in names: out[n]=enc(getattr(m,n))\n'
            'print(json.dumps(out))')
    env = dict(os.environ, PYTHONPATH=os.path.join(repo, 'src'), PYTHONDONTWRITEBYTECODE='1')
    p = subprocess.run(['/venv/bin/python', '-c', code, json.dumps(spec)], capture_output=True, text=True, env=env)
    if p.returncode != 0:
        raise RuntimeError('cannot dump constants from the real modules: ' + p.stderr[-400:])

    def dec(x):
        if 'f' in x:
            return float.fromhex(x['f'])
        if 'd' in x:
            return {k: dec(v) for k, v in x['d'].items()}
        if 'l' in x:
            return [dec(v) for v in x['l']]
        return x['v']
    return {k: dec(v) for k, v in json.loads(p.stdout.strip().split('\n')[-1]).items()}
