"""pyvc.engine -- path-wise symbolic execution of real function bodies against sidecar contracts.

generate(fn) -> list of Obligation(name, hyps, goal, ...).  Loops are cut by invariants, calls by callee contracts.
"""
import ast
import os
import copy
import z3
from .types import *
from .expr import *

MUTATORS = {'append', 'extend', 'add', 'update', 'pop', 'insert', 'sort', 'remove', 'clear', 'setdefault', 'reverse'}


_hq_cache = {}


def _has_quant(f):
    k = f.get_id()
    if k in _hq_cache:
        return _hq_cache[k]
    seen = set()
    stack = [f]
    res = False
    while stack:
        x = stack.pop()
        i = x.get_id()
        if i in seen:
            continue
        seen.add(i)
        if z3.is_quantifier(x):
            res = True
            break
        stack.extend(x.children())
    _hq_cache[k] = res
    return res


def _z3_consts(f):
    """the uninterpreted constants (0-ary) of a term"""
    out, seen, stack = [], set(), [f]
    while stack:
        x = stack.pop()
        i = x.get_id()
        if i in seen:
            continue
        seen.add(i)
        if z3.is_quantifier(x):
            stack.append(x.body())
        elif z3.is_app(x):
            if x.num_args() == 0 and x.decl().kind() == z3.Z3_OP_UNINTERPRETED:
                out.append(x)
            stack.extend(x.children())
    return out


def _canon(term, skip):
    """(canonical text, constants in order of first occurrence) of a term: constants are renamed c0, c1, .. by first occurrence, so that
    the same expression over differently named variables (a parameter in the code, a bound variable in an axiom) gets the same name"""
    cs = [c for c in _z3_consts(term) if str(c) not in skip]
    by_name = {}
    for c in cs:
        by_name.setdefault(str(c), c)
    text = term.sexpr()
    import re as _re
    pos = []
    for nm in by_name:
        m = _re.search(r'(?<![\w!.|])' + _re.escape(nm if _re.fullmatch(r'[\w!.]+', nm) else '|' + nm + '|') + r'(?![\w!.|])', text)
        pos.append((m.start() if m else 10 ** 9, nm))
    order = [nm for _, nm in sorted(pos)]
    for i, nm in enumerate(order):
        quoted = nm if _re.fullmatch(r'[\w!.]+', nm) else '|' + nm + '|'
        text = _re.sub(r'(?<![\w!.|])' + _re.escape(quoted) + r'(?![\w!.|])', f'@c{i}:{by_name[nm].sort()}', text)
    return text, [by_name[nm] for nm in order]


class Obligation:
    def __init__(self, name, hyps, goal, kind, line, fn, expect='proved', meta=None):
        self.name = name
        self.hyps = list(hyps)
        self.goal = goal
        self.kind = kind
        self.line = line
        self.fn = fn
        self.expect = expect   # 'proved' or 'refuted' (canary)
        self.meta = meta or {}

    def smt2(self, timeout_ms=None):
        s = z3.Solver()
        for h in self.hyps:
            s.add(h)
        s.add(z3.Not(self.goal))
        return s.to_smt2()


class State:
    __slots__ = ('env', 'pc', 'bag', 'old')

    def __init__(self, env, pc, bag=None, old=None):
        self.env = env
        self.pc = pc
        self.bag = bag
        self.old = old

    def fork(self, extra_pc=()):
        return State(dict(self.env), self.pc + list(extra_pc), self.bag, self.old)


class Contract:
    def __init__(self, qual, d, aliases):
        self.qual = qual
        self.d = d
        self.aliases = aliases
        self.params = d.get('params', {})
        self.returns = d.get('returns', 'None')
        self.requires = d.get('requires', [])
        self.ensures = d.get('ensures', [])
        self.raises = d.get('raises', {})
        self.ghost = d.get('ghost', {})
        self.invariants = d.get('invariants', {})
        self.decreases = d.get('decreases', {})
        self.canary = d.get('canary', [])
        self.locals = d.get('locals', {})     # optional type hints for empty-list literals etc.
        self.trusted = d.get('trusted', False)
        self.param_defaults = d.get('defaults', None)
        self.hints = d.get('hints', {})

    def ty(self, s):
        return parse_type(s, self.aliases)


def _labelled(clauses):
    out = []
    for i, c in enumerate(clauses):
        if isinstance(c, (tuple, list)):
            out.append((c[0], c[1]))
        else:
            out.append((str(i), c))
    return out


class Engine:
    def __init__(self, contracts, aliases=None, spec_macros=None, globals_=None, prune=True):
        self.contracts = contracts         # qualname -> Contract
        self.aliases = aliases or {}
        self.macros = spec_macros or {}    # name -> (param names, expr string)
        self.globals_ = globals_ or {}     # name -> python constant (int/float/str/list of str)
        self.ev = Evaluator(self)
        self.funcs = {}
        self.axioms = []
        self.classes = {}   # record type name -> 'module:Class'
        self.unions = {}    # record name -> {python type name: kind tag}
        self.ctors = {}     # constructor name in code -> record type name
        self.obls = []
        self.prune = prune
        self._solver = z3.Solver()
        self._solver.set('timeout', 1500)
        self.dead_paths = []
        self.path_count = 0
        self.trusted_used = set()
        self.libs_used = set()
        self.cur = None
        self.short_by_name = {}
        for q in contracts:
            self.short_by_name.setdefault(q.split(':')[1], q)

    # ------------------------------------------------------------------ obligations
    def obl(self, name, pc, goal, kind, line, expect='proved', meta=None):
        self.obls.append(Obligation(name, pc, goal, kind, line, self.cur.qual if self.cur else '?', expect, meta))

    def feasible(self, pc):
        if not self.prune:
            return True
        s = self._solver
        s.push()
        try:
            # pruning uses only the quantifier-free hypotheses (fewer hypotheses: still sound for pruning, and fast)
            s.add(*[f for f in pc if not _has_quant(f)])
            r = s.check()
        finally:
            s.pop()
        return r != z3.unsat

    # ------------------------------------------------------------------ spec evaluation
    def spec_eval(self, text, env, old=None, ghosts=None):
        """evaluate a contract clause -> (V, assumptions)"""
        node = ast.parse(text.strip(), mode='eval').body
        ctx = Ctx(dict(env), spec=True, old=old or {}, ghosts=ghosts or {}, engine=self)
        v = self.ev.ev(node, ctx)
        return v, ctx.assumes

    def spec_bool(self, text, env, old=None, ghosts=None):
        v, a = self.spec_eval(text, env, old, ghosts)
        return truthy(v), a

    def global_value(self, name, ctx):
        if name in self.globals_:
            return self.const_value(self.globals_[name])
        if name in getattr(self, 'abstract_globals', {}):
            # a module-level table entering by its TYPE only (GLOBALS_ABSTRACT): one fixed, otherwise arbitrary value
            ty = parse_type(self.abstract_globals[name], self.aliases)
            return V(ty, z3.Const('glob_' + name, ty.sort()))
        if name in ('True', 'False'):
            return mk_bool(name == 'True')
        return None

    def const_value(self, c):
        if isinstance(c, bool):
            return mk_bool(c)
        if isinstance(c, int):
            return mk_int(c)
        if isinstance(c, float):
            return mk_real(c)
        if isinstance(c, str):
            return mk_str(c)
        if isinstance(c, (list, tuple)) and all(isinstance(x, str) for x in c):
            return self.ev.list_literal([mk_str(x) for x in c], STR)
        if isinstance(c, dict) and c and all(isinstance(k, str) for k in c) and all(isinstance(v, (int, float)) for v in c.values()):
            # a constant table str -> number (ground facts dumped from the real module on every run)
            dt = TDict(STR, REAL)
            has = z3.K(z3.StringSort(), False)
            at = z3.K(z3.StringSort(), z3.RealVal(0))
            for k, v in c.items():
                has = z3.Store(has, z3.StringVal(k), True)
                at = z3.Store(at, z3.StringVal(k), mk_real(v).t if isinstance(v, float) else z3.RealVal(v))
            return V(dt, dt.mk(has, at))
        raise OutOfSubset(f'global constant {c!r}')

    def wf(self, v):
        """type invariants of a fresh value"""
        out = []
        ty = v.ty
        if isinstance(ty, TList):
            out.append(ty.n(v.t) >= 0)
        if isinstance(ty, TOpt):
            inner = V(ty.inner, ty.val(v.t))
            for c in self.wf(inner):
                out.append(z3.Implies(z3.Not(ty.is_none(v.t)), c))
        if isinstance(ty, TTuple):
            for p in tuple_parts(v):
                out.extend(self.wf(p))
        if isinstance(ty, TBag):
            t = fresh('t', ty.elem.sort())
            out.append(z3.ForAll([t], z3.Select(v.t, t) >= 0))
        if isinstance(ty, TRec):
            for f, ft in ty.fields.items():
                out.extend(self.wf(V(ft, ty.get(f, v.t))))
        return out

    def fresh_value(self, name, ty):
        v = V(ty, fresh(name, ty.sort()))
        return v, self.wf(v)

    # ------------------------------------------------------------------ attributes
    def attribute(self, base, attr, ctx, node):
        if isinstance(base.ty, TOpt):
            base = self.ev.unwrap_opt(base, ctx, 'AttributeError')
        if isinstance(base.ty, TRec):
            if attr in base.ty.fields:
                return V(base.ty.fields[attr], base.ty.get(attr, base.t))
            q = self.method_qual(base.ty, attr)
            if q and self.contracts[q].d.get('property'):
                return self.call_bound(q, [('self', base)], [], {}, ctx, getattr(node, 'lineno', 0))
            ctx.exc('AttributeError', z3.BoolVal(True))
            return V(INT, fresh('junk', z3.IntSort()))
        raise OutOfSubset(f'attribute .{attr} on {base.ty} (line {getattr(node, "lineno", "?")})')

    def method_qual(self, rty, name):
        cq = self.classes.get(rty.name)
        if cq and f'{cq}.{name}' in self.contracts:
            return f'{cq}.{name}'
        return None

    # ------------------------------------------------------------------ library functions
    def set_of_list(self, lst, ctx):
        st = TSet(lst.ty.elem)
        f = z3.Function('set_of_' + st.elem.name, lst.ty.sort(), st.sort())
        w = z3.Function('wit_' + st.elem.name, lst.ty.sort(), st.elem.sort(), z3.IntSort())
        s = f(lst.t)
        k = fresh('k', z3.IntSort())
        x = fresh('x', st.elem.sort())
        n = list_len(lst)
        arr = lst.ty.arr(lst.t)
        ctx.assume(z3.ForAll([k], z3.Implies(z3.And(0 <= k, k < n), z3.Select(s, z3.Select(arr, k)))))
        ctx.assume(z3.ForAll([x], z3.Implies(z3.Select(s, x),
                                             z3.And(0 <= w(lst.t, x), w(lst.t, x) < n,
                                                    z3.Select(arr, w(lst.t, x)) == x))))
        self.libs_used.add('LC-SET: set(list) has exactly the members of the list')
        return V(st, s)

    def sorted_of_set(self, s, ctx):
        """sorted(set) for int sets: strictly increasing enumeration of the set (LC-SORTED)"""
        if s.ty.elem != INT:
            raise OutOfSubset('sorted(set) of non-int')
        lt = TList(INT)
        f = z3.Function('sorted_of', s.ty.sort(), lt.sort())
        idx = z3.Function('sorted_idx', s.ty.sort(), z3.IntSort(), z3.IntSort())
        r = f(s.t)
        arr, n = lt.arr(r), lt.n(r)
        j = fresh('j', z3.IntSort())
        k = fresh('k', z3.IntSort())
        x = fresh('x', z3.IntSort())
        ctx.assume(n >= 0)
        ctx.assume(z3.ForAll([k], z3.Implies(z3.And(0 <= k, k < n), z3.Select(s.t, z3.Select(arr, k)))))
        ctx.assume(z3.ForAll([x], z3.Implies(z3.Select(s.t, x),
                                             z3.And(0 <= idx(s.t, x), idx(s.t, x) < n,
                                                    z3.Select(arr, idx(s.t, x)) == x))))
        ctx.assume(z3.ForAll([j, k], z3.Implies(z3.And(0 <= j, j < k, k < n),
                                                z3.Select(arr, j) < z3.Select(arr, k))))
        # consequence of strict monotonicity over the integers (proved by induction on k-j; see lemmas.py)
        ctx.assume(z3.ForAll([j, k], z3.Implies(z3.And(0 <= j, j <= k, k < n),
                                                z3.Select(arr, k) - z3.Select(arr, j) >= k - j)))
        self.libs_used.add('LC-SORTED: sorted(set) is the strictly increasing enumeration of the set')
        return V(lt, r)

    def sorted_tuples_of_set(self, s, ctx):
        """sorted(set of int tuples) (also with key=lambda x: (x[0], .., x[m-1])): the strictly increasing enumeration in
        lexicographic order (LC-SORTED)"""
        et = s.ty.elem
        lt = TList(et)
        nm = et.name.replace('[', '_').replace(']', '').replace(',', '_')
        f = z3.Function('sorted_of_' + nm, s.ty.sort(), lt.sort())
        idx = z3.Function('sorted_idx_' + nm, s.ty.sort(), et.sort(), z3.IntSort())
        r = f(s.t)
        arr, n = lt.arr(r), lt.n(r)
        j = fresh('j', z3.IntSort())
        k = fresh('k', z3.IntSort())
        x = fresh('x', et.sort())
        parts = lambda t: [et.acc(i, t) for i in range(len(et.elems))]

        def lex_lt(a, b):
            res = z3.BoolVal(False)
            for pa, pb in reversed(list(zip(parts(a), parts(b)))):
                res = z3.Or(pa < pb, z3.And(pa == pb, res))
            return res
        ctx.assume(n >= 0)
        ctx.assume(z3.ForAll([k], z3.Implies(z3.And(0 <= k, k < n), z3.Select(s.t, z3.Select(arr, k)))))
        ctx.assume(z3.ForAll([x], z3.Implies(z3.Select(s.t, x), z3.And(0 <= idx(s.t, x), idx(s.t, x) < n, z3.Select(arr, idx(s.t, x)) == x))))
        ctx.assume(z3.ForAll([j, k], z3.Implies(z3.And(0 <= j, j < k, k < n), lex_lt(z3.Select(arr, j), z3.Select(arr, k)))))
        self.libs_used.add('LC-SORTED: sorted(set) is the strictly increasing enumeration of the set (tuples: lexicographic order)')
        return V(lt, r)

    def str_repeat(self, a, b, ctx):
        raise OutOfSubset('str * int')

    # ------------------------------------------------------------------ calls
    def call(self, n, ctx, ev):
        f = n.func
        if isinstance(f, ast.Name):
            name = f.id
            if ctx.spec:
                r = self.spec_call(name, n, ctx, ev)
                if r is not None:
                    return r
            if name == 'deepcopy':
                self.libs_used.add('LC-DEEPCOPY: deepcopy/copy return an equal value (value semantics; freshness is C08\'s frame claim)')
                return ev.ev(n.args[0], ctx)
            if name in self.ctors:
                tgt = self.ctors[name]
                if tgt.startswith('contract:'):
                    return self.call_contract(tgt[len('contract:'):], n, ctx, ev)
                return self.construct(tgt, n, ctx, ev)
            lam = ctx.env.get('__lambda__' + name)
            if lam is not None:
                # a local `name = lambda a, ..: body`: the call is the body with the parameters bound (free names read the current state)
                if len(lam.args.args) != len(n.args) or n.keywords or lam.args.defaults:
                    raise OutOfSubset('call of a local lambda with keywords / defaults')
                vals = [ev.ev(a, ctx) for a in n.args]
                saved = dict(ctx.env)
                for a_, v_ in zip(lam.args.args, vals):
                    ctx.env[a_.arg] = v_
                try:
                    return ev.ev(lam.body, ctx)
                finally:
                    ctx.env.clear()
                    ctx.env.update(saved)
            b = getattr(self, 'bi_' + name, None)
            if b is not None:
                return b(n, ctx, ev)
            q = self.resolve(name)
            if q:
                return self.call_contract(q, n, ctx, ev)
            raise OutOfSubset(f'call to {name} (line {getattr(n, "lineno", "?")})')
        if isinstance(f, ast.Attribute):
            if ast.unparse(f) in ('copy.deepcopy', 'copy.copy'):
                self.libs_used.add('LC-DEEPCOPY: deepcopy/copy return an equal value (value semantics; freshness is C08\'s frame claim)')
                return ev.ev(n.args[0], ctx)
            if ast.unparse(f) in ('itertools.permutations', 'itertools.combinations', 'itertools.combinations_with_replacement',
                                  'itertools.product'):
                return self.itertools_call(f.attr, n, ctx, ev)
            recv = ev.ev(f.value, ctx)
            if isinstance(recv.ty, TRec) and recv.ty.name in getattr(self, 'unions', {}) and 's' in recv.ty.fields \
                    and recv.ty.fields['s'] == STR and self.method_qual(recv.ty, f.attr) is None and not ctx.spec:
                # a str method on a union-typed value (text | int | float): AttributeError unless it is the text kind; from here on the
                # variable IS its text
                ctx.exc('AttributeError', recv.ty.get('kind', recv.t) != self.unions[recv.ty.name]['str'])
                recv = V(STR, recv.ty.get('s', recv.t))
                if isinstance(f.value, ast.Name):
                    ctx.env[f.value.id] = recv
            rr = recv
            am = getattr(self, 'abstract_methods', {})
            if isinstance(rr.ty, TAbs) and (rr.ty.name, f.attr) in am:
                # a method of an opaque type declared in the contract module (ABSTRACT_METHODS): an uninterpreted function of the
                # receiver and the arguments
                argtys, rty = am[(rr.ty.name, f.attr)]
                argtys = [parse_type(a, self.aliases) for a in argtys]
                rty = parse_type(rty, self.aliases)
                fn_ = z3.Function(f'am_{rr.ty.name}_{f.attr}', *([rr.ty.sort()] + [a.sort() for a in argtys] + [rty.sort()]))
                args = [coerce(ev.ev(a, ctx), ty).t for a, ty in zip(n.args, argtys)]
                return V(rty, fn_(rr.t, *args))
            if isinstance(rr.ty, TOpt) and isinstance(rr.ty.inner, (TRec, TDict)):
                rr = ev.unwrap_opt(rr, ctx, 'AttributeError')
            if isinstance(rr.ty, TRec):
                if f.attr in ('copy',) and not n.args:
                    self.libs_used.add('LC-DEEPCOPY: deepcopy/copy return an equal value (value semantics; freshness is C08\'s frame claim)')
                    return rr
                q = self.method_qual(rr.ty, f.attr)
                if q:
                    pos, kw = self.args_of(n, ctx, ev)
                    if self.contracts[q].d.get('mutates'):
                        # the callee edits its receiver: re-read the receiver AFTER the arguments were evaluated (they may have
                        # edited it too), and write the new value back to the variable it came from
                        if isinstance(f.value, ast.Call) and not ctx.spec:
                            # a temporary (e.g. Parser(text).parse()): the edited receiver is dropped with the temporary
                            tmp = '__tmp_recv%d' % getattr(n, 'lineno', 0)
                            ctx.env[tmp] = rr
                            return self.call_bound(q, [('self', rr)], pos, kw, ctx, getattr(n, 'lineno', 0), writeback={'self': tmp})
                        if not isinstance(f.value, ast.Name):
                            raise OutOfSubset(f'mutating method .{f.attr} on a non-variable receiver (line {getattr(n, "lineno", "?")})')
                        rr = ev.ev(f.value, ctx)
                        return self.call_bound(q, [('self', rr)], pos, kw, ctx, getattr(n, 'lineno', 0), writeback={'self': f.value.id})
                    return self.call_bound(q, [('self', rr)], pos, kw, ctx, getattr(n, 'lineno', 0))
                raise OutOfSubset(f'method .{f.attr} of {rr.ty} has no contract (line {getattr(n, "lineno", "?")})')
            recv = rr
            if isinstance(recv.ty, TOpt) or recv.ty == NONE:
                recv = ev.unwrap_opt(recv, ctx, 'AttributeError')      # None.method() raises AttributeError
                if recv.ty == NONE:
                    return V(INT, fresh('junk', z3.IntSort()))
            m = getattr(self, 'meth_' + f.attr, None)
            if m is not None:
                return m(recv, n, ctx, ev)
            raise OutOfSubset(f'method .{f.attr} (line {getattr(n, "lineno", "?")})')
        raise OutOfSubset('call form')

    def resolve(self, name):
        tag = ''
        if self.cur is not None:
            mod = self.cur.qual.split(':')[0]
            if f'{mod}:{name}' in self.contracts:
                return f'{mod}:{name}'
            if '@' in self.cur.qual:
                # inside a specialised contract ('fn@tag'): a callee specialised under the same tag (or the tag named by `callee_tag`)
                tag = '@' + (self.cur.d.get('callee_tag') or self.cur.qual.split('@')[1])
                if f'{mod}:{name}{tag}' in self.contracts:
                    return f'{mod}:{name}{tag}'
        return self.short_by_name.get(name) or (self.short_by_name.get(name + tag) if tag else None)

    def args_of(self, n, ctx, ev):
        if any(isinstance(a, ast.Starred) for a in n.args) or any(k.arg is None for k in n.keywords):
            raise OutOfSubset('*args/**kwargs')
        return [ev.ev(a, ctx) for a in n.args], {k.arg: ev.ev(k.value, ctx) for k in n.keywords}

    def construct(self, rname, n, ctx, ev):
        rty = RECORDS[rname]
        pos, kw = self.args_of(n, ctx, ev)
        vals = {}
        for (f, _), v in zip(rty.fields.items(), pos):
            vals[f] = v
        vals.update(kw)
        terms = []
        for f, fty in rty.fields.items():
            if f in vals:
                v_ = vals[f]
                if isinstance(v_.ty, TOpt) and not isinstance(fty, TOpt):
                    # a possibly-None value stored in a field typed non-Optional: type-invariant obligation
                    v_ = ev.unwrap_opt(v_, ctx, 'TypeError')
                terms.append(coerce(v_, fty).t)
            elif isinstance(fty, TOpt):
                terms.append(fty.none())     # dataclass default None
            else:
                raise OutOfSubset(f'constructor {rname}: field {f} not given')
        return V(rty, rty.mk(*terms))

    def call_contract(self, q, n, ctx, ev):
        pos, kw = self.args_of(n, ctx, ev)
        return self.call_bound(q, [], pos, kw, ctx, getattr(n, 'lineno', 0))

    def call_bound(self, q, pre, pos, kw, ctx, line, writeback=None):
        c = self.contracts[q]
        names = list(c.params)
        binding = dict(pre)
        free = [nm for nm in names if nm not in binding]
        for nm, v in zip(free, pos):
            binding[nm] = v
        for k, v in kw.items():
            if k not in c.params:
                raise OutOfSubset(f'unknown keyword {k} for {q}')
            binding[k] = v
        defaults = c.param_defaults or self.sigs.get(q, {})
        for nm in names:
            if nm not in binding:
                if nm not in defaults:
                    raise OutOfSubset(f'missing argument {nm} for {q}')
                binding[nm] = self.const_value(defaults[nm]) if defaults[nm] is not None else mk_none()
        env = {}
        for nm in names:
            pty = c.ty(c.params[nm])
            v_ = binding[nm]
            if isinstance(v_.ty, TOpt) and not isinstance(pty, TOpt) and not ctx.spec:
                v_ = self.ev.unwrap_opt(v_, ctx, 'TypeError')   # None passed where the callee's contract wants a value
            elif isinstance(v_.ty, TOpt) and not isinstance(pty, TOpt):
                v_ = V(v_.ty.inner, v_.ty.val(v_.t))
            env[nm] = coerce(v_, pty)
        if c.trusted:
            self.trusted_used.add(q)
        ghosts = {}
        assumes = []
        for g, gty in c.d.get('ghost_params', {}).items():
            # ghost arguments: bound by name from the caller's ghosts / variables
            src = None
            if self.cur is not None and g in getattr(self.cur, 'ghost_vals', {}):
                src = self.cur.ghost_vals[g]
            elif g in ctx.env:
                src = ctx.env[g]
            if src is None:
                raise OutOfSubset(f'ghost argument {g} of {q} not available in caller')
            ghosts[g] = coerce(src, c.ty(gty))
        for g, text in c.ghost.items():
            gv, a = self.spec_eval(text, env, ghosts=ghosts)
            ghosts[g] = gv
            assumes += a
        if not ctx.spec and self.cur is not None and q == self.cur.qual and c.d.get('measure'):
            # a recursive call: the callee's measure is non-negative and strictly below the caller's (termination of the recursion)
            mc, am = self.spec_eval(c.d['measure'], env, ghosts=ghosts)
            for x in am:
                ctx.assume(x)
            m0 = getattr(self.cur, 'measure_val', None)
            if m0 is not None:
                ctx.side.append((f'recursion-measure-decreases@{line}', ctx.guard_term(), z3.And(to_int(mc) >= 0, to_int(mc) < to_int(m0))))
        if not ctx.spec:
            for lab, text in _labelled(c.requires):
                g, a = self.spec_bool(text, env, ghosts=ghosts)
                for x in a:
                    ctx.assume(x)
                ctx.side.append((f'call:{q.split(":")[1]}.requires[{lab}]@{line}', ctx.guard_term(), g))
        for x in assumes:
            ctx.assume(x)
        for cls, cond in c.raises.items():
            if cond is None:
                ctx.exc(cls, fresh('mayraise', z3.BoolSort()), line)
            else:
                g, a = self.spec_bool(cond, env, ghosts=ghosts)
                for x in a:
                    ctx.assume(x)
                if c.d.get('raises_inexact'):
                    g = z3.And(g, fresh('mayraise', z3.BoolSort()))     # "only if": under the condition the callee MAY raise
                ctx.exc(cls, g, line)
        rty = c.ty(c.returns)
        if c.d.get('pure'):
            # a pure callee (no side effects, deterministic -- its frame contract is C08's): the result is an
            # uninterpreted FUNCTION of the arguments, so equal arguments give the same result term
            f_ = z3.Function('pure_' + q.split(':')[1].replace('@', '_').replace('.', '_'),
                             *([env[nm].ty.sort() for nm in names] + [rty.sort()]))
            res = V(rty, f_(*[env[nm].t for nm in names]))
            wf = self.wf(res)
        else:
            res, wf = self.fresh_value('ret_' + q.split(':')[1].replace('@', '_'), rty)
        for x in wf:
            ctx.assume(x)
        env2 = dict(env)
        env2['result'] = res
        env2['yields'] = res
        finals = {}
        for p_ in c.d.get('mutates', []):
            nv, wf2 = self.fresh_value(p_ + '_after_' + q.split(':')[1].split('.')[-1], env[p_].ty)
            for x in wf2:
                ctx.assume(x)
            finals[p_] = nv
            env2[p_ + '_final'] = nv
        stack = self.__dict__.setdefault('_ens_stack', [])
        if q not in stack:
            # (a postcondition that mentions its own function -- symmetry of an equality -- is not unfolded again inside itself)
            stack.append(q)
            try:
                for lab, text in _labelled(c.ensures):
                    g, a = self.spec_bool(text, env2, ghosts=ghosts)
                    for x in a:
                        ctx.assume(x)
                    ctx.assume(g)
            finally:
                stack.pop()
        if finals and not ctx.spec:
            for p_, nv in finals.items():
                var = (writeback or {}).get(p_)
                if var is None:
                    raise OutOfSubset(f'{q} mutates `{p_}` but the call site gives no variable to write back to')
                old_v = ctx.env[var]
                if ctx.guards:
                    g_ = z3.And(*ctx.guards)
                    ctx.env[var] = V(nv.ty, z3.If(g_, nv.t, coerce(old_v, nv.ty).t))
                else:
                    ctx.env[var] = nv
        return res

    def _close_assumes(self, ctx, start, zvars, excs_from=None):
        names = {str(v) for v in zvars}
        from .execute import _consts_of
        for i in range(start, len(ctx.assumes)):
            a = ctx.assumes[i]
            if _consts_of(a) & names:
                ctx.assumes[i] = z3.ForAll(list(zvars), a)
        if excs_from is not None:
            for i in range(excs_from, len(ctx.excs)):
                cls, cond, line = ctx.excs[i]
                if _consts_of(cond) & names:
                    ctx.excs[i] = (cls, z3.Exists(list(zvars), cond), line)

    # ---- spec-only functions
    def spec_call(self, name, n, ctx, ev):
        if name in ('forall', 'exists'):
            lam = n.args[0]
            if not isinstance(lam, ast.Lambda):
                raise OutOfSubset('forall needs a lambda')
            saved = dict(ctx.env)
            vs = []
            a = lam.args
            defaults = [None] * (len(a.args) - len(a.defaults)) + list(a.defaults)
            for arg, d in zip(a.args, defaults):
                ty = INT if d is None else parse_type(ast.unparse(d), self.aliases)
                c = z3.Const(arg.arg, ty.sort())
                vs.append(c)
                ctx.env[arg.arg] = V(ty, c)
            n_as = len(ctx.assumes)
            ctx.binders += 1
            try:
                body = truthy(ev.ev(lam.body, ctx))
            finally:
                ctx.binders -= 1
            ctx.env.clear()
            ctx.env.update(saved)
            # axioms instantiated for terms under the binder hold for every value of the bound variables
            self._close_assumes(ctx, n_as, vs)
            return V(BOOL, (z3.ForAll if name == 'forall' else z3.Exists)(vs, body))
        if name == 'implies':
            a = truthy(ev.ev(n.args[0], ctx))
            b = truthy(ev.ev(n.args[1], ctx))
            return V(BOOL, z3.Implies(a, b))
        if name == 'iff':
            a = truthy(ev.ev(n.args[0], ctx))
            b = truthy(ev.ev(n.args[1], ctx))
            return V(BOOL, a == b)
        if name == 'ite':
            c = truthy(ev.ev(n.args[0], ctx))
            a = ev.ev(n.args[1], ctx)
            b = ev.ev(n.args[2], ctx)
            ty = join_types(a.ty, b.ty)
            return V(ty, z3.If(c, coerce(a, ty).t, coerce(b, ty).t))
        if name == 'count':
            bag = ev.ev(n.args[0], ctx)
            x = ev.ev(n.args[1], ctx)
            if isinstance(bag.ty, TBag):
                return V(INT, z3.Select(bag.t, coerce(x, bag.ty.elem).t))
            raise OutOfSubset('count on non-bag')
        if name == 'old':
            nm = n.args[0].id
            return ctx.old[nm]
        if name == 'some':  # unwrap an Optional in a spec (caller guards with `is not None`)
            v = ev.ev(n.args[0], ctx)
            while isinstance(v.ty, TOpt):
                v = V(v.ty.inner, v.ty.val(v.t))
            return v
        if name == 'psum':
            # psum(lambda x: g(x), seq, k): the sum of g over the first k elements of seq (the fold that sum(g(x) for x in seq) denotes)
            lam = n.args[0]
            src = ev.ev(n.args[1], ctx)
            while isinstance(src.ty, TOpt):
                src = V(src.ty.inner, src.ty.val(src.t))
            seq = self.as_sequence(src, ctx)
            if seq is None or not isinstance(lam, ast.Lambda):
                raise OutOfSubset('psum form')
            k_ = to_int(ev.ev(n.args[2], ctx))
            return self.fold_sum(seq, lam.args.args[0].arg, lam.body, k_, ctx, ev)
        if name == 'items':
            v = ev.ev(n.args[0], ctx)
            while isinstance(v.ty, TOpt):
                v = V(v.ty.inner, v.ty.val(v.t))
            return self.items_of(v, ctx)
        if name == 'substr':
            # substr(s, start, length): the plain substring function (no index clamping): for 0 <= start, start + length <= len(s)
            s_ = ev.ev(n.args[0], ctx)
            a_ = to_int(ev.ev(n.args[1], ctx))
            l_ = to_int(ev.ev(n.args[2], ctx))
            return V(STR, z3.SubString(s_.t, a_, l_))
        if name == 'rematch':
            P_ = ev.ev(n.args[0], ctx)
            T_ = ev.ev(n.args[1], ctx)
            return V(TList(INT), z3.Function('REMATCH', z3.StringSort(), z3.StringSort(), TList(INT).sort())(P_.t, T_.t))
        if name == 'litocc':
            P_ = ev.ev(n.args[0], ctx)
            T_ = ev.ev(n.args[1], ctx)
            return self.literal_occurrences(P_, T_, ctx)
        if name == 'same':
            # frame equality: the very same value (for lists / dicts: same array and length, not just equal elements) -- what
            # "this field was not touched" means; stronger than Python's ==
            a = ev.ev(n.args[0], ctx)
            b = ev.ev(n.args[1], ctx)
            ty = join_types(a.ty, b.ty)
            return V(BOOL, coerce(a, ty).t == coerce(b, ty).t)
        if name == 'set_of':
            return self.set_of_list(ev.ev(n.args[0], ctx), ctx)
        if name == 'set_add':
            s = ev.ev(n.args[0], ctx)
            x = ev.ev(n.args[1], ctx)
            if z3.is_K(s.t) and s.ty.elem != x.ty and x.ty in (INT, STR):
                s = coerce(s, TSet(x.ty))       # `set()` literal: typed by its first element
            return V(s.ty, z3.Store(s.t, coerce(x, s.ty.elem).t, True))
        if name == 'sorted_set':
            return self.sorted_of_set(ev.ev(n.args[0], ctx), ctx)
        if name in ('float_of', 'float_parses'):
            x = ev.ev(n.args[0], ctx)
            if name == 'float_of':
                return V(REAL, z3.Function('float_of', z3.StringSort(), z3.RealSort())(x.t))
            return V(BOOL, z3.Function('float_parses', z3.StringSort(), z3.BoolSort())(x.t))
        if name == 'py_str':
            # the text an f-string writes for a number (the function the code's own f'{x}' denotes, LC-NUMTEXT)
            x = ev.ev(n.args[0], ctx)
            if x.ty not in (INT, REAL, BOOL):
                raise OutOfSubset(f'py_str of {x.ty}')
            return V(STR, z3.Function('py_str_' + x.ty.name, x.ty.sort(), z3.StringSort())(x.t))
        if name == 'dict_set':
            # dict_set(d, k, x): the dictionary d after d[k] = x
            d = ev.ev(n.args[0], ctx)
            if isinstance(d.ty, TOpt):
                d = ev.unwrap_opt(d, ctx)
            k = coerce(ev.ev(n.args[1], ctx), d.ty.k)
            x = coerce(ev.ev(n.args[2], ctx), d.ty.v)
            return V(d.ty, d.ty.mk(z3.Store(d.ty.has(d.t), k.t, True), z3.Store(d.ty.at(d.t), k.t, x.t)))
        if name == 'real':
            v = ev.ev(n.args[0], ctx)
            return V(REAL, to_real(v))
        if name == 'round':
            return self.bi_round(n, ctx, ev)
        if name == 'iprefix':
            sv = ev.ev(n.args[0], ctx)
            return V(BOOL, self.iprefix(sv.t, n.args[1].value))
        if name == 'sumto':
            lst = ev.ev(n.args[0], ctx)
            k = ev.ev(n.args[1], ctx)
            return self.list_sum(lst, to_int(k), ctx)
        if name in self.funcs:
            argtys, rty = self.funcs[name]
            argtys = [parse_type(a, self.aliases) for a in argtys]
            rty = parse_type(rty, self.aliases)
            f_ = z3.Function('spec_' + name, *([a.sort() for a in argtys] + [rty.sort()]))
            args = [coerce(ev.ev(a, ctx), ty).t for a, ty in zip(n.args, argtys)]
            return V(rty, f_(*args))
        q_ = self.resolve(name)
        if q_ and self.contracts[q_].d.get('pure'):
            return self.call_contract(q_, n, ctx, ev)
        if name in self.macros:
            params, text = self.macros[name]
            args = [ev.ev(a, ctx) for a in n.args]
            saved = dict(ctx.env)
            ctx.env.update(dict(zip(params, args)))
            r = ev.ev(ast.parse(text.strip(), mode='eval').body, ctx)
            ctx.env.clear()
            ctx.env.update(saved)
            return r
        return None

    # ---- builtins
    def bi_len(self, n, ctx, ev):
        v = ev.ev(n.args[0], ctx)
        v = ev.unwrap_opt(v, ctx)
        if v.ty == NONE:
            return V(INT, fresh('junk', z3.IntSort()))      # len(None): the TypeError is already recorded (under the current guards)
        if v.ty == STR:
            return V(INT, z3.Length(v.t))
        if isinstance(v.ty, TList):
            return V(INT, list_len(v))
        if isinstance(v.ty, TTuple):
            return mk_int(len(v.ty.elems))
        if isinstance(v.ty, TDict):
            return self.dict_len(v, ctx)
        if isinstance(v.ty, TAbs) and v.ty.name in getattr(self, 'opaque_lists', ()):
            return V(INT, list_len(self.items_of(v, ctx)))
        if isinstance(v.ty, TRec):
            q = self.method_qual(v.ty, '__len__')
            if q:
                return self.call_bound(q, [('self', v)], [], {}, ctx, getattr(n, 'lineno', 0))
        raise OutOfSubset(f'len of {v.ty}')

    def _minmax(self, n, ctx, ev, is_min):
        args = [ev.ev(a, ctx) for a in n.args]
        if len(args) == 1 and isinstance(args[0].ty, TList):
            lst = args[0]
            ctx.exc('ValueError', list_len(lst) == 0)
            r, _ = self.fresh_value('minmax', lst.ty.elem)
            k = fresh('k', z3.IntSort())
            w = fresh('w', z3.IntSort())
            nn = list_len(lst)
            elem = lambda i: list_at(lst, i)
            cmp = (lambda a, b: a <= b) if is_min else (lambda a, b: a >= b)
            _, rt, _ = unify_num(r, r)
            ctx.assume(z3.Implies(nn > 0, z3.And(0 <= w, w < nn, elem(w).t == r.t)))
            ctx.assume(z3.ForAll([k], z3.Implies(z3.And(0 <= k, k < nn), cmp(r.t, elem(k).t))))
            self.libs_used.add('LC-MINMAX: min/max of a list is an element bounding all elements')
            return r
        args = [ev.unwrap_opt(a, ctx) for a in args]
        r = args[0]
        for b in args[1:]:
            ty, x, y = unify_num(r, b)
            r = V(ty, z3.If((x <= y) if is_min else (x >= y), x, y))
        return r

    def bi_min(self, n, ctx, ev):
        return self._minmax(n, ctx, ev, True)

    def bi_max(self, n, ctx, ev):
        return self._minmax(n, ctx, ev, False)

    def bi_any(self, n, ctx, ev):
        a = n.args[0]
        if isinstance(a, (ast.List, ast.Tuple)):
            vals = [truthy(ev.ev(e, ctx)) for e in a.elts]
            return V(BOOL, z3.Or(*vals) if vals else z3.BoolVal(False))
        raise OutOfSubset('any() of a non-literal')

    def bi_all(self, n, ctx, ev):
        a = n.args[0]
        if isinstance(a, (ast.List, ast.Tuple)):
            vals = [truthy(ev.ev(e, ctx)) for e in a.elts]
            return V(BOOL, z3.And(*vals) if vals else z3.BoolVal(True))
        raise OutOfSubset('all() of a non-literal')

    def dict_len(self, d, ctx):
        f = z3.Function('dlen_' + d.ty.name.replace('[', '_').replace(']', '_').replace(',', '_'), d.ty.sort(), z3.IntSort())
        k = fresh('k', d.ty.k.sort())
        ctx.assume(f(d.t) >= 0)
        ctx.assume((f(d.t) == 0) == z3.ForAll([k], z3.Not(z3.Select(d.ty.has(d.t), k))))
        return V(INT, f(d.t))

    def bi_abs(self, n, ctx, ev):
        v = ev.unwrap_opt(ev.ev(n.args[0], ctx), ctx)
        if v.ty == REAL:
            return V(REAL, z3.If(v.t >= 0, v.t, -v.t))
        t = to_int(v)
        return V(INT, z3.If(t >= 0, t, -t))

    def bi_set(self, n, ctx, ev):
        if not n.args:
            hint = getattr(n, '_elem_ty', None) or INT
            return V(TSet(hint), z3.K(hint.sort(), False))
        v = ev.ev(n.args[0], ctx)
        if isinstance(v.ty, TList):
            return self.set_of_list(v, ctx)
        if isinstance(v.ty, TSet):
            return v
        if isinstance(v.ty, TDict):
            return V(TSet(v.ty.k), v.ty.has(v.t))     # set(d): the key set
        if isinstance(v.ty, TBag):
            st = TSet(v.ty.elem)
            s = fresh('setofbag', st.sort())
            t = fresh('t', st.elem.sort())
            ctx.assume(z3.ForAll([t], z3.Select(s, t) == (z3.Select(v.t, t) > 0)))
            return V(st, s)
        raise OutOfSubset(f'set({v.ty})')

    def bi_Counter(self, n, ctx, ev):
        """collections.Counter(list): an uninterpreted multiset abstraction MS(list value); Counter(a) == Counter(b) is
        equality of the abstractions (LC-COUNTER).  Only ==/!= are modelled on the result."""
        v = ev.unwrap_opt(ev.ev(n.args[0], ctx), ctx)          # Counter(None) raises TypeError
        if not isinstance(v.ty, (TList, TAbs)):
            raise OutOfSubset(f'Counter({v.ty})')
        rt = TAbs('Multiset_' + v.ty.name.replace('[', '_').replace(']', '').replace(',', '_'))
        f_ = z3.Function('MS_' + rt.name, v.ty.sort(), rt.sort())
        self.libs_used.add('LC-COUNTER: Counter(x) is a function of the list value x; Counter equality is multiset equality '
                           '(order-insensitive) -- the abstraction MS is uninterpreted, element hashing / __eq__ of Mod and Interval are trusted')
        if isinstance(v.ty, TList):
            # the abstraction depends on the elements only (not on the array beyond the length): extensionally equal lists
            # have the same multiset
            a, b = z3.Const('msA', v.ty.sort()), z3.Const('msB', v.ty.sort())
            k = z3.Const('msk', z3.IntSort())
            ext = z3.And(v.ty.n(a) == v.ty.n(b),
                         z3.ForAll([k], z3.Implies(z3.And(0 <= k, k < v.ty.n(a)),
                                                   z3.Select(v.ty.arr(a), k) == z3.Select(v.ty.arr(b), k))))
            ctx.assume(z3.ForAll([a, b], z3.Implies(ext, f_(a) == f_(b)), patterns=[z3.MultiPattern(f_(a), f_(b))]))
        return V(rt, f_(v.t))

    def itertools_call(self, name, n, ctx, ev):
        """itertools.permutations / combinations / combinations_with_replacement / product(list, k): the standard enumeration as an
        uninterpreted function IT_<name>(list value, k) -> list of lists (LC-ITERTOOLS); its order and cardinality are the library's"""
        src = ev.unwrap_opt(ev.ev(n.args[0], ctx), ctx)
        if not isinstance(src.ty, TList):
            raise OutOfSubset(f'itertools.{name} over {src.ty}')
        if name == 'product':
            kw = {k.arg: k.value for k in n.keywords}
            if len(n.args) != 1 or set(kw) != {'repeat'}:
                raise OutOfSubset('itertools.product form')
            kn = kw['repeat']
        else:
            if len(n.args) != 2 or n.keywords:
                raise OutOfSubset(f'itertools.{name} form')
            kn = n.args[1]
        k = to_int(ev.unwrap_opt(ev.ev(kn, ctx), ctx))
        rt = TList(TList(src.ty.elem))
        f_ = z3.Function('IT_' + name + '_' + src.ty.elem.name, src.ty.sort(), z3.IntSort(), rt.sort())
        r = f_(src.t, k)
        ctx.assume(rt.n(r) >= 0)
        self.libs_used.add('LC-ITERTOOLS: itertools.permutations / combinations / combinations_with_replacement / product are functions of '
                           '(list value, size); order and count of their results are the library\'s (bounded tier compares with the counts)')
        return V(rt, r)

    def meth_join(self, recv, n, ctx, ev):
        if recv.ty == STR and len(n.args) == 1:
            x = ev.ev(n.args[0], ctx)
            if isinstance(x.ty, TList) and x.ty.elem == STR:
                jf = getattr(self, 'join_fold', None)
                if jf and z3.is_string_value(z3.simplify(recv.t)) and z3.simplify(recv.t).as_string() == '':
                    # ''.join(list): the module's concatenation fold over the list (JOIN_FOLD names the spec function, defined by its
                    # 0 / step equations in the module's AXIOMS)
                    argtys, rty = self.funcs[jf]
                    fj = z3.Function('spec_' + jf, x.ty.sort(), z3.IntSort(), z3.StringSort())
                    return V(STR, fj(x.t, list_len(x)))
                f_ = z3.Function('str_join', z3.StringSort(), x.ty.sort(), z3.StringSort())
                self.libs_used.add('LC-JOIN: sep.join(list of str) is an uninterpreted function of (sep, list value)')
                return V(STR, f_(recv.t, x.t))
        raise OutOfSubset(f'.join on {recv.ty}')

    def meth_get(self, recv, n, ctx, ev):
        if isinstance(recv.ty, TDict) and 1 <= len(n.args) <= 2:
            k = coerce(ev.ev(n.args[0], ctx), recv.ty.k)
            has = z3.Select(recv.ty.has(recv.t), k.t)
            val = V(recv.ty.v, z3.Select(recv.ty.at(recv.t), k.t))
            if len(n.args) == 2:
                d = ev.ev(n.args[1], ctx)
                ty = join_types(val.ty, d.ty)
                return V(ty, z3.If(has, coerce(val, ty).t, coerce(d, ty).t))
            ot = TOpt(recv.ty.v)
            return V(ot, z3.If(has, ot.some(val.t), ot.none()))
        raise OutOfSubset(f'.get on {recv.ty}')

    def meth_split(self, recv, n, ctx, ev):
        """s.split(sep) as a value: SPLIT(s, sep), a non-empty list of texts -- a function of (s, sep) (LC-SPLIT); the indexed forms
        s.split(sep)[0] / [1] are modelled exactly elsewhere (Evaluator.split_index)"""
        if recv.ty == STR and len(n.args) == 1:
            sep = ev.ev(n.args[0], ctx)
            if sep.ty == STR:
                lt = TList(STR)
                r = z3.Function('str_split', z3.StringSort(), z3.StringSort(), lt.sort())(recv.t, sep.t)
                ctx.assume(lt.n(r) >= 1)
                self.libs_used.add('LC-SPLIT: s.split(sep) is a non-empty list of texts, a function of (s, sep)')
                return V(lt, r)
        raise OutOfSubset(f'.split on {recv.ty}')

    def meth_count(self, recv, n, ctx, ev):
        if recv.ty == STR and len(n.args) == 1:
            x = ev.ev(n.args[0], ctx)
            if x.ty == STR:
                f_ = z3.Function('str_count', z3.StringSort(), z3.StringSort(), z3.IntSort())
                ctx.assume(f_(recv.t, x.t) >= 0)
                self.libs_used.add('LC-COUNT: s.count(sub) is a non-negative function of (s, sub)')
                return V(INT, f_(recv.t, x.t))
        raise OutOfSubset(f'.count on {recv.ty}')

    def meth_copy(self, recv, n, ctx, ev):
        if isinstance(recv.ty, (TDict, TList, TSet)) and not n.args:
            self.libs_used.add('LC-DEEPCOPY: deepcopy/copy return an equal value (value semantics; freshness is C08\'s frame claim)')
            return recv
        raise OutOfSubset(f'.copy() on {recv.ty}')

    def meth_keys(self, recv, n, ctx, ev):
        if isinstance(recv.ty, TDict) and not n.args:
            return V(TSet(recv.ty.k), recv.ty.has(recv.t))     # a dict's key view, as a set value
        raise OutOfSubset(f'.keys() on {recv.ty}')

    def meth_union(self, recv, n, ctx, ev):
        if isinstance(recv.ty, TSet) and len(n.args) == 1:
            o = ev.ev(n.args[0], ctx)
            if isinstance(o.ty, TSet) and o.ty.elem == recv.ty.elem:
                x = fresh('u', recv.ty.elem.sort())
                r = fresh('union', recv.ty.sort())
                ctx.assume(z3.ForAll([x], z3.Select(r, x) == z3.Or(z3.Select(recv.t, x), z3.Select(o.t, x))))
                return V(recv.ty, r)
        raise OutOfSubset(f'.union on {recv.ty}')

    def sorted_items(self, d, ctx):
        """sorted(d.items(), key=lambda x: x[0]) for a dictionary with numeric keys: the (key, value) pairs in strictly increasing key
        order, each key of the dictionary exactly once (LC-SORTED)"""
        dt = d.ty
        tt = TTuple([dt.k, dt.v])
        lt = TList(tt)
        nm = dt.name.replace('[', '_').replace(']', '').replace(',', '_')
        r = z3.Function('sorted_items_' + nm, dt.sort(), lt.sort())(d.t)
        idx = z3.Function('sorted_items_idx_' + nm, dt.sort(), dt.k.sort(), z3.IntSort())
        arr, n = lt.arr(r), lt.n(r)
        j, k = fresh('j', z3.IntSort()), fresh('k', z3.IntSort())
        x = fresh('x', dt.k.sort())
        key = lambda t: tt.acc(0, t)
        val = lambda t: tt.acc(1, t)
        ctx.assume(n >= 0)
        ctx.assume(z3.ForAll([k], z3.Implies(z3.And(0 <= k, k < n), z3.And(z3.Select(dt.has(d.t), key(z3.Select(arr, k))),
                                                                            val(z3.Select(arr, k)) == z3.Select(dt.at(d.t), key(z3.Select(arr, k)))))))
        ctx.assume(z3.ForAll([x], z3.Implies(z3.Select(dt.has(d.t), x), z3.And(0 <= idx(d.t, x), idx(d.t, x) < n, key(z3.Select(arr, idx(d.t, x))) == x))))
        ctx.assume(z3.ForAll([j, k], z3.Implies(z3.And(0 <= j, j < k, k < n), key(z3.Select(arr, j)) < key(z3.Select(arr, k)))))
        self.libs_used.add('LC-SORTED: sorted(d.items(), key=first component) lists every key of d once with its value, in strictly increasing key order')
        return V(lt, r)

    def bi_sorted(self, n, ctx, ev):
        a0 = n.args[0]
        if isinstance(a0, ast.Call) and isinstance(a0.func, ast.Attribute) and a0.func.attr == 'items' and not a0.args and len(n.keywords) == 1 \
                and n.keywords[0].arg == 'key' and isinstance(n.keywords[0].value, ast.Lambda) \
                and ast.unparse(n.keywords[0].value.body) == n.keywords[0].value.args.args[0].arg + '[0]':
            d_ = ev.unwrap_opt(ev.ev(a0.func.value, ctx), ctx)
            if isinstance(d_.ty, TDict) and d_.ty.k in (INT, REAL):
                return self.sorted_items(d_, ctx)
        v = ev.ev(n.args[0], ctx)
        if isinstance(v.ty, TList) and len(n.keywords) == 1 and n.keywords[0].arg == 'key' and isinstance(n.keywords[0].value, ast.Lambda) \
                and len(n.keywords[0].value.args.args) == 1:
            return self.sorted_list_by_key(v, n.keywords[0].value, ctx, ev)
        if n.keywords:
            # only key=lambda x: (x[0], x[1], .., x[m-1]) on a set of m-tuples of ints: the identity key, i.e. plain lexicographic order
            ok = len(n.keywords) == 1 and n.keywords[0].arg == 'key' and isinstance(n.keywords[0].value, ast.Lambda) \
                and isinstance(v.ty, TSet) and isinstance(v.ty.elem, TTuple) and all(e == INT for e in v.ty.elem.elems)
            if ok:
                lam = n.keywords[0].value
                p_ = lam.args.args[0].arg
                want = '(' + ', '.join(f'{p_}[{i}]' for i in range(len(v.ty.elem.elems))) + ')'
                ok = ast.unparse(lam.body) == want
            if not ok:
                raise OutOfSubset('sorted with key')
            return self.sorted_tuples_of_set(v, ctx)
        if isinstance(v.ty, TSet) and isinstance(v.ty.elem, TTuple) and all(e == INT for e in v.ty.elem.elems):
            return self.sorted_tuples_of_set(v, ctx)
        if isinstance(v.ty, TSet):
            return self.sorted_of_set(v, ctx)
        raise OutOfSubset(f'sorted({v.ty})')

    def sorted_list_by_key(self, v, lam, ctx, ev):
        """sorted(L, key=lambda x: k(x)) on a list: a list of the same length which IS L when L is already in non-decreasing key order
        (LC-SORT-STABLE: Python's sort is stable, so an already sorted list is returned element for element); otherwise only the length
        is known (the permutation is not modelled)"""
        lt = v.ty
        r = fresh('sorted', lt.sort())
        n_ = lt.n(v.t)
        j, k = z3.Int('j!srt'), z3.Int('k!srt')

        def key_at(ix):
            saved = dict(ctx.env)
            ctx.env[lam.args.args[0].arg] = V(lt.elem, z3.Select(lt.arr(v.t), ix))
            try:
                kv = ev.ev(lam.body, ctx)
            finally:
                ctx.env.clear()
                ctx.env.update(saved)
            if not is_num(kv):
                raise OutOfSubset('sorted(list, key=..) with a non-numeric key')
            return to_real(kv)
        n_as = len(ctx.assumes)
        kj, kk = key_at(j), key_at(k)
        self._close_assumes(ctx, n_as, [j, k])
        in_order = z3.ForAll([j, k], z3.Implies(z3.And(0 <= j, j <= k, k < n_), kj <= kk))
        ctx.assume(lt.n(r) == n_)
        ctx.assume(z3.Implies(in_order, r == v.t))
        self.libs_used.add('LC-SORT-STABLE: sorted(L, key=f) has the length of L and IS L when L is already in non-decreasing key order '
                           '(stable sort); the permutation of an unsorted list is not modelled')
        return V(lt, r)

    def bi_list(self, n, ctx, ev):
        if not n.args:
            hint = getattr(n, '_elem_ty', None) or INT
            return ev.list_literal([], hint)
        v = ev.ev(n.args[0], ctx)
        if isinstance(v.ty, (TBag, TList)):
            return v   # list(generator): order abstracted, stays a bag; list(list): value copy
        if isinstance(n.args[0], ast.Call) and isinstance(n.args[0].func, ast.Name) and n.args[0].func.id == 'range':
            return v
        raise OutOfSubset(f'list({v.ty})')

    def bi_range(self, n, ctx, ev):
        """range as a value (only list(range(a,b)) with unit step)"""
        args = [to_int(ev.unwrap_opt(ev.ev(a, ctx), ctx)) for a in n.args]
        if len(args) == 1:
            lo, hi = z3.IntVal(0), args[0]
        elif len(args) == 2:
            lo, hi = args
        else:
            raise OutOfSubset('range step as value')
        lt = TList(INT)
        k = fresh('k', z3.IntSort())
        ln = z3.If(hi > lo, hi - lo, z3.IntVal(0))
        arr = fresh('rng', z3.ArraySort(z3.IntSort(), z3.IntSort()))
        ctx.assume(z3.ForAll([k], z3.Select(arr, k) == lo + k))
        return V(lt, lt.mk(arr, ln))

    def bi_isinstance(self, n, ctx, ev):
        v = ev.ev(n.args[0], ctx)
        tn = ast.unparse(n.args[1])
        if v.ty == NONE:
            return mk_bool(False)                      # None is an instance of none of the classes tested for
        if isinstance(n.args[1], ast.Tuple) and v.ty in (INT, REAL, STR, BOOL):
            names_ = [ast.unparse(e_) for e_ in n.args[1].elts]
            prim = {'int': INT, 'float': REAL, 'str': STR, 'bool': BOOL}
            return mk_bool(any(prim.get(x) == v.ty or (x == 'int' and v.ty == BOOL) for x in names_))
        if isinstance(n.args[1], ast.Tuple) and isinstance(v.ty, (TDict, TList, TBag)):
            # a dictionary / list value against a tuple of classes: an instance only of its own container class
            names_ = [ast.unparse(e_) for e_ in n.args[1].elts]
            own = ('Dict', 'dict') if isinstance(v.ty, TDict) else ('List', 'list')
            return mk_bool(any(x in own for x in names_))
        if tn in ('Dict', 'dict'):
            if isinstance(v.ty, TOpt) and isinstance(v.ty.inner, TDict):
                return V(BOOL, z3.Not(v.ty.is_none(v.t)))
            return mk_bool(isinstance(v.ty, TDict))
        table = {'int': INT, 'float': REAL, 'str': STR, 'bool': BOOL}
        if isinstance(v.ty, TAbs):
            return mk_bool(tn == v.ty.name)
        if isinstance(v.ty, TOpt) and isinstance(v.ty.inner, TAbs) and tn not in ('int', 'float', 'str', 'bool'):
            return V(BOOL, z3.And(z3.Not(v.ty.is_none(v.t)), z3.BoolVal(tn == v.ty.inner.name)))
        if isinstance(v.ty, TRec) and self.ctors.get(tn) == v.ty.name:
            return mk_bool(True)       # a parameter typed as the record IS an instance of its class (contract `params`)
        if isinstance(v.ty, TRec) and v.ty.name in self.unions:
            # a union-typed value (e.g. Mod.val : str | int | float): record with a `kind` tag
            kinds = self.unions[v.ty.name]
            names_ = [x.strip() for x in tn.strip('()').split(',')]
            if all(x in kinds for x in names_):
                return V(BOOL, z3.Or(*[v.ty.get('kind', v.t) == kinds[x] for x in names_]))
            raise OutOfSubset(f'isinstance({v.ty.name}, {tn})')
        if tn in table:
            ty = v.ty
            if isinstance(ty, TOpt):
                return V(BOOL, z3.And(z3.Not(ty.is_none(v.t)), z3.BoolVal(ty.inner == table[tn])))
            return mk_bool(ty == table[tn] or (tn == 'int' and ty == BOOL))
        if v.ty in (INT, REAL, STR, BOOL) and tn not in table and tn not in ('List', 'list') and tn[:1].isupper():
            return mk_bool(False)          # a number / a text is not an instance of a class
        if tn in ('List', 'list'):
            if isinstance(v.ty, TOpt) and isinstance(v.ty.inner, (TList, TBag)):
                return V(BOOL, z3.Not(v.ty.is_none(v.t)))
            return mk_bool(isinstance(v.ty, (TList, TBag)))     # a bag models a list whose order is abstracted
        raise OutOfSubset(f'isinstance {tn}')

    def bi_zip(self, n, ctx, ev):
        """zip(a, b) of two lists as a value: the list of pairs, as long as the shorter one (a function of both list values)"""
        if len(n.args) != 2 or n.keywords:
            raise OutOfSubset('zip form')
        a = ev.unwrap_opt(ev.ev(n.args[0], ctx), ctx)
        b = ev.unwrap_opt(ev.ev(n.args[1], ctx), ctx)
        if not (isinstance(a.ty, TList) and isinstance(b.ty, TList)):
            raise OutOfSubset(f'zip({a.ty}, {b.ty})')
        tt = TTuple([a.ty.elem, b.ty.elem])
        lt = TList(tt)
        nm = 'ZIP_' + lt.name.replace('[', '_').replace(']', '').replace(',', '_')
        r = z3.Function(nm, a.ty.sort(), b.ty.sort(), lt.sort())(a.t, b.t)
        la, lb = list_len(a), list_len(b)
        ctx.assume(lt.n(r) == z3.If(la <= lb, la, lb))
        if getattr(ctx, 'binders', 0) == 0:
            k = fresh('k', z3.IntSort())
            ctx.assume(z3.ForAll([k], z3.Implies(z3.And(0 <= k, k < lt.n(r)),
                                                 z3.Select(lt.arr(r), k) == tt.mk(z3.Select(a.ty.arr(a.t), k), z3.Select(b.ty.arr(b.t), k)))))
        return V(lt, r)

    # ---- sequences that can be folded: lists, opaque lists (through their item view), strings (characters)
    def items_of(self, v, ctx):
        """an opaque list value (e.g. ModList) seen as the list of its opaque items: ITEMS(v), a function of the value"""
        lt = TList(TAbs(v.ty.name + '_item'))
        r = z3.Function('items_' + v.ty.name, v.ty.sort(), lt.sort())(v.t)
        ctx.assume(lt.n(r) >= 0)
        return V(lt, r)

    def as_sequence(self, v, ctx):
        """-> (element type, length term, at(k) -> element term, key term identifying the sequence) or None"""
        if isinstance(v.ty, TAbs) and v.ty.name in getattr(self, 'opaque_lists', ()):
            v = self.items_of(v, ctx)
        if isinstance(v.ty, TList):
            return v.ty.elem, list_len(v), (lambda k: z3.Select(v.ty.arr(v.t), k)), v.t
        if v.ty == STR:
            return STR, z3.Length(v.t), (lambda k: z3.SubString(v.t, k, 1)), v.t
        return None

    def bind_target(self, tgt, val, env):
        """bind a comprehension / generator target (a name or a tuple of names, `_` allowed) to a value"""
        if isinstance(tgt, ast.Name):
            env[tgt.id] = val
            return True
        if isinstance(tgt, (ast.Tuple, ast.List)) and isinstance(val.ty, TTuple) and len(tgt.elts) == len(val.ty.elems):
            return all(self.bind_target(t, p, env) for t, p in zip(tgt.elts, tuple_parts(val)))
        return False

    def fold_sum(self, seq, var, body, upto, ctx, ev):
        """FOLD_<g>(sequence, c1..cn, k) = g(seq[0]) + .. + g(seq[k-1]) for the expression g = body(var): a spec function named by the
        expression, defined by FOLD(.., 0) = 0 and FOLD(.., k+1) = FOLD(.., k) + g(seq[k]); a KeyError / IndexError inside g is raised
        if it is raised for some element"""
        et, ln, at, key = seq
        e = z3.Const('e!fold', et.sort())
        saved = dict(ctx.env)
        if isinstance(var, str):
            ctx.env[var] = V(et, e)
        elif not self.bind_target(var, V(et, e), ctx.env):
            raise OutOfSubset('generator target')
        n_as, n_ex = len(ctx.assumes), len(ctx.excs)
        saved_g = list(ctx.guards)
        elt = ev.ev(body, ctx)
        ctx.guards[:] = saved_g
        ctx.env.clear()
        ctx.env.update(saved)
        if elt.ty not in (INT, REAL, BOOL):
            raise OutOfSubset(f'sum of {elt.ty}')
        rt = REAL if elt.ty == REAL else INT
        g_ = to_real(elt) if rt == REAL else to_int(elt)
        kk = z3.Const('k!fold', z3.IntSort())
        # exceptions inside g: raised iff raised for some element of the sequence
        for i_ in range(n_ex, len(ctx.excs)):
            cls, cond, line = ctx.excs[i_]
            if 'e!fold' in {str(c) for c in _z3_consts(cond)}:
                ctx.excs[i_] = (cls, z3.Exists([kk], z3.And(0 <= kk, kk < ln, z3.substitute(cond, (e, at(kk))))), line)
        # assumptions made while evaluating g hold for every element
        self._close_assumes(ctx, n_as, [e])
        import hashlib
        text_, cargs = _canon(g_, ('e!fold',))
        nm = 'FOLD_' + hashlib.sha1((text_ + '|' + str(et)).encode()).hexdigest()[:12]
        f_ = z3.Function(nm, *([key.sort()] + [c.sort() for c in cargs] + [z3.IntSort(), rt.sort()]))
        if getattr(ctx, 'binders', 0) == 0:
            zero = z3.RealVal(0) if rt == REAL else z3.IntVal(0)
            ctx.assume(f_(key, *cargs, z3.IntVal(0)) == zero)
            ctx.assume(z3.ForAll([kk], z3.Implies(kk >= 0, f_(key, *cargs, kk + 1) == f_(key, *cargs, kk) + z3.substitute(g_, (e, at(kk))))))
        self.libs_used.add('SPEC-FOLD: sum(g(x) for x in seq) is the left fold FOLD(seq,0)=0, FOLD(seq,k+1)=FOLD(seq,k)+g(seq[k]) (A-REAL: exact addition)')
        return V(rt, f_(key, *cargs, upto))

    def bi_sum(self, n, ctx, ev):
        if len(n.args) == 1 and isinstance(n.args[0], ast.GeneratorExp):
            gen = n.args[0]
            g = gen.generators[0]
            if len(gen.generators) == 1 and not g.ifs and isinstance(g.target, (ast.Name, ast.Tuple)) and self._elt_calls_pure(gen.elt):
                src = ev.unwrap_opt(ev.ev(g.iter, ctx), ctx)
                seq = self.as_sequence(src, ctx)
                if seq is not None:
                    return self.fold_sum(seq, g.target, gen.elt, seq[1], ctx, ev)
        v = ev.ev(n.args[0], ctx)
        if isinstance(v.ty, TList) and v.ty.elem in (INT, REAL):
            return self.list_sum(v, list_len(v), ctx)
        raise OutOfSubset(f'sum({v.ty})')

    def list_sum(self, lst, upto, ctx):
        """SUM(lst, k) = lst[0]+..+lst[k-1]: recursive spec function, defining axioms added for this list term"""
        et = lst.ty.elem
        f = z3.Function('SUM_' + et.name, lst.ty.sort(), z3.IntSort(), et.sort())
        k = fresh('k', z3.IntSort())
        zero = z3.IntVal(0) if et == INT else z3.RealVal(0)
        if getattr(ctx, 'binders', 0) > 0:
            return V(et, f(lst.t, upto))     # under a binder: a name for the fold, compared by congruence (see Evaluator.slice)
        ctx.assume(f(lst.t, 0) == zero)
        ctx.assume(z3.ForAll([k], z3.Implies(k >= 0, f(lst.t, k + 1) == f(lst.t, k) + z3.Select(lst.ty.arr(lst.t), k))))
        self.libs_used.add('SPEC-SUM: sum(list) is the recursive left fold SUM(l,0)=0, SUM(l,k+1)=SUM(l,k)+l[k]')
        return V(et, f(lst.t, upto))

    def bi_round(self, n, ctx, ev):
        x = ev.unwrap_opt(ev.ev(n.args[0], ctx), ctx)
        if len(n.args) == 1:
            raise OutOfSubset('round(x) to int')
        p = ev.unwrap_opt(ev.ev(n.args[1], ctx), ctx)
        f = z3.Function('round_fn', z3.RealSort(), z3.IntSort(), z3.RealSort())
        self.libs_used.add('LC-ROUND: round(x, p) is an uninterpreted function of (x, p) (A-REAL); only round(x,p)==round(x,p) is used')
        return V(REAL, f(to_real(x), to_int(p)))

    def bi_float(self, n, ctx, ev):
        v = ev.unwrap_opt(ev.ev(n.args[0], ctx), ctx)
        if is_num(v):
            return V(REAL, to_real(v))
        if v.ty == STR:
            # LC-NUMTEXT: float(text) either raises ValueError or returns a number determined by the text
            ok = z3.Function('float_parses', z3.StringSort(), z3.BoolSort())
            val = z3.Function('float_of', z3.StringSort(), z3.RealSort())
            ctx.exc('ValueError', z3.Not(ok(v.t)))
            ctx.assume(z3.Not(ok(z3.StringVal(''))))
            self.libs_used.add('LC-NUMTEXT: float(text) raises ValueError or returns float_of(text); the empty text does not parse')
            return V(REAL, val(v.t))
        raise OutOfSubset('float(non-number)')

    def bi_int(self, n, ctx, ev):
        v = ev.unwrap_opt(ev.ev(n.args[0], ctx), ctx)
        if v.ty in (INT, BOOL):
            return V(INT, to_int(v))
        if v.ty == STR:
            # LC-NUMTEXT: int(text) either raises ValueError or returns an integer determined by the text
            ok = z3.Function('int_parses', z3.StringSort(), z3.BoolSort())
            val = z3.Function('int_of', z3.StringSort(), z3.IntSort())
            ctx.exc('ValueError', z3.Not(ok(v.t)))
            ctx.assume(z3.Not(ok(z3.StringVal(''))))
            self.libs_used.add('LC-NUMTEXT: int(text) raises ValueError or returns int_of(text); the empty text does not parse')
            return V(INT, val(v.t))
        raise OutOfSubset('int(non-int)')

    def meth_isdigit(self, recv, n, ctx, ev):
        f = z3.Function('str_isdigit', z3.StringSort(), z3.BoolSort())
        lit = z3.simplify(recv.t)
        if z3.is_string_value(lit):
            return mk_bool(lit.as_string().isdigit())      # a ground string: the interpreter's own answer (used by GROUND_FORALL checks)
        return V(BOOL, f(recv.t))

    # ---- non-mutating methods
    def meth_index(self, recv, n, ctx, ev):
        x = ev.ev(n.args[0], ctx)
        if isinstance(recv.ty, TList):
            r = fresh('idx', z3.IntSort())
            k = fresh('k', z3.IntSort())
            nn = list_len(recv)
            ctx.exc('ValueError', z3.Not(ev.member(x, recv, ctx)))
            ctx.assume(z3.Implies(ev.member(x, recv, ctx),
                                  z3.And(0 <= r, r < nn, values_equal(list_at(recv, r), x),
                                         z3.ForAll([k], z3.Implies(z3.And(0 <= k, k < r),
                                                                   z3.Not(values_equal(list_at(recv, k), x)))))))
            self.libs_used.add('LC-INDEX: list.index returns the first position of the element')
            return V(INT, r)
        if recv.ty == STR and x.ty == STR and len(n.args) in (1, 2):
            # str.index(sub[, start]): the first occurrence at or after start (0 <= start <= len), ValueError if there is none
            start = to_int(ev.unwrap_opt(ev.ev(n.args[1], ctx), ctx)) if len(n.args) == 2 else z3.IntVal(0)
            ln = z3.Length(recv.t)
            st_ = z3.If(start < 0, z3.If(start + ln < 0, 0, start + ln), start)
            r = z3.IndexOf(recv.t, x.t, st_)
            ctx.exc('ValueError', z3.Or(r < 0, st_ > ln))
            return V(INT, r)
        raise OutOfSubset('.index')

    def meth_lower(self, recv, n, ctx, ev):
        f = z3.Function('str_lower', z3.StringSort(), z3.StringSort())
        ctx.assume(z3.Length(f(recv.t)) == z3.Length(recv.t))
        self.libs_used.add('A-ASCII: str.lower() changes no length and maps only A-Z to a-z (non-ASCII case mappings excluded)')
        return V(STR, f(recv.t))

    def iprefix(self, s_term, lit):
        """case-insensitive (ASCII) prefix test of a string term against a lower-case literal"""
        conds = [z3.Length(s_term) >= len(lit)]
        for i, ch in enumerate(lit):
            c_ = z3.SubString(s_term, i, 1)
            alts = {ch, ch.upper()}
            conds.append(z3.Or(*[c_ == z3.StringVal(a) for a in sorted(alts)]))
        return z3.And(*conds)

    def meth_startswith(self, recv, n, ctx, ev):
        x = ev.ev(n.args[0], ctx)
        if z3.is_app(recv.t) and recv.t.decl().name() == 'str_lower' and isinstance(n.args[0], ast.Constant) \
                and n.args[0].value == n.args[0].value.lower():
            return V(BOOL, self.iprefix(recv.t.arg(0), n.args[0].value))
        return V(BOOL, z3.PrefixOf(x.t, recv.t))

    def meth_endswith(self, recv, n, ctx, ev):
        x = ev.ev(n.args[0], ctx)
        return V(BOOL, z3.SuffixOf(x.t, recv.t))

    # ------------------------------------------------------------------ comprehensions
    def _comp_domain(self, gens, ctx, ev, bound):
        """returns (vars, guard) for nested `for x in range(..)` / `for x in list` clauses with ifs"""
        guards = []
        zvars = []
        for g in gens:
            it = g.iter
            if isinstance(it, ast.Call) and isinstance(it.func, ast.Name) and it.func.id == 'range' \
                    and isinstance(g.target, ast.Name):
                args = [to_int(ev.unwrap_opt(ev.ev(a, ctx), ctx)) for a in it.args]
                x = fresh(g.target.id, z3.IntSort())
                zvars.append(x)
                ctx.env[g.target.id] = V(INT, x)
                if len(args) == 1:
                    guards += [0 <= x, x < args[0]]
                elif len(args) == 2:
                    guards += [args[0] <= x, x < args[1]]
                else:
                    st = z3.simplify(args[2])
                    if z3.is_int_value(st) and st.as_long() == -1:
                        guards += [x <= args[0], x > args[1]]
                    elif z3.is_int_value(st) and st.as_long() == 1:
                        guards += [args[0] <= x, x < args[1]]
                    else:
                        raise OutOfSubset('range step in comprehension')
            else:
                raise OutOfSubset('comprehension iterable')
            for cond in g.ifs:
                saved = list(ctx.guards)
                ctx.guards.extend(guards)
                guards.append(truthy(ev.ev(cond, ctx)))
                ctx.guards[:] = saved
        return zvars, guards

    def comprehension_bag(self, n, ctx, ev):
        """generator expression over ranges -> bag with exact multiplicity, provided the element expression is
        injective on the index domain (side obligation)."""
        saved_env = dict(ctx.env)
        n_as, n_ex = len(ctx.assumes), len(ctx.excs)
        zvars, guards = self._comp_domain(n.generators, ctx, ev, None)
        saved_g = list(ctx.guards)
        ctx.guards.extend(guards)
        elt = ev.ev(n.elt, ctx)
        ctx.guards[:] = saved_g
        self._close_assumes(ctx, n_as, zvars, n_ex)
        ctx.env.clear()
        ctx.env.update(saved_env)
        bt = TBag(elt.ty)
        B = fresh('genexp', bt.sort())
        t = fresh('t', elt.ty.sort())
        dom = z3.And(*guards) if guards else z3.BoolVal(True)
        ctx.assume(z3.ForAll([t], z3.Select(B, t) ==
                             z3.If(z3.Exists(zvars, z3.And(dom, elt.t == t)), z3.IntVal(1), z3.IntVal(0))))
        # injectivity side obligation
        zv2 = [fresh(str(v).split('!')[0] + '_b', v.sort()) for v in zvars]
        sub = list(zip(zvars, zv2))
        dom2 = z3.substitute(dom, *sub)
        elt2 = z3.substitute(elt.t, *sub)
        # (free fresh constants: proving the goal valid == proving it for all index values)
        zv1 = [fresh(str(v).split('!')[0] + '_a', v.sort()) for v in zvars]
        sub1 = list(zip(zvars, zv1))
        goal = z3.Implies(z3.And(z3.substitute(dom, *sub1), dom2, z3.substitute(elt.t, *sub1) == elt2),
                          z3.And(*[a == b for a, b in zip(zv1, zv2)]))
        ctx.side.append((f'comprehension-injective@{getattr(n, "lineno", 0)}', ctx.guard_term(), goal))
        return V(bt, B)

    def literal_list_to_bag(self, v):
        """a list value of concrete length (a literal) as a bag; None if the length is symbolic"""
        if not isinstance(v.ty, TList):
            return None
        nn = z3.simplify(list_len(v))
        if not z3.is_int_value(nn):
            return None
        bt = TBag(v.ty.elem)
        b = z3.K(v.ty.elem.sort(), z3.IntVal(0))
        for i in range(nn.as_long()):
            x = z3.simplify(z3.Select(v.ty.arr(v.t), i))
            b = z3.Store(b, x, z3.Select(b, x) + 1)
        return V(bt, b)

    def bag_filter_comprehension(self, n, ctx, ev):
        """[x for x in B if cond(x)] over a bag B: the bag of the members satisfying cond, multiplicities kept"""
        g = n.generators[0]
        src = ev.ev(g.iter, ctx)
        if not (isinstance(src.ty, TBag) and isinstance(g.target, ast.Name) and isinstance(n.elt, ast.Name)
                and n.elt.id == g.target.id and len(n.generators) == 1):
            return None
        bt = src.ty
        x = fresh(g.target.id, bt.elem.sort())
        saved_env = dict(ctx.env)
        ctx.env[g.target.id] = V(bt.elem, x)
        n_as, n_ex = len(ctx.assumes), len(ctx.excs)
        saved_g = list(ctx.guards)
        ctx.guards.append(z3.Select(src.t, x) > 0)
        conds = []
        for cnd in g.ifs:
            c_ = truthy(ev.ev(cnd, ctx))
            conds.append(c_)
            ctx.guards.append(c_)
        ctx.guards[:] = saved_g
        self._close_assumes(ctx, n_as, [x], n_ex)
        ctx.env.clear()
        ctx.env.update(saved_env)
        r = fresh('bagfilter', bt.sort())
        cond = z3.And(*conds) if conds else z3.BoolVal(True)
        ctx.assume(z3.ForAll([x], z3.Select(r, x) == z3.If(cond, z3.Select(src.t, x), z3.IntVal(0))))
        return V(bt, r)

    def _elt_calls_pure(self, elt):
        """every call in the element expression of a comprehension resolves to a pure contract, a str method or len()"""
        for c in ast.walk(elt):
            if isinstance(c, (ast.Yield, ast.Await, ast.NamedExpr, ast.Lambda, ast.ListComp, ast.GeneratorExp)):
                return False
            if not isinstance(c, ast.Call):
                continue
            f = c.func
            if isinstance(f, ast.Name):
                if f.id in ('len', 'str', 'int', 'float', 'abs', 'min', 'max', 'round'):
                    continue
                q = self.resolve(f.id)
                if q and self.contracts[q].d.get('pure'):
                    continue
                return False
            if isinstance(f, ast.Attribute):
                if f.attr in ('join', 'lower', 'startswith', 'endswith', 'isdigit'):
                    continue
                qs = [q for q in self.contracts if q.split(':')[1].split('@')[0].endswith('.' + f.attr)]
                if qs and all(self.contracts[q].d.get('pure') for q in qs):
                    continue
                return False
            return False
        return True

    # ---- re.finditer(pattern, text, overlapped=True) with a LITERAL pattern (a residue string): the ascending list of all offsets
    def literal_occurrences(self, P, T, ctx):
        """LITOCC(P, T): every offset p with T[p:p+len(P)] == P, ascending, each once (LC-REGEX-LITERAL: the pattern is a string of
        plain letters, so the regular expression matches exactly its own text; overlapped=True reports overlapping matches)"""
        lt = TList(INT)
        f = z3.Function('LITOCC', z3.StringSort(), z3.StringSort(), lt.sort())
        idx = z3.Function('LITOCC_idx', z3.StringSort(), z3.StringSort(), z3.IntSort(), z3.IntSort())
        r = f(P.t, T.t)
        arr, n = lt.arr(r), lt.n(r)
        lp, ltx = z3.Length(P.t), z3.Length(T.t)
        j, k, p = fresh('j', z3.IntSort()), fresh('k', z3.IntSort()), fresh('p', z3.IntSort())
        occ = lambda x: z3.And(0 <= x, x + lp <= ltx, z3.SubString(T.t, x, lp) == P.t)
        ctx.assume(n >= 0)
        ctx.assume(z3.ForAll([k], z3.Implies(z3.And(0 <= k, k < n), occ(z3.Select(arr, k)))))
        ctx.assume(z3.ForAll([j, k], z3.Implies(z3.And(0 <= j, j < k, k < n), z3.Select(arr, j) < z3.Select(arr, k))))
        ctx.assume(z3.ForAll([p], z3.Implies(occ(p), z3.And(0 <= idx(P.t, T.t, p), idx(P.t, T.t, p) < n,
                                                             z3.Select(arr, idx(P.t, T.t, p)) == p))))
        # `P in T` holds exactly when there is an occurrence
        ctx.assume(z3.Contains(T.t, P.t) == (n > 0))
        self.libs_used.add('LC-REGEX-LITERAL: re.finditer(P, T, overlapped=True) for a pattern of plain letters yields exactly the offsets p with '
                           'T[p:p+len(P)] == P, ascending, each once; `P in T` iff there is one')
        return V(lt, r)

    def finditer_comprehension(self, n, ctx, ev):
        """[m.start() for m in re.finditer(P, T, overlapped=True) (if cond(m.start()))] -> list of offsets, or None"""
        if len(n.generators) != 1:
            return None
        g = n.generators[0]
        it = g.iter
        if isinstance(it, ast.Call) and ast.unparse(it.func) == 're.finditer' and len(it.args) == 2 and not it.keywords \
                and isinstance(g.target, ast.Name) and not g.ifs and isinstance(n.elt, ast.Call) and ast.unparse(n.elt) == g.target.id + '.start()':
            # [m.start() for m in re.finditer(pattern, text)]: the offsets of the (non-overlapping) matches -- REMATCH(pattern, text), an
            # ascending list of offsets inside the text, otherwise uninterpreted (LC-REGEX)
            P_ = ev.unwrap_opt(ev.ev(it.args[0], ctx), ctx)
            T_ = ev.unwrap_opt(ev.ev(it.args[1], ctx), ctx)
            if P_.ty == STR and T_.ty == STR:
                lt_ = TList(INT)
                r_ = z3.Function('REMATCH', z3.StringSort(), z3.StringSort(), lt_.sort())(P_.t, T_.t)
                j_, k_ = fresh('j', z3.IntSort()), fresh('k', z3.IntSort())
                ctx.assume(lt_.n(r_) >= 0)
                ctx.assume(z3.ForAll([k_], z3.Implies(z3.And(0 <= k_, k_ < lt_.n(r_)),
                                                      z3.And(0 <= z3.Select(lt_.arr(r_), k_), z3.Select(lt_.arr(r_), k_) <= z3.Length(T_.t)))))
                ctx.assume(z3.ForAll([j_, k_], z3.Implies(z3.And(0 <= j_, j_ < k_, k_ < lt_.n(r_)), z3.Select(lt_.arr(r_), j_) < z3.Select(lt_.arr(r_), k_))))
                self.libs_used.add('LC-REGEX: re.finditer(pattern, text) yields matches at ascending offsets inside the text; which offsets is the regular-expression engine\'s business')
                return V(lt_, r_)
        if not (isinstance(it, ast.Call) and ast.unparse(it.func) == 're.finditer' and len(it.args) == 2 and len(it.keywords) == 1
                and it.keywords[0].arg == 'overlapped' and isinstance(it.keywords[0].value, ast.Constant) and it.keywords[0].value.value is True
                and isinstance(g.target, ast.Name)):
            return None
        m = g.target.id
        is_start = lambda x: isinstance(x, ast.Call) and isinstance(x.func, ast.Attribute) and x.func.attr == 'start' \
            and isinstance(x.func.value, ast.Name) and x.func.value.id == m and not x.args
        if not is_start(n.elt):
            return None
        P = ev.unwrap_opt(ev.ev(it.args[0], ctx), ctx)
        T = ev.unwrap_opt(ev.ev(it.args[1], ctx), ctx)
        if P.ty != STR or T.ty != STR:
            return None
        S = self.literal_occurrences(P, T, ctx)
        if not g.ifs:
            return S

        class Rw(ast.NodeTransformer):
            def visit_Call(self_, node):
                if is_start(node):
                    return ast.copy_location(ast.Name(id='__m_start', ctx=ast.Load()), node)
                return self_.generic_visit(node)
        import copy as _c
        conds = [Rw().visit(_c.deepcopy(c_)) for c_ in g.ifs]
        if any(isinstance(x, ast.Name) and x.id == m for c_ in conds for x in ast.walk(c_)):
            return None
        e = z3.Const('e!filt', z3.IntSort())
        saved = dict(ctx.env)
        ctx.env['__m_start'] = V(INT, e)
        n_as, n_ex = len(ctx.assumes), len(ctx.excs)
        cond = z3.And(*[truthy(ev.ev(ast.fix_missing_locations(c_), ctx)) for c_ in conds])
        # side conditions of evaluating cond (callee requires etc.) are stated for the members of S
        ctx.env.clear()
        ctx.env.update(saved)
        lt = S.ty
        kq = fresh('k', z3.IntSort())
        memb = z3.And(0 <= kq, kq < lt.n(S.t))
        for i_ in range(n_as, len(ctx.assumes)):
            a_ = ctx.assumes[i_]
            if 'e!filt' in {str(c) for c in _z3_consts(a_)}:
                ctx.assumes[i_] = z3.ForAll([kq], z3.Implies(memb, z3.substitute(a_, (e, z3.Select(lt.arr(S.t), kq)))))
        for i_ in range(n_ex, len(ctx.excs)):
            cls, c_, line = ctx.excs[i_]
            if 'e!filt' in {str(c) for c in _z3_consts(c_)}:
                ctx.excs[i_] = (cls, z3.Exists([kq], z3.And(memb, z3.substitute(c_, (e, z3.Select(lt.arr(S.t), kq))))), line)
        new_side = []
        for nm_, gd_, goal_ in ctx.side:
            if 'e!filt' in {str(c) for c in _z3_consts(goal_)} | {str(c) for c in _z3_consts(gd_)}:
                new_side.append((nm_, z3.BoolVal(True), z3.ForAll([kq], z3.Implies(z3.And(memb, z3.substitute(gd_, (e, z3.Select(lt.arr(S.t), kq)))),
                                                                                     z3.substitute(goal_, (e, z3.Select(lt.arr(S.t), kq)))))))
            else:
                new_side.append((nm_, gd_, goal_))
        ctx.side[:] = new_side
        import hashlib
        text_, cargs = _canon(cond, ('e!filt',))
        nm = 'FILT_' + hashlib.sha1(text_.encode()).hexdigest()[:12]
        fR = z3.Function(nm, *([lt.sort()] + [c.sort() for c in cargs] + [lt.sort()]))
        POS = z3.Function(nm + '_pos', *([lt.sort()] + [c.sort() for c in cargs] + [z3.IntSort(), z3.IntSort()]))
        INV = z3.Function(nm + '_inv', *([lt.sort()] + [c.sort() for c in cargs] + [z3.IntSort(), z3.IntSort()]))
        R = fR(S.t, *cargs)
        pos = lambda k_: POS(S.t, *cargs, k_)
        inv = lambda i_: INV(S.t, *cargs, i_)
        sat = lambda x: z3.substitute(cond, (e, x))
        j, k, i = fresh('j', z3.IntSort()), fresh('k', z3.IntSort()), fresh('i', z3.IntSort())
        nR, nS = lt.n(R), lt.n(S.t)
        ctx.assume(z3.And(nR >= 0, nR <= nS))
        ctx.assume(z3.ForAll([k], z3.Implies(z3.And(0 <= k, k < nR),
                                             z3.And(0 <= pos(k), pos(k) < nS, z3.Select(lt.arr(R), k) == z3.Select(lt.arr(S.t), pos(k)),
                                                    sat(z3.Select(lt.arr(S.t), pos(k)))))))
        ctx.assume(z3.ForAll([j, k], z3.Implies(z3.And(0 <= j, j < k, k < nR), pos(j) < pos(k))))
        ctx.assume(z3.ForAll([i], z3.Implies(z3.And(0 <= i, i < nS, sat(z3.Select(lt.arr(S.t), i))),
                                             z3.And(0 <= inv(i), inv(i) < nR, pos(inv(i)) == i))))
        self.libs_used.add('SPEC-FILTER: [x for x in S if c(x)] is the order-preserving sublist of the members satisfying c (position maps POS / INV)')
        return V(lt, R)

    def list_comprehension(self, n, ctx, ev):
        r_ = self.finditer_comprehension(n, ctx, ev)
        if r_ is not None:
            return r_
        if len(n.generators) == 1 and isinstance(n.generators[0].iter, ast.Name):
            it_v = ctx.env.get(n.generators[0].iter.id)
            if it_v is not None and isinstance(it_v.ty, TBag):
                r = self.bag_filter_comprehension(n, ctx, ev)
                if r is not None:
                    return r
        if getattr(n, '_as_bag', False):
            return self.comprehension_bag(n, ctx, ev)
        """[f(x) for x in range(a,b)] / [f(x) for x in lst] (map form, no ifs, one generator)"""
        if len(n.generators) != 1 or n.generators[0].ifs:
            raise OutOfSubset('list comprehension with filter / nesting')
        g = n.generators[0]
        it = g.iter
        saved_env = dict(ctx.env)
        k = fresh('k', z3.IntSort())
        range_lo = None
        if isinstance(it, ast.Call) and isinstance(it.func, ast.Name) and it.func.id == 'range' \
                and isinstance(g.target, ast.Name):
            args = [to_int(ev.unwrap_opt(ev.ev(a, ctx), ctx)) for a in it.args]
            lo, hi = (z3.IntVal(0), args[0]) if len(args) == 1 else (args[0], args[1])
            range_lo = lo
            if len(args) > 2:
                raise OutOfSubset('range step')
            ln = z3.If(hi > lo, hi - lo, z3.IntVal(0))
            ctx.env[g.target.id] = V(INT, lo + k)
        else:
            src = ev.ev(it, ctx)
            if not isinstance(src.ty, TList) or not self.bind_target(g.target, list_at(src, k), ctx.env):
                raise OutOfSubset('list comprehension source')
            ln = list_len(src)
        saved_g = list(ctx.guards)
        n_as, n_ex = len(ctx.assumes), len(ctx.excs)
        ctx.guards.extend([0 <= k, k < ln])
        elt = ev.ev(n.elt, ctx)
        ctx.guards[:] = saved_g
        self._close_assumes(ctx, n_as, [k], n_ex)
        ctx.env.clear()
        ctx.env.update(saved_env)
        lt = TList(elt.ty)
        R = None
        if range_lo is None and self._elt_calls_pure(n.elt) and any(isinstance(c_, ast.Call) for c_ in ast.walk(n.elt)):
            # [g(x) for x in src] where g calls pure functions (x.serialize(), mass(x) ..): the value is a FUNCTION of the source list value and
            # of whatever else the expression mentions -- MAPF_<g>(src, c1..cn) -- so the same comprehension evaluated in a
            # contract clause denotes the same list
            from .execute import _consts_of
            e = z3.Const('e!map', src.ty.elem.sort())
            g_ = z3.substitute(elt.t, (z3.Select(src.ty.arr(src.t), k), e))
            names = _consts_of(g_)
            if str(k) not in names:
                import hashlib
                text_, cargs_ = _canon(g_, ('e!map',))
                nm = 'MAPF_' + hashlib.sha1((text_ + '|' + str(lt)).encode()).hexdigest()[:12]
                f_ = z3.Function(nm, *([src.ty.sort()] + [c.sort() for c in cargs_] + [lt.sort()]))
                R = f_(src.t, *cargs_)
        if R is None:
            R = fresh('lcomp', lt.sort())
        ctx.assume(lt.n(R) == ln)
        ctx.assume(z3.ForAll([k], z3.Implies(z3.And(0 <= k, k < ln), z3.Select(lt.arr(R), k) == elt.t)))
        if range_lo is not None:
            # the same axiom indexed by the loop variable's value (gives the solver a trigger on terms of the element)
            x = fresh('x', z3.IntSort())
            elt_x = z3.substitute(elt.t, (k, x - range_lo))
            ctx.assume(z3.ForAll([x], z3.Implies(z3.And(range_lo <= x, x < range_lo + ln),
                                                 z3.Select(lt.arr(R), x - range_lo) == elt_x)))
        return V(lt, R)
