"""pyvc.runner -- one property check: deductive obligations + ground obligations + bounded stand-ins -> verdict,
evidence file, replay files.  Exit codes: 0 held / 1 violation / 2 undecided / 3 checker error."""
import importlib
import json
import os
import subprocess
import sys
import time
import traceback
import re

VERIF = os.path.dirname(os.path.dirname(os.path.abspath(__file__)))
REPO = os.environ.get('PYVC_REPO', '/repo')
VENV_PY = '/venv/bin/python'
KNOWN_OBL = {}
OUT = os.environ.get('PYVC_OUT', VERIF)   # evidence/replays root (scratch dir when testing mutants)


def key_of(name):
    """stable obligation key: function#kind[label] without @line / :path suffixes"""
    k = re.sub(r'@[^:\]]*', '', name)
    k = re.sub(r':[ps]\d+', '', k)
    return k


def load_json(path, default):
    try:
        with open(path) as f:
            return json.load(f)
    except FileNotFoundError:
        return default


class Result:
    def __init__(self, pid, tier, seed):
        self.pid = pid
        self.tier = tier
        self.seed = seed
        self.violations = []      # dicts: obligation/clause, replay path, confirmed
        self.known = []           # KNOWN-FINDING lines
        self.undecided = []
        self.errors = []
        self.obligations = 0
        self.discharged = 0
        self.by_backend = {}
        self.solver_ms = 0
        self.functions = {}       # qual -> sha
        self.verified_fns = set()  # bodies verified in this run
        self.assumed_fns = set()  # contracts assumed, never verified here (trusted)
        self.not_redischarged = set()   # verified by another property's check; callee contract only here
        self.samples = []
        self.trusted = set()
        self.assumptions = set()
        self.bounded = []
        self.ground = {'obligations': 0, 'discharged': 0}
        self.canaries = {}
        self.dead = 0
        self.out_of_subset = []
        self.notes = []


def run_deductive(spec, res, tier):
    global KNOWN_OBL
    kn_ = load_json(os.path.join(VERIF, 'known_findings.json'), {'findings': []})
    KNOWN_OBL = {(f['property'], f.get('obligation_key')): f for f in kn_.get('findings', []) if f.get('obligation_key')}
    from . import extract, solve
    from .execute import Executor, ContractOutOfDate
    from .engine import Contract
    from .expr import OutOfSubset
    import z3  # noqa
    ledger = load_json(os.path.join(VERIF, 'ledger.json'), {})
    timeout = 10000 if tier == 'quick' else 60000
    for modname in spec.get('contracts', []):
        from .execute import make_engine
        eng, cons, nodes, shas, errs = make_engine(modname, REPO)
        res.errors.extend(errs)
        res.functions.update(shas)
        for q, c in cons.items():
            if c.d.get('external'):
                res.trusted.add(f'{q} (external, contract assumed)')
        targets = spec.get('targets', {}).get(modname)
        obls = []
        for q, c in cons.items():
            if q not in nodes:
                continue
            if c.trusted:
                # every trusted contract of the module is reported (it may be assumed at a call site of a verified function), whether
                # or not this property re-discharges the whole module
                res.trusted.add(f'{q}: body not verified deductively; contract ASSUMED at call sites, '
                                f'{c.d.get("bounded_by", "checked by the bounded tier")}')
                res.assumed_fns.add(q)
                continue
            if targets is not None and q not in targets:
                res.not_redischarged.add(q)
                continue
            try:
                o, npaths = eng.generate(q, nodes[q])
                obls += o
                res.verified_fns.add(q)
            except OutOfSubset as e:
                res.out_of_subset.append(f'{q}: {e}')
                # a function that used to be in subset and no longer is: undecided, never "proved"
                res.undecided.append(dict(obligation=f'{q.split(":")[1]}#in-subset', why=f'out of verified subset: {e}',
                                          fn=q))
            except ContractOutOfDate as e:
                res.errors.append(f'contract out of date: {e}')
            except Exception:
                res.errors.append(f'engine crash on {q}: {traceback.format_exc()[-1500:]}')
        if (eng.lemmas or eng.inductive) and (targets is None or 'LEMMAS' in targets):
            try:
                obls += eng.generate_lemmas(modname, eng.lemmas)
            except OutOfSubset as e:
                res.errors.append(f'lemmas of {modname}: {e}')
        for l in sorted(eng.libs_used):
            res.assumptions.add(l)
        if eng.axioms:
            # the defining equations of the module's spec functions (and any relation assumed for an uninterpreted callee) are hypotheses
            res.assumptions.add(f'AXIOMS[{modname}]: ' + ', '.join(str(a[0]) for a in eng.axioms))
        if getattr(eng, 'inductive', None):
            res.assumptions.add(f'INDUCTION[{modname}]: ' + ', '.join(str(a[0]) for a in eng.inductive) +
                                ' -- used as hypotheses; base case and step are obligations of the same run')
        if not obls:
            continue
        main = [o for o in obls if o.expect == 'proved']
        aux = [o for o in obls if o.expect != 'proved']
        # obligations recorded as known findings (refuted / open on the pinned tree) get one short attempt: enough to notice that
        # one has become provable, without spending the whole portfolio on them in every run
        known_main = [o for o in main if (res.pid, key_of(o.name)) in KNOWN_OBL]
        other_main = [o for o in main if (res.pid, key_of(o.name)) not in KNOWN_OBL]
        r1 = solve.discharge(other_main, timeout_ms=timeout, cvc5_timeout_ms=max(60000, timeout))
        if known_main:
            r1.update(solve.discharge(known_main, timeout_ms=4000, use_cvc5=False, portfolio=False))
        r2 = solve.discharge(aux, timeout_ms=3000, use_cvc5=False)
        # retry unknowns once with a longer budget (load on the box must not flip verdicts)
        retry = [o for o in main if r1[o.name]['verdict'] == 'unknown' and (res.pid, key_of(o.name)) not in KNOWN_OBL]
        if len(retry) > 6:
            # many open obligations: a changed body, not solver noise -- retry only one representative per obligation key
            seen_k, rr = set(), []
            for o in retry:
                if key_of(o.name) not in seen_k:
                    seen_k.add(key_of(o.name))
                    rr.append(o)
            retry = rr[:6]
        if retry:
            r1b = solve.discharge(retry, timeout_ms=timeout * 3, cvc5_timeout_ms=max(180000, timeout * 3))
            for o in retry:
                r1b[o.name]['ms'] += r1[o.name]['ms']
                r1[o.name] = r1b[o.name]
        for o in main:
            r = r1[o.name]
            res.obligations += 1
            res.solver_ms += r['ms']
            key = key_of(o.name)
            if r['verdict'] == 'proved':
                res.discharged += 1
                res.by_backend[r['backend']] = res.by_backend.get(r['backend'], 0) + 1
            else:
                if (res.pid, key) in KNOWN_OBL:
                    # an obligation recorded as a known finding (refuted on the pinned tree): reported as such, never as proved
                    kf = KNOWN_OBL[(res.pid, key)]
                    line_ = f'KNOWN-FINDING: property={res.pid} {kf["what"]} [key={kf["key"]}]'
                    if line_ not in res.known:
                        res.known.append(line_)
                    continue
                base = ledger.get(key)
                fnq = o.fn
                same_src = base is not None and base.get('sha') == res.functions.get(fnq)
                model = r.get('model') or {}
                minput = None
                if r['verdict'] == 'refuted' and o.meta.get('params'):
                    minput = {p_: model.get(cn) for p_, cn in o.meta['params'].items() if cn in model}
                rec = dict(obligation=o.name, key=key, fn=fnq, verdict=r['verdict'], backend=r['backend'],
                           ms=r['ms'], model_input=minput, line=o.line,
                           solver_output={k_: str(v_)[:300] for k_, v_ in list(model.items())[:40]},
                           in_ledger=base is not None, source_changed=(base is not None and not same_src))
                if base is not None and not same_src:
                    res.violations.append(rec)       # used to be proved, source changed, now fails
                elif base is None and [k_ for k_ in ledger if k_.startswith(o.name.split('#')[0] + '#')]:
                    # a NEW obligation of a function that was proved on the baseline (e.g. an implicit-exception obligation that did
                    # not exist there) and is not proved now: a violation only if a failing input replays on the real code -- the
                    # solver's counterexample if there is one, otherwise a search of that function's bounded oracle (decided in main)
                    res.violations.append(dict(rec, needs_confirmation=True))
                else:
                    res.undecided.append(dict(rec, why='not proved and no proved baseline for a changed source'))
            if len(res.samples) < 12 and (res.obligations % 7 == 1 or r['verdict'] != 'proved'):
                res.samples.append(dict(obligation=o.name, kind=o.kind, verdict=r['verdict'], ms=r['ms'],
                                        backend=r['backend']))
        # canaries: a deliberately false clause must NOT be provable on every path
        groups = {}
        for o in aux:
            r = r2[o.name]
            res.solver_ms += r['ms']
            groups.setdefault(key_of(o.name), []).append(r['verdict'])
        for k, vs in groups.items():
            res.canaries[k] = dict(paths=len(vs), proved=vs.count('proved'), refuted=vs.count('refuted'),
                                   unknown=vs.count('unknown'))
            if all(v == 'proved' for v in vs):
                what = 'vacuous precondition' if 'requires-satisfiable' in k else 'must-fail canary was PROVED'
                res.errors.append(f'{what}: {k} -- engine or contract unsound')
    return res


def run_frame(spec, res, tier):
    """frame mode (C08): modifies / result-freshness clauses checked function by function on the real AST"""
    if not spec.get('frame'):
        return res
    from . import frame
    from contracts import frames
    ledger = load_json(os.path.join(VERIF, 'ledger.json'), {})
    repo = frame.Repo(REPO, frames.MODULES, frames.EXPLICIT)
    fr = frame.check_module_functions(repo, list(repo.funcs))
    import hashlib
    for o in fr.obligations:
        res.obligations += 1
        key = key_of(o['name'])
        if o['ok']:
            res.discharged += 1
            res.by_backend['frame-dataflow'] = res.by_backend.get('frame-dataflow', 0) + 1
            if len(res.samples) < 10 and res.obligations % 97 == 1:
                res.samples.append(dict(obligation=o['name'], kind='frame', verdict='proved', clause=o['why']))
        else:
            rec = dict(obligation=o['name'], key=key, fn=o['fn'], verdict='refuted', backend='frame-dataflow', line=o['line'],
                       solver_output={'frame': o['why']}, in_ledger=key in ledger, source_changed=True, model_input=None)
            fnkeys = [k for k in ledger if k.startswith(o['name'].split('#')[0] + '#frame')]
            if key in ledger or not fnkeys:
                # the clause of this function was discharged on the baseline (or the function is new): a failed frame obligation
                res.violations.append(rec)
            else:
                res.undecided.append(dict(rec, why='frame obligation of a kind this function did not have on the baseline'))
            res.samples.append(dict(obligation=o['name'], kind='frame', verdict='FAILED', clause=o['why']))
    res.functions.update({q: 'frame-clause' for q in list(repo.funcs)[:0]})
    res.frame_functions = len(repo.funcs)
    res.assumptions.add('frame mode: calls that resolve to no scanned function are treated as non-mutating and returning fresh objects: '
                        + ', '.join(sorted(fr.unresolved)))
    return res


def run_bounded(spec, res, tier, seed):
    known = load_json(os.path.join(VERIF, 'known_findings.json'), {'findings': [], 'fixed': []})
    known_keys = {(f['property'], f['key']): f for f in known.get('findings', [])}
    found = []
    for b in spec.get('bounded', []):
        out = os.path.join(OUT, 'evidence', f'.{res.pid}.{b["name"]}.json')
        if os.path.exists(out):
            os.unlink(out)
        cmd = [VENV_PY, os.path.join(VERIF, b['script']), '--tier', tier, '--seed', str(seed), '--out', out] + \
            b.get('args', [])
        env = dict(os.environ, PYTHONPATH=os.path.join(REPO, 'src'), PYVC_REPO=REPO, PYTHONDONTWRITEBYTECODE='1')
        t0 = time.time()
        try:
            p = subprocess.run(cmd, capture_output=True, text=True, env=env, cwd=VERIF,
                               timeout=b.get('timeout', 3600))
        except subprocess.TimeoutExpired:
            res.errors.append(f'bounded tier {b["name"]} timed out')
            continue
        data = load_json(out, None)
        if os.path.exists(out):
            os.unlink(out)
        if data is None:
            res.errors.append(f'bounded tier {b["name"]} crashed: rc={p.returncode} {p.stderr[-1500:]}')
            continue
        data['wall_s'] = round(time.time() - t0, 2)
        data['name'] = b['name']
        viols = data.pop('violations', [])
        res.bounded.append(data)
        for v in viols:
            k = (res.pid, v.get('finding_key'))
            if v.get('finding_key') and k in known_keys:
                found.append((known_keys[k], v))
            else:
                v['tier'] = b['name']
                res.violations.append(dict(obligation=f'bounded:{b["name"]}:{v.get("clause")}', bounded=True, **v))
    seen = set()
    for f, v in found:
        if f['key'] in seen:
            continue
        seen.add(f['key'])
        res.known.append(f'KNOWN-FINDING: property={res.pid} {f["what"]} [key={f["key"]}; e.g. {json.dumps(v.get("input"))[:160]}]')
    return res


def run_ground(spec, res, tier):
    for g in spec.get('ground', []):
        mod = importlib.import_module(g['module'])
        try:
            out = getattr(mod, g.get('func', 'run'))(REPO, tier)
        except Exception:
            res.errors.append(f'ground obligations {g["module"]} crashed: {traceback.format_exc()[-1500:]}')
            continue
        res.ground['obligations'] += out['obligations']
        res.ground['discharged'] += out['discharged']
        res.obligations += out['obligations']
        res.discharged += out['discharged']
        res.by_backend[out.get('backend', 'ground-eval')] = res.by_backend.get(out.get('backend', 'ground-eval'), 0) + \
            out['discharged']
        res.samples.extend(out.get('samples', [])[:4])
        for a in out.get('assumptions', []):
            res.assumptions.add(a)
        for v in out.get('violations', []):
            res.violations.append(v)
    return res


def find_replay(spec, res, viol, tier, seed):
    """a failed deductive obligation: search a failing concrete input with the bounded oracle of that function"""
    finder = spec.get('replay_finder')
    if not finder:
        return None
    out = os.path.join(OUT, 'evidence', f'.{res.pid}.finder.json')
    cmd = [VENV_PY, os.path.join(VERIF, finder), '--tier', tier, '--seed', str(seed), '--out', out,
           '--only', viol['fn'].split(':')[1]]
    env = dict(os.environ, PYTHONPATH=os.path.join(REPO, 'src'), PYVC_REPO=REPO, PYTHONDONTWRITEBYTECODE='1')
    # 1. the verifier's own counterexample, replayed on the real function
    if viol.get('model_input'):
        try:
            p = subprocess.run(cmd + ['--model-input', json.dumps(viol['model_input'])], capture_output=True, text=True,
                               env=env, cwd=VERIF, timeout=300)
            data = load_json(out, None)
            if os.path.exists(out):
                os.unlink(out)
            known_ = load_json(os.path.join(VERIF, 'known_findings.json'), {'findings': []})
            kk_ = {f['key'] for f in known_.get('findings', []) if f['property'] == res.pid}
            # (a recorded finding met on the way is not a replay of THIS obligation's counterexample)
            cands_ = [v_ for v_ in (data or {}).get('violations', []) if v_.get('finding_key') not in kk_]
            if cands_:
                w = cands_[0]
                w['source'] = 'solver counterexample replayed on the real function'
                return w
        except Exception:
            pass
    # 2. otherwise search the bounded input space of that function's oracle
    try:
        subprocess.run(cmd, capture_output=True, text=True, env=env, cwd=VERIF, timeout=1800)
    except subprocess.TimeoutExpired:
        return None
    data = load_json(out, None)
    if os.path.exists(out):
        os.unlink(out)
    known = load_json(os.path.join(VERIF, 'known_findings.json'), {'findings': []})
    kk = {f['key'] for f in known.get('findings', []) if f['property'] == res.pid}
    cands = [v_ for v_ in (data or {}).get('violations', []) if v_.get('finding_key') not in kk]
    if cands:
        return cands[0]
    return None


def write_replay(res, v, idx):
    d = os.path.join(OUT, 'replays', res.pid)
    os.makedirs(d, exist_ok=True)
    path = os.path.join(d, f'{res.tier}-{idx}.json')
    with open(path, 'w') as f:
        json.dump(v, f, indent=1, default=str)
    return os.path.relpath(path, OUT)


def main(pid, tier, seed, replay=None):
    t0 = time.time()
    os.makedirs(os.path.join(OUT, 'evidence'), exist_ok=True)
    sys.path.insert(0, VERIF)
    spec = importlib.import_module('props.' + pid).SPEC
    res = Result(pid, tier, seed)
    if replay:
        return do_replay(spec, res, replay)
    try:
        run_deductive(spec, res, tier)
        run_frame(spec, res, tier)
        run_ground(spec, res, tier)
        run_bounded(spec, res, tier, seed)
    except Exception:
        res.errors.append('checker crash: ' + traceback.format_exc()[-2000:])
    # deductive failures: try to find a concrete failing input on the real code
    known = load_json(os.path.join(VERIF, 'known_findings.json'), {'findings': [], 'fixed': []})
    known_obl = {(f['property'], f['key']): f for f in known.get('findings', [])}
    lines = []
    final_viol = []
    # one record per distinct failed obligation key / clause (before any replay search)
    seen_keys = set()
    uniq = []
    for v in res.violations:
        k_ = v.get('key') or (v.get('obligation'), v.get('finding_key'))
        if k_ in seen_keys:
            continue
        seen_keys.add(k_)
        uniq.append(v)
    res.violations = uniq
    finder_cache = {}
    for v in res.violations:
        if v.get('ground') and (pid, v.get('finding_key')) in known_obl:
            kf = known_obl[(pid, v['finding_key'])]
            line_ = f'KNOWN-FINDING: property={pid} {kf["what"]} [key={kf["key"]}]'
            if line_ not in res.known:
                res.known.append(line_)
            continue
        if not v.get('bounded') and not v.get('ground'):
            k = (pid, v.get('key'))
            if k in known_obl:
                res.known.append(f'KNOWN-FINDING: property={pid} {known_obl[k]["what"]} [obligation {v["key"]}]')
                continue
            ck = (v['fn'], json.dumps(v.get('model_input'), default=str))
            if ck not in finder_cache and (v['fn'], None) in finder_cache and not v.get('model_input'):
                ck = (v['fn'], None)
            if ck not in finder_cache:
                finder_cache[ck] = find_replay(spec, res, v, tier, seed)
                if not v.get('model_input'):
                    finder_cache[(v['fn'], None)] = finder_cache[ck]
            w = finder_cache[ck]
            if w:
                v['replayed'] = w
                v['confirmed'] = True
            elif v.get('needs_confirmation'):
                res.undecided.append(dict(v, why='refuted by the solver but the counterexample does not replay on the real code'))
                continue
            else:
                v['confirmed'] = False
        final_viol.append(v)
    res.violations = final_viol
    # one VIOLATION line per distinct failed obligation key / clause
    seen_keys = set()
    uniq = []
    for v in res.violations:
        k_ = v.get('key') or (v.get('obligation'), v.get('finding_key'))
        if k_ in seen_keys:
            continue
        seen_keys.add(k_)
        uniq.append(v)
    res.violations = uniq
    # deductive / frame violations first; at most 10 VIOLATION lines (all are counted in the evidence file)
    res.violations.sort(key=lambda v_: 1 if v_.get('bounded') else 0)
    total_viol = len(res.violations)
    for i, v in enumerate(res.violations[:10]):
        path = write_replay(res, v, i)
        tail = '' if v.get('confirmed', True) else ' no-failing-input-found'
        lines.append(f'VIOLATION property={pid} replay={path}{tail}')
    # zero obligations guard
    if spec.get('contracts') and res.obligations == 0 and not res.errors:
        res.errors.append('zero obligations generated')
    seen_k = set()
    dedup = []
    for l in res.known:
        k_ = l.split('[key=')[1].split(';')[0].rstrip(']') if '[key=' in l else l
        if k_ not in seen_k:
            seen_k.add(k_)
            dedup.append(l)
    res.known = dedup
    for l in res.known:
        print(l)
    write_evidence(spec, res, time.time() - t0)
    for e in res.errors:
        print('CHECKER-ERROR:', e)
    for u in res.undecided:
        print('UNDECIDED:', u.get('obligation'), '-', u.get('why', ''))
    for l in lines:
        print(l)
    if total_viol > 10:
        print(f'(+{total_viol - 10} further violations not listed)')
    print(f'{pid} {tier}: obligations={res.obligations} discharged={res.discharged} '
          f'bounded_cases={sum(b.get("evaluations", 0) for b in res.bounded)} violations={len(res.violations)} '
          f'known={len(res.known)} undecided={len(res.undecided)} errors={len(res.errors)} wall={time.time()-t0:.1f}s')
    if res.violations:
        return 1
    if res.errors:
        return 3
    if res.undecided:
        return 2
    return 0


def do_replay(spec, res, path):
    v = load_json(path if os.path.isabs(path) else os.path.join(VERIF, path), None)
    if v is None:
        print('no such replay file')
        return 3
    script = None
    for b in spec.get('bounded', []):
        if b['name'] == v.get('tier'):
            script = b['script']
    script = script or spec.get('replay_finder')
    if not script:
        print('no replayer for this record')
        return 3
    env = dict(os.environ, PYTHONPATH=os.path.join(REPO, 'src'), PYVC_REPO=REPO, PYTHONDONTWRITEBYTECODE='1')
    rec = v.get('replayed') or v
    tmp = os.path.join(OUT, 'evidence', f'.{res.pid}.replay.json')
    with open(tmp, 'w') as f:
        json.dump(rec, f)
    p = subprocess.run([VENV_PY, os.path.join(VERIF, script), '--replay', tmp], env=env, cwd=VERIF,
                       capture_output=True, text=True)
    os.unlink(tmp)
    print(p.stdout.strip())
    if p.returncode == 1:
        print(f'VIOLATION property={res.pid} replay={path}')
    return p.returncode


def write_evidence(spec, res, wall):
    level = spec.get('level', 'proof')
    cov = dict(
        obligations=res.obligations, discharged=res.discharged,
        checker_cmd=f'./check {res.pid} --tier {res.tier}',
        trusted_base=sorted(res.trusted) + spec.get('trusted_base', []),
        # only functions whose bodies are verified IN THIS RUN; assumed (trusted) contracts are listed in trusted_base, functions whose
        # contract is discharged by another property's check in contracts_used_as_callees_only
        functions_under_contract={q: h for q, h in res.functions.items() if q in res.verified_fns or q.startswith('lemmas:')},
        contracts_used_as_callees_only=sorted(res.not_redischarged - res.verified_fns),
        obligations_by_backend=res.by_backend, solver_time_s=round(res.solver_ms / 1000, 2),
        ground=res.ground, canaries=res.canaries, frame_functions_checked=getattr(res, 'frame_functions', 0), out_of_subset=res.out_of_subset,
        bounded=res.bounded, undecided=[u.get('obligation') for u in res.undecided],
        known_findings=res.known, uncovered_clauses=spec.get('uncovered_clauses', []),
        samples=res.samples[:16] or [dict(note='no deductive obligations in this check')],
        explanation=spec.get('explanation', ''),
        proved_clauses=spec.get('proved_clauses', []), bounded_clauses=spec.get('bounded_clauses', []),
    )
    ev_total = sum(b.get('evaluations', 0) for b in res.bounded)
    dn_total = sum(b.get('distinct_nontrivial', 0) for b in res.bounded)
    if ev_total:
        cov['evaluations'] = ev_total
        cov['distinct_nontrivial'] = dn_total
        cov['rule'] = ' | '.join(f'{b["name"]}: {b.get("rule", "")}' for b in res.bounded)
    ev = dict(property_id=res.pid, tier=res.tier, seed=res.seed, level=level, coverage=cov,
              assumptions=sorted(res.assumptions) + spec.get('assumptions', []),
              wall_s=round(wall, 2), violations=len(res.violations))
    os.makedirs(os.path.join(OUT, 'evidence'), exist_ok=True)
    path = os.path.join(OUT, 'evidence', f'{res.pid}.json')
    try:
        import jsonschema
        schema = load_json('/root/.vp/EVIDENCE.schema.json', None) or load_json(
            os.path.join(VERIF, 'tools', 'EVIDENCE.schema.json'), None)
        if schema:
            jsonschema.validate(ev, schema)
    except ImportError:
        pass
    except Exception as e:
        res.errors.append(f'evidence does not validate: {e}')
    with open(path, 'w') as f:
        json.dump(ev, f, indent=1, default=str)
