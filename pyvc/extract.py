"""pyvc.extract -- re-read the real source on every run; address functions as module:func or module:Class.method"""
import ast
import hashlib
import os

REPO = os.environ.get('PYVC_REPO', '/repo')


def module_path(mod, repo=None):
    repo = repo or REPO
    p = os.path.join(repo, 'src', *mod.split('.'))
    if os.path.isdir(p):
        return os.path.join(p, '__init__.py')
    return p + '.py'


_cache = {}


def module_ast(mod, repo=None):
    path = module_path(mod, repo)
    key = path
    if key not in _cache:
        with open(path) as f:
            src = f.read()
        _cache[key] = (src, ast.parse(src))
    return _cache[key]


def find(qual, repo=None):
    """-> (FunctionDef node, source segment, sha256 of segment, path)"""
    mod, name = qual.split(':')
    name = name.split('@')[0]   # '@tag' marks a specialised contract of the same function
    src, tree = module_ast(mod, repo)
    parts = name.split('.')
    want_setter = parts[-1] == 'setter'      # 'Class.prop.setter': the def decorated with @prop.setter
    if want_setter:
        parts = parts[:-1]
    body = tree.body
    node = None
    for i, p in enumerate(parts):
        node = None
        for n in body:
            if isinstance(n, (ast.FunctionDef, ast.ClassDef)) and n.name == p:
                if want_setter and i == len(parts) - 1:
                    if isinstance(n, ast.FunctionDef) and any(ast.unparse(d) == p + '.setter' for d in n.decorator_list):
                        node = n
                    continue
                # a property has a getter and a setter of the same name: the contract is the getter's
                if node is not None and isinstance(node, ast.FunctionDef) and \
                        any(ast.unparse(d) == 'property' for d in node.decorator_list):
                    continue
                node = n
        if node is None:
            raise KeyError(f'{qual}: {p} not found in {module_path(mod, repo)}')
        body = node.body
    seg = ast.get_source_segment(src, node)
    # extraction drops: docstring (first statement if a string constant)
    if node.body and isinstance(node.body[0], ast.Expr) and isinstance(node.body[0].value, ast.Constant) \
            and isinstance(node.body[0].value.value, str):
        node.body = node.body[1:] or [ast.Pass(lineno=node.lineno, col_offset=0)]
    return node, seg, hashlib.sha256(seg.encode()).hexdigest(), module_path(mod, repo)


def signature_defaults(fnode):
    """param name -> python constant default (only literal defaults)"""
    out = {}
    args = fnode.args.args
    defs = fnode.args.defaults
    for a, d in zip(args[len(args) - len(defs):], defs):
        try:
            out[a.arg] = ast.literal_eval(d)
        except Exception:
            pass
    return out
