"""pyvc.frame -- frame mode: modular checking of `modifies` / `aliases-result` clauses on the real AST (property C08).

Every function of the scanned modules has a frame clause: either explicit (contracts/frames.py) or the default derived from
the statement of C08: a function is a QUERY (modifies nothing it was given, returns nothing that IS one of its arguments,
writes no process-wide state) unless it is an explicit in-place editor (add_*/pop_*/setters/clear_*/..., or an `inplace`
parameter: editor iff inplace is true).  A function body is checked against ITS OWN clause, using only the clauses of its
callees (modular).  Obligations:
   mutation site  : attribute/subscript store, del, mutating method, augmented assignment of a container -- the object
                    mutated must be fresh (allocated in this activation) or covered by the function's own modifies clause
   call site      : every argument the callee's clause may modify must be fresh or covered likewise
   return / yield : the returned object must not BE a parameter (identity alias) in a query
   global write   : module-level mutable objects and the random module's generator are never written by a query
Provenance of a value: the set of roots it may be identical to (own) and may hold references to (reach):
   'fresh' | 'P:<param>' | 'G:<module-level name>'.
The analysis is a syntactic dataflow (flow-sensitive, branch-insensitive except on constant `inplace`-style flags, loops
iterated to a fixpoint); it makes no no-alias assumption.
"""
import ast
import os

MUT_METHODS = {'append', 'extend', 'insert', 'remove', 'clear', 'sort', 'update', 'setdefault', 'popitem', 'add', 'discard'}
AMBIG_MUT = {'pop', 'reverse'}     # builtin mutators that are also names of repo methods
IMM_BUILTINS = {'len', 'int', 'float', 'str', 'bool', 'round', 'sum', 'min', 'max', 'abs', 'isinstance', 'any', 'all', 'hash', 'repr',
                'ord', 'chr', 'range', 'type', 'print', 'format', 'id', 'callable', 'hasattr', 'divmod', 'pow', 'issubclass'}
SHALLOW_BUILTINS = {'list', 'dict', 'set', 'tuple', 'sorted', 'reversed', 'frozenset', 'enumerate', 'zip', 'iter', 'next', 'filter', 'map',
                    'Counter', 'defaultdict', 'OrderedDict', 'deque'}
DEEP = {'deepcopy', 'copy.deepcopy'}
STR_METHODS = {'join', 'replace', 'startswith', 'endswith', 'lower', 'upper', 'format', 'find', 'index', 'count', 'isdigit', 'isalpha',
               'lstrip', 'rstrip', 'splitlines', 'encode', 'title', 'zfill', 'isupper', 'islower', 'isnumeric', 'partition', 'rsplit',
               'group', 'start', 'end', 'span', 'groups', 'items', 'keys', 'values', 'get'}
EDITOR_PREFIXES = ('add_', 'pop_', 'clear_', '_add_', '_reset', '_parse', '_skip', 'reload', 'reset', 'set_')
FRESH = 'fresh'


class Prov:
    __slots__ = ('own', 'reach', 'imm')

    def __init__(self, own=(), reach=(), imm=False):
        self.own = frozenset(own)
        self.reach = frozenset(reach) | self.own
        self.imm = imm

    def join(self, o):
        if o is None:
            return self
        return Prov(self.own | o.own, self.reach | o.reach, self.imm and o.imm)

    def __repr__(self):
        return f'Prov(own={sorted(self.own)}, reach={sorted(self.reach)}, imm={self.imm})'


IMM = Prov((), (), True)
NEW = Prov((FRESH,), (FRESH,), False)


class Clause:
    def __init__(self, modifies=(), modifies_if=None, aliases_result=(), writes_globals=False, result='fresh', editor=False):
        self.modifies = set(modifies)            # parameter names always modified
        self.modifies_if = modifies_if or {}     # param -> flag param name: modified iff flag is true
        self.aliases_result = set(aliases_result)  # parameters the result may BE
        self.writes_globals = writes_globals
        self.result = result                     # 'fresh' | 'immutable' | 'shallow' (fresh container holding argument objects)
        self.editor = editor


class Repo:
    def __init__(self, root, modules, explicit):
        self.root = root
        self.funcs = {}      # qual -> (FunctionDef, module, class or None)
        self.by_name = {}    # short name -> [quals]
        self.globals_mut = {}   # module -> set of module-level names bound to mutable containers
        self.imm_fields = set()
        self.mut_fields = set()
        self.explicit = explicit
        for mod in modules:
            path = os.path.join(root, 'src', *mod.split('.')) + '.py'
            if not os.path.exists(path):
                continue
            tree = ast.parse(open(path).read())
            gm = set()
            for n in tree.body:
                if isinstance(n, ast.FunctionDef):
                    self._add(mod, None, n)
                elif isinstance(n, ast.ClassDef):
                    for m in n.body:
                        if isinstance(m, ast.FunctionDef):
                            if any(ast.unparse(d).endswith('.setter') for d in m.decorator_list):
                                self._add(mod, n.name, m, suffix='.setter')
                            else:
                                self._add(mod, n.name, m)
                        elif isinstance(m, ast.AnnAssign) and isinstance(m.target, ast.Name):
                            ann = ast.unparse(m.annotation)
                            if any(t in ann for t in ('List', 'Dict', 'Set', 'list', 'dict', 'Interval', 'Mod', 'ProForma', 'Fragment')):
                                self.mut_fields.add(m.target.id)
                            else:
                                self.imm_fields.add(m.target.id)
                elif isinstance(n, (ast.Assign, ast.AnnAssign)):
                    tg = n.targets if isinstance(n, ast.Assign) else [n.target]
                    val = n.value
                    if val is not None and isinstance(val, (ast.Dict, ast.List, ast.Set, ast.DictComp, ast.ListComp, ast.SetComp, ast.Call)):
                        for t in tg:
                            if isinstance(t, ast.Name):
                                gm.add(t.id)
            self.globals_mut[mod] = gm
        self.imm_fields -= self.mut_fields

    def _add(self, mod, cls, node, suffix=''):
        q = f'{mod}:{cls + "." if cls else ""}{node.name}{suffix}'
        self.funcs[q] = (node, mod, cls)
        self.by_name.setdefault(node.name + suffix, []).append(q)

    def clause(self, q):
        if q in self.explicit:
            return self.explicit[q]
        node, mod, cls = self.funcs[q]
        name = node.name
        params = [a.arg for a in node.args.args]
        is_setter = q.endswith('.setter')
        c = Clause()
        first = params[0] if params else None
        if any(ast.unparse(d).split('(')[0].split('.')[-1] in ('lru_cache', 'cache') for d in node.decorator_list):
            c.result = 'cached'              # memoised: every caller receives the SAME object -> process-wide state
        if any(ast.unparse(d) in ('property', 'cached_property') for d in node.decorator_list):
            c.aliases_result.add('self')       # attribute-style accessor: a view of the object, by design
        if cls is None and name.startswith(('add_', 'pop_')):
            c.modifies |= set(params)          # module-level add_* / pop_*: explicit editors by the statement
            c.editor = True
        if cls and first == 'self':
            if is_setter or name.startswith(EDITOR_PREFIXES) or name in ('__post_init__', '__init__', 'clear_empty_mods', 'parse') \
                    and cls.startswith('_'):
                c.modifies.add('self')
                c.editor = True
            if name in ('__post_init__', '__init__'):
                c.modifies.add('self')
                c.editor = True
            if 'inplace' in params:
                c.modifies_if['self'] = 'inplace'
        return c

    def resolve(self, name, cur_mod, cur_cls, is_method):
        """callee candidates for a call by simple name"""
        cands = self.by_name.get(name, [])
        if not is_method:
            same = [q for q in cands if q.startswith(cur_mod + ':') and self.funcs[q][2] is None]
            if same:
                return same
            return [q for q in cands if self.funcs[q][2] is None]
        return [q for q in cands if self.funcs[q][2] is not None]


class FrameResult:
    def __init__(self):
        self.obligations = []    # dict(name, ok, why, line, fn)
        self.unresolved = set()


class Analyzer:
    def __init__(self, repo, q, flags):
        self.repo = repo
        self.q = q
        self.node, self.mod, self.cls = repo.funcs[q]
        self.flags = flags          # dict param -> bool for path-sensitive flags
        self.clause = repo.clause(q)
        self.params = [a.arg for a in self.node.args.args] + ([self.node.args.vararg.arg] if self.node.args.vararg else []) + \
            [a.arg for a in self.node.args.kwonlyargs]
        self.out = []
        self.unresolved = set()
        self.valprov = {}     # local name of a dict/list created empty in this activation -> provenance of the VALUES stored in it
        self.allowed = set()
        for p in self.clause.modifies:
            self.allowed.add('P:' + p)
        for p, flag in self.clause.modifies_if.items():
            if self.flags.get(flag, True):
                self.allowed.add('P:' + p)

    # ---- obligations
    def ob(self, kind, line, bad, what):
        tag = ','.join(f'{k}={v}' for k, v in sorted(self.flags.items()))
        name = f'{self.q.split(":")[1]}#frame[{kind}]@{line}' + (f':{tag}' if tag else '')
        self.out.append(dict(name=name, ok=not bad, why=(what + ' -> ' + ', '.join(sorted(bad))) if bad else what, line=line, fn=self.q,
                             kind=kind))

    def mutate(self, prov, line, what):
        if prov.imm:
            return
        bad = {r for r in prov.own if r != FRESH and r not in self.allowed}
        self.ob('mutation', line, bad, what)

    # ---- expressions
    def ev(self, n, env):
        if n is None:
            return IMM
        m = getattr(self, 'e_' + type(n).__name__, None)
        if m:
            return m(n, env)
        r = IMM
        for ch in ast.iter_child_nodes(n):
            if isinstance(ch, ast.expr):
                r = r.join(self.ev(ch, env))
        return Prov((FRESH,), r.reach, False) if not r.imm else IMM

    def e_Constant(self, n, env):
        return IMM

    def e_JoinedStr(self, n, env):
        for v in n.values:
            if isinstance(v, ast.FormattedValue):
                self.ev(v.value, env)
        return IMM

    def e_Compare(self, n, env):
        self.ev(n.left, env)
        for c in n.comparators:
            self.ev(c, env)
        return IMM

    def e_BoolOp(self, n, env):
        r = None
        for v in n.values:
            r = self.ev(v, env).join(r)
        return r

    def e_UnaryOp(self, n, env):
        self.ev(n.operand, env)
        return IMM

    def e_BinOp(self, n, env):
        a, b = self.ev(n.left, env), self.ev(n.right, env)
        if a.imm and b.imm:
            return IMM
        return Prov((FRESH,), (a.reach | b.reach) - a.own - b.own | {FRESH}, False)   # a + b builds a new container

    def e_IfExp(self, n, env):
        self.ev(n.test, env)
        return self.ev(n.body, env).join(self.ev(n.orelse, env))

    def e_Name(self, n, env):
        if n.id in env:
            return env[n.id]
        if n.id in self.repo.globals_mut.get(self.mod, ()):
            return Prov(('G:' + n.id,), (), False)
        return IMM      # functions, classes, imported constants

    def elems(self, vals, env):
        reach = set()
        for v in vals:
            p = self.ev(v, env)
            if not p.imm:
                reach |= p.reach
        return Prov((FRESH,), reach | {FRESH}, False)

    def e_List(self, n, env):
        return self.elems(n.elts, env)

    e_Tuple = e_List
    e_Set = e_List

    def e_Dict(self, n, env):
        return self.elems([v for v in n.values if v is not None] + [k for k in n.keys if k is not None], env)

    def comp(self, n, env, elts):
        env2 = dict(env)
        for g in n.generators:
            it = self.ev(g.iter, env2)
            self.bind(g.target, Prov(it.reach - {FRESH} if not it.imm else (), (), it.imm) if not it.imm else IMM, env2, elem_of=it)
            for c in g.ifs:
                self.ev(c, env2)
        return self.elems(elts, env2)

    def e_ListComp(self, n, env):
        return self.comp(n, env, [n.elt])

    e_SetComp = e_ListComp
    e_GeneratorExp = e_ListComp

    def e_DictComp(self, n, env):
        return self.comp(n, env, [n.key, n.value])

    def e_Attribute(self, n, env):
        base = self.ev(n.value, env)
        if base.imm or n.attr in self.repo.imm_fields or n.attr.lstrip('_') in self.repo.imm_fields:
            return IMM
        return Prov(base.reach, base.reach, False)

    def e_Subscript(self, n, env):
        base = self.ev(n.value, env)
        self.ev(n.slice, env) if not isinstance(n.slice, ast.Slice) else None
        if base.imm:
            return IMM
        if isinstance(n.slice, ast.Slice):
            return Prov((FRESH,), base.reach | {FRESH}, False)
        if isinstance(n.value, ast.Name) and n.value.id in self.valprov and self.valprov[n.value.id] is not None:
            return self.valprov[n.value.id]
        return Prov(base.reach, base.reach, False)

    def e_Starred(self, n, env):
        return self.ev(n.value, env)

    def e_Lambda(self, n, env):
        return IMM

    def e_Yield(self, n, env):
        p = self.ev(n.value, env) if n.value else IMM
        self.ret(p, n.lineno)
        return IMM

    def e_YieldFrom(self, n, env):
        p = self.ev(n.value, env)
        self.ret(Prov(p.reach - {FRESH}, p.reach, p.imm), n.lineno)
        return IMM

    def e_Await(self, n, env):
        return self.ev(n.value, env)

    def flag_of(self, callee_clause, callee_params, call, flag):
        """value of a boolean flag argument at a call site if it is a literal, else None (unknown)"""
        for k in call.keywords:
            if k.arg == flag and isinstance(k.value, ast.Constant):
                return bool(k.value.value)
        if flag in callee_params:
            i = callee_params.index(flag)
            return i
        return None

    def e_Call(self, n, env):
        f = n.func
        args = [self.ev(a, env) for a in n.args]
        kws = {k.arg: self.ev(k.value, env) for k in n.keywords}
        allargs = args + list(kws.values())
        fname = ast.unparse(f)
        if fname in DEEP or fname.endswith('.deepcopy'):
            return NEW
        if isinstance(f, ast.Name):
            if f.id in IMM_BUILTINS:
                return IMM
            if f.id in SHALLOW_BUILTINS:
                r = set()
                for a in allargs:
                    if not a.imm:
                        r |= a.reach
                return Prov((FRESH,), r | {FRESH}, False)
            if f.id in ('random',):
                return IMM
            cands = self.repo.resolve(f.id, self.mod, self.cls, False)
            if cands:
                return self.apply(cands, n, None, args, kws, env)
            if f.id[:1].isupper():     # a constructor of a class outside the scanned set / dataclass: holds its arguments
                r = set()
                for a in allargs:
                    if not a.imm:
                        r |= a.reach
                return Prov((FRESH,), r | {FRESH}, False)
            self.unresolved.add(f.id)
            return self.unknown(allargs)
        if isinstance(f, ast.Attribute):
            recv = self.ev(f.value, env)
            meth = f.attr
            root = ast.unparse(f.value)
            if root == 'random' or root.startswith('random.'):
                if meth in ('seed', 'shuffle', 'random', 'randint', 'choice', 'sample', 'uniform', 'choices', 'setstate'):
                    # the module-level functions use (and advance / reseed) the process-wide generator
                    if meth in ('seed', 'setstate'):
                        self.ob('global-write', n.lineno, {'G:random'} if 'G:random' not in self.allowed else set(),
                                f'random.{meth}() writes the process-wide generator')
                    if meth == 'shuffle' and args:
                        self.mutate(args[0], n.lineno, 'random.shuffle(x) mutates x')
                return IMM
            if root in ('math', 're', 'regex', 'warnings', 'itertools', 'sys', 'os', 'copy', 'functools', 'collections', 'typing'):
                if root == 'itertools':
                    r = set()
                    for a in allargs:
                        if not a.imm:
                            r |= a.reach
                    return Prov((FRESH,), r | {FRESH}, False)
                return IMM if root != 'copy' else NEW
            if recv.imm and meth not in MUT_METHODS:
                return IMM
            cands = self.repo.resolve(meth, self.mod, self.cls, True)
            builtin_mut = meth in MUT_METHODS or (meth in AMBIG_MUT and (not cands or (meth == 'reverse' and not n.args and not n.keywords
                                                                                     and getattr(n, '_stmt', False))
                                                                         or (meth == 'pop' and (n.args or not cands))))
            if builtin_mut:
                self.mutate(recv, n.lineno, f'.{meth}() mutates its receiver `{root}`')
                # the receiver now holds the arguments
                self.grow(f.value, allargs, env)
                if isinstance(f.value, ast.Name) and f.value.id in self.valprov:
                    stored = args[-1] if (meth in ('setdefault', 'append', 'add', 'insert') and args) else None
                    if stored is not None:
                        self.note_values(f.value, stored, env)
                    if meth in ('pop', 'popitem', 'setdefault'):
                        vp = self.valprov[f.value.id]
                        return vp if vp is not None else NEW
                if meth in ('pop', 'popitem', 'setdefault'):
                    return Prov(recv.reach, recv.reach, False)
                return IMM
            if cands:
                return self.apply(cands, n, recv, args, kws, env)
            if meth in STR_METHODS or meth in ('split', 'strip', 'copy'):
                if meth == 'copy':
                    return Prov((FRESH,), recv.reach | {FRESH}, False)
                if meth in ('items', 'keys', 'values', 'get'):
                    return Prov(recv.reach, recv.reach, False)
                return IMM
            self.unresolved.add('.' + meth)
            return self.unknown(allargs + [recv])
        return self.unknown(allargs)

    def unknown(self, provs):
        r = set()
        for a in provs:
            if not a.imm:
                r |= a.reach
        return Prov((FRESH,), r | {FRESH}, False)

    def note_values(self, target_expr, prov, env):
        b = target_expr
        if isinstance(b, ast.Name) and b.id in self.valprov:
            self.valprov[b.id] = prov.join(self.valprov[b.id]) if self.valprov[b.id] is not None else prov

    def grow(self, target_expr, provs, env):
        """objects in provs become reachable from the variable at the root of target_expr"""
        b = target_expr
        while isinstance(b, (ast.Attribute, ast.Subscript)):
            b = b.value
        if isinstance(b, ast.Name) and b.id in env:
            r = set(env[b.id].reach)
            for p in provs:
                if not p.imm:
                    r |= p.reach
            env[b.id] = Prov(env[b.id].own, r, False)

    def apply(self, cands, call, recv, args, kws, env):
        """a call to a function with a frame clause (several candidates for a method name: the union)"""
        res = None
        for q in cands:
            cl = self.repo.clause(q)
            node = self.repo.funcs[q][0]
            ps = [a.arg for a in node.args.args]
            binding = {}
            rest = ps
            if recv is not None and ps and ps[0] == 'self':
                binding['self'] = recv
                rest = ps[1:]
            for p, a in zip(rest, args):
                binding[p] = a
            binding.update({k: v for k, v in kws.items() if k in ps})
            mods = set(cl.modifies)
            for p, flag in cl.modifies_if.items():
                val = None
                for k in call.keywords:
                    if k.arg == flag:
                        val = k.value.value if isinstance(k.value, ast.Constant) else 'unknown'
                if val is None and flag in rest:
                    i = rest.index(flag)
                    if i < len(call.args):
                        val = call.args[i].value if isinstance(call.args[i], ast.Constant) else 'unknown'
                if val is None:
                    d = self.default_of(node, flag)
                    val = d
                if val is True or val == 'unknown':
                    mods.add(p)
            for p in mods:
                if p in binding:
                    self.callsite(binding[p], call.lineno, q, p)
            if cl.writes_globals:
                self.ob('global-write', call.lineno, {'G:' + q.split(':')[1]} if not self.clause.writes_globals else set(),
                        f'call to {q.split(":")[1]} which writes process-wide state')
            if cl.result == 'immutable':
                r = IMM
            elif cl.result == 'cached':
                r = Prov(('G:cache of ' + q.split(':')[1],), (), False)
            else:
                own = {FRESH}
                reach = {FRESH}
                for p in cl.aliases_result:
                    if p in binding and not binding[p].imm:
                        own |= binding[p].own
                        reach |= binding[p].reach
                if cl.result == 'shallow':
                    for b in binding.values():
                        if not b.imm:
                            reach |= b.reach
                r = Prov(own, reach, False)
            res = r.join(res)
        return res or NEW

    def default_of(self, node, pname):
        args = node.args.args
        defs = node.args.defaults
        for a, d in zip(args[len(args) - len(defs):], defs):
            if a.arg == pname and isinstance(d, ast.Constant):
                return d.value
        return 'unknown'

    def callsite(self, prov, line, q, p):
        if prov.imm:
            return
        bad = {r for r in prov.own if r != FRESH and r not in self.allowed}
        self.ob('call', line, bad, f'{q.split(":")[1]} may modify its `{p}` argument')

    def ret(self, prov, line):
        if self.clause.result == 'cached' and not prov.imm:
            self.ob('cached-result-immutable', line, {'G:cache'}, 'a memoised function hands the same mutable object to every caller')
            return
        if prov.imm or self.clause.editor:
            return
        bad = {r for r in prov.own if r.startswith('P:') and r[2:] not in self.clause.aliases_result and r not in self.allowed}
        bad |= {r for r in prov.own if r.startswith('G:')}
        self.ob('result-is-fresh', line, bad, 'the returned object is not one of the arguments / process-wide objects')

    # ---- statements
    def bind(self, tgt, prov, env, elem_of=None):
        if isinstance(tgt, ast.Name):
            env[tgt.id] = prov
        elif isinstance(tgt, (ast.Tuple, ast.List)):
            for t in tgt.elts:
                self.bind(t, prov if not isinstance(t, ast.Starred) else prov, env)
        elif isinstance(tgt, ast.Starred):
            self.bind(tgt.value, prov, env)
        elif isinstance(tgt, (ast.Attribute, ast.Subscript)):
            base = self.ev(tgt.value, env)
            self.mutate(base, tgt.lineno, f'store into `{ast.unparse(tgt)}`')
            self.grow(tgt.value, [prov], env)

    def const_flag(self, test):
        """value of a test that only mentions a path-sensitive flag: True / False / None"""
        t = test
        neg = False
        if isinstance(t, ast.UnaryOp) and isinstance(t.op, ast.Not):
            neg = True
            t = t.operand
        val = None
        if isinstance(t, ast.Name) and t.id in self.flags:
            val = self.flags[t.id]
        elif isinstance(t, ast.Compare) and isinstance(t.left, ast.Name) and t.left.id in self.flags and len(t.ops) == 1 \
                and isinstance(t.comparators[0], ast.Constant) and isinstance(t.comparators[0].value, bool):
            c = t.comparators[0].value
            if isinstance(t.ops[0], (ast.Is, ast.Eq)):
                val = self.flags[t.left.id] == c
            elif isinstance(t.ops[0], (ast.IsNot, ast.NotEq)):
                val = self.flags[t.left.id] != c
        if val is None:
            return None
        return (not val) if neg else val

    def block(self, stmts, env):
        for s in stmts:
            self.stmt(s, env)

    def stmt(self, s, env):
        if isinstance(s, ast.Expr):
            if isinstance(s.value, ast.Call):
                s.value._stmt = True
            self.ev(s.value, env)
        elif isinstance(s, ast.Assign):
            p = self.ev(s.value, env)
            for t in s.targets:
                self.bind(t, p, env)
                if isinstance(t, ast.Name):
                    v = s.value
                    empty = (isinstance(v, (ast.Dict, ast.List)) and not getattr(v, 'keys', None) and not getattr(v, 'elts', None)) or \
                        (isinstance(v, ast.Call) and ast.unparse(v.func) in ('dict', 'list', 'defaultdict', 'set') and
                         all(isinstance(a, ast.Name) for a in v.args))
                    if empty:
                        self.valprov[t.id] = None
                    else:
                        self.valprov.pop(t.id, None)
                elif isinstance(t, ast.Subscript) and isinstance(t.value, ast.Name):
                    self.note_values(t.value, p, env)
        elif isinstance(s, ast.AnnAssign):
            if s.value is not None:
                self.bind(s.target, self.ev(s.value, env), env)
        elif isinstance(s, ast.AugAssign):
            p = self.ev(s.value, env)
            if isinstance(s.target, ast.Name):
                cur = env.get(s.target.id, IMM)
                if not cur.imm and not p.imm and isinstance(s.op, ast.Add):
                    self.mutate(cur, s.lineno, f'`{s.target.id} += ...` extends the object in place')
                    self.grow(s.target, [p], env)
            else:
                base = self.ev(s.target.value, env)
                self.mutate(base, s.lineno, f'augmented store into `{ast.unparse(s.target)}`')
        elif isinstance(s, ast.Delete):
            for t in s.targets:
                if isinstance(t, (ast.Attribute, ast.Subscript)):
                    self.mutate(self.ev(t.value, env), s.lineno, f'del `{ast.unparse(t)}`')
        elif isinstance(s, ast.Return):
            if s.value is not None:
                self.ret(self.ev(s.value, env), s.lineno)
        elif isinstance(s, ast.If):
            c = self.const_flag(s.test)
            self.ev(s.test, env)
            if c is True:
                self.block(s.body, env)
            elif c is False:
                self.block(s.orelse, env)
            else:
                e1, e2 = dict(env), dict(env)
                t = s.test
                # `if isinstance(x, (int, float, str))`: x is immutable inside the branch
                if isinstance(t, ast.Call) and isinstance(t.func, ast.Name) and t.func.id == 'isinstance' and len(t.args) == 2 \
                        and isinstance(t.args[0], ast.Name):
                    tys = ast.unparse(t.args[1])
                    names = [x.strip() for x in tys.strip('()').split(',')]
                    if names and all(x in ('int', 'float', 'str', 'bool', 'bytes') for x in names):
                        e1[t.args[0].id] = IMM
                self.block(s.body, e1)
                self.block(s.orelse, e2)
                for k in set(e1) | set(e2):
                    a, b = e1.get(k), e2.get(k)
                    env[k] = a.join(b) if a is not None else b
        elif isinstance(s, (ast.For, ast.While)):
            for _ in range(2):      # two passes reach the fixpoint of the union lattice for these bodies
                n0 = len(self.out)
                if isinstance(s, ast.For):
                    it = self.ev(s.iter, env)
                    self.bind(s.target, IMM if it.imm else Prov(it.reach - ({FRESH} if len(it.reach) > 1 else set()), it.reach, False), env)
                else:
                    self.ev(s.test, env)
                e1 = dict(env)
                self.block(s.body, e1)
                for k in e1:
                    env[k] = e1[k].join(env.get(k))
                if _ == 0:
                    del self.out[n0:]     # obligations are recorded once, from the pass with the larger sets
            self.block(s.orelse, env)
        elif isinstance(s, ast.With):
            for it in s.items:
                p = self.ev(it.context_expr, env)
                if it.optional_vars is not None:
                    self.bind(it.optional_vars, p, env)
            self.block(s.body, env)
        elif isinstance(s, ast.Try):
            self.block(s.body, env)
            for h in s.handlers:
                self.block(h.body, env)
            self.block(s.orelse, env)
            self.block(s.finalbody, env)
        elif isinstance(s, ast.Raise):
            if s.exc is not None:
                self.ev(s.exc, env)
        elif isinstance(s, (ast.FunctionDef, ast.ClassDef, ast.Import, ast.ImportFrom, ast.Pass, ast.Break, ast.Continue, ast.Global,
                            ast.Nonlocal, ast.Assert)):
            pass
        else:
            for ch in ast.iter_child_nodes(s):
                if isinstance(ch, ast.expr):
                    self.ev(ch, env)

    def run(self):
        env = {}
        for p in self.params:
            ann = None
            for a in self.node.args.args:
                if a.arg == p and a.annotation is not None:
                    ann = ast.unparse(a.annotation)
            if p in self.flags or (ann in ('str', 'int', 'float', 'bool', 'Optional[int]', 'Optional[str]', 'Optional[float]')) or \
                    (ann is not None and 'Callable' in ann):
                env[p] = IMM
            else:
                env[p] = Prov(('P:' + p,), ('P:' + p,), False)
        body = self.node.body
        self.block(body, env)
        return self.out, self.unresolved


def check_module_functions(repo, quals):
    """-> (obligation records, unresolved call names)"""
    res = FrameResult()
    for q in quals:
        node = repo.funcs[q][0]
        params = [a.arg for a in node.args.args]
        flagsets = [{}]
        for fl in ('inplace',):
            if fl in params:
                flagsets = [dict(f, **{fl: v}) for f in flagsets for v in (False, True)]
        for flags in flagsets:
            a = Analyzer(repo, q, flags)
            out, unres = a.run()
            res.obligations.extend(out)
            res.unresolved |= unres
    return res
