"""pyvc.types -- static types of the verified Python subset and their z3 sorts.

Every symbolic value is V(ty, t): a static type tag and ONE z3 term of that type's sort.
  int -> Int, real(float) -> Real (assumption A-REAL), bool -> Bool, str -> String,
  None -> unit datatype, tuple -> z3 tuple sort, Optional[T] -> datatype none|some(T),
  list[T] -> datatype mk(arr: Array Int T, n: Int)   (value semantics; equality is extensional up to n),
  bag[T]  -> Array T Int   (multiset: what a generator yields, order abstracted),
  set[T]  -> Array T Bool,
  dict[K,V] -> datatype mk(has: Array K Bool, at: Array K V),
  record -> datatype with named fields.
"""
import z3


class Ty:
    name = '?'

    def sort(self):
        raise NotImplementedError

    def __repr__(self):
        return self.name

    def __eq__(self, o):
        return isinstance(o, Ty) and self.name == o.name

    def __hash__(self):
        return hash(self.name)


class _Prim(Ty):
    def __init__(self, name, sortf):
        self.name = name
        self._sortf = sortf

    def sort(self):
        return self._sortf()


_NoneSort = None


def _none_sort():
    global _NoneSort
    if _NoneSort is None:
        d = z3.Datatype('NoneT')
        d.declare('None_')
        _NoneSort = d.create()
    return _NoneSort


INT = _Prim('int', z3.IntSort)
REAL = _Prim('real', z3.RealSort)
BOOL = _Prim('bool', z3.BoolSort)
STR = _Prim('str', z3.StringSort)
NONE = _Prim('None', _none_sort)

_DT_CACHE = {}


def _mangle(s):
    return s.replace('[', '_').replace(']', '_').replace(',', '_').replace(' ', '').replace(':', '_')


class TTuple(Ty):
    def __init__(self, elems):
        self.elems = list(elems)
        self.name = 'tuple[' + ','.join(e.name for e in self.elems) + ']'

    def sort(self):
        if self.name not in _DT_CACHE:
            s, mk, accs = z3.TupleSort('T_' + _mangle(self.name), [e.sort() for e in self.elems])
            _DT_CACHE[self.name] = (s, mk, accs)
        return _DT_CACHE[self.name][0]

    def mk(self, *terms):
        self.sort()
        return _DT_CACHE[self.name][1](*terms)

    def acc(self, i, term):
        self.sort()
        return _DT_CACHE[self.name][2][i](term)


class TOpt(Ty):
    def __init__(self, inner):
        self.inner = inner
        self.name = 'opt[' + inner.name + ']'

    def sort(self):
        if self.name not in _DT_CACHE:
            m = _mangle(self.name)
            d = z3.Datatype('O_' + m)
            d.declare('none_' + m)
            d.declare('some_' + m, ('val_' + m, self.inner.sort()))
            _DT_CACHE[self.name] = d.create()
        return _DT_CACHE[self.name]

    def none(self):
        return self.sort().constructor(0)()

    def some(self, t):
        return self.sort().constructor(1)(t)

    def is_none(self, t):
        return self.sort().recognizer(0)(t)

    def val(self, t):
        return self.sort().accessor(1, 0)(t)


class TList(Ty):
    def __init__(self, elem):
        self.elem = elem
        self.name = 'list[' + elem.name + ']'

    def sort(self):
        if self.name not in _DT_CACHE:
            m = _mangle(self.name)
            d = z3.Datatype('L_' + m)
            d.declare('mk_' + m, ('arr_' + m, z3.ArraySort(z3.IntSort(), self.elem.sort())), ('n_' + m, z3.IntSort()))
            _DT_CACHE[self.name] = d.create()
        return _DT_CACHE[self.name]

    def mk(self, arr, n):
        return self.sort().constructor(0)(arr, n)

    def arr(self, t):
        return self.sort().accessor(0, 0)(t)

    def n(self, t):
        return self.sort().accessor(0, 1)(t)


class TBag(Ty):
    def __init__(self, elem):
        self.elem = elem
        self.name = 'bag[' + elem.name + ']'

    def sort(self):
        return z3.ArraySort(self.elem.sort(), z3.IntSort())


class TSet(Ty):
    def __init__(self, elem):
        self.elem = elem
        self.name = 'set[' + elem.name + ']'

    def sort(self):
        return z3.ArraySort(self.elem.sort(), z3.BoolSort())


class TDict(Ty):
    def __init__(self, k, v):
        self.k = k
        self.v = v
        self.name = 'dict[' + k.name + ',' + v.name + ']'

    def sort(self):
        if self.name not in _DT_CACHE:
            m = _mangle(self.name)
            d = z3.Datatype('D_' + m)
            d.declare('mk_' + m, ('has_' + m, z3.ArraySort(self.k.sort(), z3.BoolSort())),
                      ('at_' + m, z3.ArraySort(self.k.sort(), self.v.sort())))
            _DT_CACHE[self.name] = d.create()
        return _DT_CACHE[self.name]

    def mk(self, has, at):
        return self.sort().constructor(0)(has, at)

    def has(self, t):
        return self.sort().accessor(0, 0)(t)

    def at(self, t):
        return self.sort().accessor(0, 1)(t)


class TRec(Ty):
    def __init__(self, name, fields):
        self.name = name
        self.fields = dict(fields)  # name -> Ty (ordered)

    def sort(self):
        if self.name not in _DT_CACHE:
            m = _mangle(self.name)
            d = z3.Datatype('R_' + m)
            d.declare('mk_' + m, *[(f + '__' + m, t.sort()) for f, t in self.fields.items()])
            _DT_CACHE[self.name] = d.create()
        return _DT_CACHE[self.name]

    def mk(self, *terms):
        return self.sort().constructor(0)(*terms)

    def get(self, f, t):
        return self.sort().accessor(0, list(self.fields).index(f))(t)

    def set(self, f, t, value):
        """the record t with field f replaced by value"""
        return self.mk(*[(value if g == f else self.get(g, t)) for g in self.fields])


class TAbs(Ty):
    """an opaque object type (uninterpreted sort): only contracts of the functions taking it say anything about it"""

    def __init__(self, name):
        self.name = name

    def sort(self):
        return z3.DeclareSort('A_' + _mangle(self.name))


class V:
    """a symbolic value: static type + one z3 term"""
    __slots__ = ('ty', 't')

    def __init__(self, ty, t):
        self.ty = ty
        self.t = t

    def __repr__(self):
        return f'V({self.ty}, {self.t})'


ALIASES = {}
RECORDS = {}     # record type name -> TRec (registered by the contract module in use)


def register_record(name, fields, aliases=None):
    """fields: ordered dict field -> type string; two passes so records may mention each other"""
    RECORDS[name] = TRec(name, {})
    RECORDS[name]._pending = (fields, aliases)


def finish_records():
    for name, r in RECORDS.items():
        if getattr(r, '_pending', None):
            fields, aliases = r._pending
            r.fields = {f: parse_type(t, aliases) for f, t in fields.items()}
            r._pending = None


def parse_type(s, aliases=None):
    """'int', 'real', 'str', 'bool', 'None', 'Optional[int]', 'List[Span]', 'Tuple[int,int,int]', 'Bag[Span]',
    'Set[int]', 'Dict[int,real]' or an alias name."""
    import ast as _ast
    al = dict(ALIASES)
    if aliases:
        al.update(aliases)

    def go(n):
        if isinstance(n, _ast.Name):
            nm = n.id
            if nm in al:
                v = al[nm]
                return v if isinstance(v, Ty) else parse_type(v, al)
            prim = {'int': INT, 'real': REAL, 'float': REAL, 'bool': BOOL, 'str': STR, 'None': NONE}
            if nm in prim:
                return prim[nm]
            if nm in RECORDS:
                return RECORDS[nm]
            if nm[:1].isupper():
                return TAbs(nm)   # any other capitalised name: opaque object type
            raise ValueError('unknown type ' + nm)
        if isinstance(n, _ast.Constant) and n.value is None:
            return NONE
        if isinstance(n, _ast.Subscript):
            head = n.value.id
            args = n.slice.elts if isinstance(n.slice, _ast.Tuple) else [n.slice]
            args = [go(a) for a in args]
            if head in ('Optional', 'Opt'):
                return TOpt(args[0])
            if head in ('List', 'list', 'Seq'):
                return TList(args[0])
            if head in ('Tuple', 'tuple'):
                return TTuple(args)
            if head == 'Bag':
                return TBag(args[0])
            if head in ('Set', 'set'):
                return TSet(args[0])
            if head in ('Dict', 'dict'):
                return TDict(args[0], args[1])
        raise ValueError('cannot parse type ' + s)

    return go(_ast.parse(s, mode='eval').body)
