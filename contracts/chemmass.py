"""Sidecar contract for chem_util.chem_mass on a composition dictionary (properties C15 / C03 / C10: "the mass of a composition"):
the sum over its entries of count x atomic mass -- the isotope table in monoisotopic mode and for isotope-labelled entries, the
average table otherwise, the particle masses for e / p / n -- rounded on request; an entry that is neither raises the formula error.

The finite sum over the dictionary's keys is the spec function CSUM(d, mono, S) (sum over the key set S), DEFINED by
CSUM(d, mono, {}) = 0 and CSUM(d, mono, S + {k}) = CSUM(d, mono, S) + term(d, mono, k) for k not in S (A-FINSUM: these two equations
have a model -- the finite sum, independent of insertion order because real addition commutes)."""
ALIASES = {'Comp': 'Dict[str,real]'}
GLOBALS_FROM = {'peptacular.constants': ['ISOTOPIC_ATOMIC_MASSES', 'AVERAGE_ATOMIC_MASSES', 'ELECTRON_MASS', 'PROTON_MASS', 'NEUTRON_MASS']}
EXC_PARENTS = {'InvalidChemFormulaError': 'ValueError'}
CU = 'peptacular.chem.chem_util:'
MACROS = {
    'labelled': (['e'], "(e[0].isdigit() or e == 'D' or e == 'T')"),
    'atom': (['e', 'mono'], "(ISOTOPIC_ATOMIC_MASSES[e] if (mono or labelled(e)) else AVERAGE_ATOMIC_MASSES[e]) if (e in ISOTOPIC_ATOMIC_MASSES) else "
                            "(ELECTRON_MASS if e == 'e' else (PROTON_MASS if e == 'p' else NEUTRON_MASS))"),
    'known': (['e'], "(e in ISOTOPIC_ATOMIC_MASSES) or e == 'e' or e == 'p' or e == 'n'"),
}
FUNCS = {'CSUM': (['Comp', 'bool', 'Set[str]'], 'real')}
AXIOMS = [
    ('CSUM-empty', 'forall(lambda d=Comp, mono=bool: CSUM(d, mono, set()) == 0)'),
    ('CSUM-insert', 'forall(lambda d=Comp, mono=bool, S=Set[str], k=str: implies(not (k in S), '
                    'CSUM(d, mono, set_add(S, k)) == CSUM(d, mono, S) + atom(k, mono) * d[k]))'),
]
# every natural-element key of the isotope table has an average mass (checked key by key on the real tables, then used)
GROUND_FORALL = [('natural-elements-have-an-average-mass', 'ISOTOPIC_ATOMIC_MASSES', 'e',
                  "(len(@e) > 0) and (labelled(@e) or (@e in AVERAGE_ATOMIC_MASSES))")]
C = {}
C[CU + 'chem_mass'] = dict(
    params=dict(formula='Comp', monoisotopic='bool', precision='Optional[int]', sep='str'), returns='real', pure=True,
    ensures=[('sum-of-count-times-atomic-mass', 'implies(precision is None, result == CSUM(formula, monoisotopic, set(formula)))'),
             ('rounded-on-request', 'implies(precision is not None, result == round(CSUM(formula, monoisotopic, set(formula)), some(precision)))'),
             ('every-entry-known', 'forall(lambda e=str: implies(e in formula, known(e)))')],
    invariants={0: [('partial-sum', 'm == CSUM(formula, monoisotopic, _seen0)'),
                    ('seen-known', 'forall(lambda e=str: implies(e in _seen0, known(e)))')]},
    raises={'InvalidChemFormulaError': 'exists(lambda e=str: (e in formula) and not known(e))'})

# ---------------------------------------------------------------- the bracket tokenizer of formula strings
# LENS(L, k): total length of the first k components; "the components tile the formula in order" is: component j is the text
# formula[LENS(L, j) : LENS(L, j + 1)] and LENS(L, len(L)) == len(formula)
FUNCS['LENS'] = (['List[str]', 'int'], 'int')
AXIOMS += [('LENS-0', 'forall(lambda L=List[str]: LENS(L, 0) == 0)'),
           ('LENS-step', 'forall(lambda L=List[str], k=int: implies(k >= 0, LENS(L, k + 1) == LENS(L, k) + len(L[k])))')]
# the fold over the first k components does not look beyond them (proved here by induction on k: base + step are obligations)
INDUCTIVE_LEMMAS = [('LENS-reads-only-its-prefix', 'k', 'forall(lambda L1=List[str], L2=List[str]: implies(forall(lambda j: implies(0 <= j and j < k, '
                     'L1[j] == L2[j])), LENS(L1, k) == LENS(L2, k)))')]
PREFIX_FOLDS = ['LENS']
_TILE = ('forall(lambda j: implies(0 <= j and j < len({L}), {L}[j] == formula[LENS({L}, j):LENS({L}, j + 1)] and len({L}[j]) > 0 and '
         "(({L}[j][0] == '[' and {L}[j][len({L}[j]) - 1] == ']') or not ('[' in {L}[j] or ']' in {L}[j]))))")
C[CU + '_split_chem_formula'] = dict(
    params=dict(formula='str'), returns='List[str]', pure=True, locals=dict(components='List[str]'),
    ensures=[('components-tile-the-formula', 'LENS(result, len(result)) == len(formula)'),
             ('each-a-whole-bracket-or-bracket-free-text-in-order', _TILE.format(L='result'))],
    invariants={0: [('cursor', '0 <= i and i <= len(formula) and LENS(components, len(components)) == i'),
                    ('tiles-so-far', _TILE.format(L='components'))],
                1: [('cursor', 'component_start <= i and i <= len(formula)'),
                    ('no-bracket-so-far', "not ('[' in formula[component_start:i]) and not (']' in formula[component_start:i])")]},
    decreases={0: 'len(formula) - i', 1: 'len(formula) - i'},
    raises={'ValueError': None})
