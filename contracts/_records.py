"""Record model of the annotation classes, shared by every contract module (DESIGN appendix A.1).
Lists of Mod objects are opaque (ModList): the index maps of C11 never look inside them; deepcopy = value identity."""
RECORDS = {
    'Interval': dict(start='int', end='Optional[int]', ambiguous='bool', mods='Optional[ModList]'),
    'Annotation': dict(_sequence='str', _isotope_mods='Optional[ModList]', _static_mods='Optional[ModList]',
                       _labile_mods='Optional[ModList]', _unknown_mods='Optional[ModList]', _nterm_mods='Optional[ModList]',
                       _cterm_mods='Optional[ModList]', _internal_mods='Optional[Dict[int,ModList]]',
                       _intervals='Optional[List[Interval]]', _charge='Optional[int]', _charge_adducts='Optional[ModList]'),
}
CLASSES = {'Annotation': 'peptacular.proforma.proforma_parser:ProFormaAnnotation',
           'Interval': 'peptacular.proforma.proforma_dataclasses:Interval'}
CTORS = {'ProFormaAnnotation': 'Annotation', 'Interval': 'Interval'}
PA = 'peptacular.proforma.proforma_parser:ProFormaAnnotation.'


def accessor_contracts():
    """contracts of the trivial has_*() predicates and read-only properties -- each is VERIFIED against its real body"""
    C = {}
    for f in ('sequence', 'isotope_mods', 'static_mods', 'labile_mods', 'unknown_mods', 'nterm_mods', 'cterm_mods',
              'internal_mods', 'intervals', 'charge', 'charge_adducts'):
        C[PA + 'has_' + f] = dict(params=dict(self='Annotation'), returns='bool', pure=True,
                                  ensures=[('def', 'result == (self._%s is not None)' % f)] if f != 'sequence' else
                                  [('def', 'result == True')])
        C[PA + f] = dict(params=dict(self='Annotation'), returns=RECORDS['Annotation']['_' + f], pure=True, property=True,
                         ensures=[('def', 'result == self._%s' % f)])
    C[PA + 'has_mods'] = dict(
        params=dict(self='Annotation'), returns='bool', pure=True,
        ensures=[('def', 'result == (' + ' or '.join('self._%s is not None' % f for f in
                  ('isotope_mods', 'static_mods', 'labile_mods', 'unknown_mods', 'nterm_mods', 'cterm_mods', 'internal_mods',
                   'intervals', 'charge', 'charge_adducts')) + ')')])
    return C
