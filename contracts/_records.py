"""Record model of the annotation classes, shared by every contract module (DESIGN appendix A.1).
Lists of Mod objects are opaque (ModList): the index maps of C11 never look inside them; deepcopy = value identity."""
RECORDS = {
    'Interval': dict(start='int', end='Optional[int]', ambiguous='bool', mods='Optional[ModList]'),
    'Annotation': dict(_sequence='str', _isotope_mods='Optional[ModList]', _static_mods='Optional[ModList]',
                       _labile_mods='Optional[ModList]', _unknown_mods='Optional[ModList]', _nterm_mods='Optional[ModList]',
                       _cterm_mods='Optional[ModList]', _internal_mods='Optional[Dict[int,ModList]]',
                       _intervals='Optional[List[Interval]]', _charge='Optional[int]', _charge_adducts='Optional[ModList]'),
}
CLASSES = {'Annotation': 'peptacular.proforma.proforma_parser:ProFormaAnnotation',
           'Interval': 'peptacular.proforma.proforma_dataclasses:Interval'}
CTORS = {'ProFormaAnnotation': 'Annotation', 'Interval': 'Interval'}
PA = 'peptacular.proforma.proforma_parser:ProFormaAnnotation.'


def accessor_contracts():
    """contracts of the trivial has_*() predicates and read-only properties -- each is VERIFIED against its real body"""
    C = {}
    for f in ('sequence', 'isotope_mods', 'static_mods', 'labile_mods', 'unknown_mods', 'nterm_mods', 'cterm_mods',
              'internal_mods', 'intervals', 'charge', 'charge_adducts'):
        C[PA + 'has_' + f] = dict(params=dict(self='Annotation'), returns='bool', pure=True, axioms=[],
                                  ensures=[('def', 'result == (self._%s is not None)' % f)] if f != 'sequence' else
                                  [('def', 'result == True')])
        C[PA + f] = dict(params=dict(self='Annotation'), returns=RECORDS['Annotation']['_' + f], pure=True, property=True, axioms=[],
                         ensures=[('def', 'same(result, self._%s)' % f)])
    C[PA + 'has_mods'] = dict(
        params=dict(self='Annotation'), returns='bool', pure=True, axioms=[],
        ensures=[('def', 'result == (' + ' or '.join('self._%s is not None' % f for f in
                  ('isotope_mods', 'static_mods', 'labile_mods', 'unknown_mods', 'nterm_mods', 'cterm_mods', 'internal_mods',
                   'intervals', 'charge', 'charge_adducts')) + ')')])
    return C


MOD_FIELDS = ('isotope_mods', 'static_mods', 'labile_mods', 'unknown_mods', 'nterm_mods', 'cterm_mods', 'charge_adducts')


def setter_contracts(trusted=None):
    """the ten property setters, specified for the value None (what strip() and the pop_*() methods use); the other case normalises
    user input (fix_list_of_mods ...) and is outside this contract.  Each is VERIFIED against its real body where `trusted` is None."""
    C = {}
    ty = dict(RECORDS['Annotation'])
    for f in MOD_FIELDS + ('internal_mods', 'intervals', 'charge'):
        others = [g for g in ty if g != '_' + f]
        C[PA + f + '.setter'] = dict(
            params=dict(self='Annotation', value='None'), returns='None', mutates=['self'], axioms=[],
            ensures=[('field-cleared', 'self_final._%s is None' % f),
                     ('nothing-else', ' and '.join('same(self_final.%s, self.%s)' % (g, g) for g in others))],
            raises={})
        if trusted:
            C[PA + f + '.setter'].update(trusted=True, bounded_by=trusted)
    return C


def pop_contracts(trusted=None):
    """pop_<field>(): returns the field and clears it, nothing else changes"""
    C = {}
    ty = dict(RECORDS['Annotation'])
    for f in MOD_FIELDS + ('internal_mods', 'intervals', 'charge'):
        others = [g for g in ty if g != '_' + f]
        C[PA + 'pop_' + f] = dict(
            params=dict(self='Annotation'), returns=ty['_' + f], mutates=['self'], axioms=[],
            ensures=[('returns-the-field', 'same(result, self._%s)' % f), ('field-cleared', 'self_final._%s is None' % f),
                     ('nothing-else', ' and '.join('same(self_final.%s, self.%s)' % (g, g) for g in others))],
            raises={})
        if trusted:
            C[PA + 'pop_' + f].update(trusted=True, bounded_by=trusted)
    return C
