"""Sidecar contracts for the modification-COMPOSITION entry points (property C10: "... the same composition, or the same error ...",
"'|'-separated alternatives take the first resolvable one, localisation tags do not change the mass [composition], and a multiplier
multiplies it"; used by C03): the counterpart of contracts/modmass.py.

mod_comp on a Mod object multiplies every entry of the value's composition by the multiplier; a number has no composition (error);
for a text with '|' alternatives the FIRST alternative that has a composition gives it, and the error is raised only if none has.
_parse_mod_comp (one alternative) is a dispatch: a number / INFO: / Obs: / an unknown form has no composition; a localisation tag
'#..' is cut off before anything else (a bare tag has the empty composition); Glycan:, GNO, XLMOD, RESID, PSI-MOD, Unimod and Formula:
texts go to their resolvers in that order (the vocabulary resolvers: contracts/modresolve.py; the formula parser:
contracts/formulaparse.py)."""
ALIASES = {'Comp': 'Dict[str,real]'}
RECORDS = {'ModRec': dict(val='ModValue', mult='int'), 'NumOrText': dict(kind='int', s='str')}
UNIONS = {'NumOrText': {'str': 0, 'int': 1, 'float': 2}}
CLASSES = {'ModRec': 'peptacular.proforma.proforma_dataclasses:Mod'}
CTORS = {'Mod': 'ModRec'}
EXC_PARENTS = {'InvalidCompositionError': 'ValueError'}
CC = 'peptacular.chem.chem_calc:'
MD = 'peptacular.mods.mod_db:'
C = {}
C[CC + 'mod_comp@value'] = dict(params=dict(mod='ModValue'), returns='Comp', pure=True, trusted=True, raises={'ValueError': None},
                                bounded_by='the value of a Mod (text / number): the @str / @int / @float cases below', ensures=[])
C[CC + 'mod_comp@mod'] = dict(
    params=dict(mod='ModRec'), returns='Comp', pure=True, callee_tag='value', raises={'ValueError': None},
    ensures=[('every-entry-of-the-value-times-the-multiplier',
              'forall(lambda k=str: (k in result) == (k in mod_comp(mod.val))) and '
              'forall(lambda k=str: implies(k in result, result[k] == mod_comp(mod.val)[k] * mod.mult))')])
for _t, _ty in (('int', 'int'), ('float', 'real')):
    C[CC + 'mod_comp@' + _t] = dict(params=dict(mod=_ty), returns='Comp', pure=True, raises={'InvalidCompositionError': 'True'},
                                    ensures=[('a-number-has-no-composition', 'False')])
_PC = '_parse_mod_comp(mod.split("|")[k])'
C[CC + '_parse_mod_comp@alt'] = dict(params=dict(mod='str'), returns='Optional[Comp]', pure=True, trusted=True, raises={'ValueError': None},
                                     bounded_by='proved against its dispatch contract below (_parse_mod_comp@str)', ensures=[])
C[CC + 'mod_comp@str'] = dict(
    params=dict(mod='str'), returns='Comp', pure=True, locals=dict(m='Optional[Comp]'), callee_tag='alt',
    raises={'InvalidCompositionError': 'forall(lambda k: implies(0 <= k and k < len(mod.split("|")), ' + _PC + ' is None))', 'ValueError': None},
    raises_inexact=True,
    ensures=[('first-alternative-that-has-a-composition',
              'exists(lambda k: 0 <= k and k < len(mod.split("|")) and ' + _PC + ' is not None and result == some(' + _PC + ') and '
              'forall(lambda j: implies(0 <= j and j < k, _parse_mod_comp(mod.split("|")[j]) is None)))')],
    invariants={0: [('none-so-far', 'forall(lambda j: implies(0 <= j and j < _k0, _parse_mod_comp(mods[j]) is None))'),
                    ('the-alternatives', 'same(mods, mod.split("|"))')]},
)

# ---------------------------------------------------------------- one alternative: the dispatch
C['peptacular.util:convert_type'] = dict(params=dict(val='str'), returns='NumOrText', pure=True, trusted=True,
                                         bounded_by='int() / float() of the text, else the text: bounded/C01.py (values)', ensures=[])
_PRED = dict(is_gno_str='gno_str', is_xlmod_str='xlmod_str', is_resid_str='resid_str', is_psi_mod_str='psi_str', is_unimod_str='unimod_str')
from contracts.moddb import PREFIX_TESTS as _PT
for _f, _p in _PRED.items():
    C[MD + _f] = dict(params={_p: 'str'}, returns='bool', pure=True, trusted=True,
                      bounded_by=('pure prefix test: proved against this same contract in contracts/moddb.py (C10)' if _f in _PT else
                                  'prefix test OR membership in the vocabulary (id / name): proved against its definition in contracts/modresolve.py (C10)'),
                      ensures=([('prefix-test', 'result == (' + ' or '.join("iprefix(%s, '%s')" % (_p, x) for x in _PT[_f][1]) + ')')] if _f in _PT else []))
for _v in ('gno', 'xlmod', 'resid', 'psi', 'unimod'):
    C[MD + 'parse_%s_comp' % _v] = dict(params=dict(mod_str='str'), returns='str', pure=True, trusted=True, raises={'ValueError': None},
                                        bounded_by='proved against its own contract in contracts/modresolve.py (C10)', ensures=[])
C['peptacular.chem.chem_util:parse_chem_formula'] = dict(
    params=dict(formula='str'), returns='Comp', pure=True, trusted=True, external=True, raises={'ValueError': None},
    bounded_by='formula text -> composition: contracts/formulaparse.py, contracts/chemmass.py (C15)', ensures=[])
C[CC + '_parse_glycan_comp'] = dict(params=dict(glycan_str='str'), returns='Comp', pure=True, trusted=True, raises={'ValueError': None},
                                    bounded_by='Glycan: text -> composition: contracts/glycanmass.py for the dictionary form; text form bounded/C15.py', ensures=[])
_B = "(mod.split('#')[0] if ('#' in mod) else mod)"          # the text without its localisation tag
_NUM = '(convert_type(mod).kind == 1 or convert_type(mod).kind == 2)'
_TAGONLY = "('#' in mod) and mod.startswith('#')"
_L = _B + '.lower()'
_CASES = [
    ('glycan', 'iprefix(' + _B + ", 'glycan:')", '_parse_glycan_comp(' + _B + ')'),
    ('gno', 'is_gno_str(' + _B + ')', 'parse_chem_formula(parse_gno_comp(' + _B + '))'),
    ('xlmod', 'is_xlmod_str(' + _B + ')', 'parse_chem_formula(parse_xlmod_comp(' + _B + '))'),
    ('resid', 'is_resid_str(' + _B + ')', 'parse_chem_formula(parse_resid_comp(' + _B + '))'),
    ('info', 'iprefix(' + _B + ", 'info:')", None),
    ('obs', 'iprefix(' + _B + ", 'obs:')", None),
    ('psi-mod', 'is_psi_mod_str(' + _B + ')', 'parse_chem_formula(parse_psi_comp(' + _B + '))'),
    ('unimod', 'is_unimod_str(' + _B + ')', 'parse_chem_formula(parse_unimod_comp(' + _B + '))'),
    ('formula', 'iprefix(' + _B + ", 'formula:')", 'parse_chem_formula(' + _B + ".split(':')[1])"),
]
_ens = [('a-number-has-no-composition', 'implies(' + _NUM + ', result is None)'),
        ('a-bare-localisation-tag-has-the-empty-composition',
         'implies(not (' + _NUM + ') and ' + _TAGONLY + ', result is not None and forall(lambda k=str: not (k in some(result))))')]
_earlier = []
for _lab, _cond, _val in _CASES:
    _g = 'not (' + _NUM + ') and not (' + _TAGONLY + ')' + ''.join(' and not (' + e + ')' for e in _earlier) + ' and ' + _cond
    if _val is None:
        _ens.append(('%s-text-has-no-composition' % _lab, 'implies(' + _g + ', result is None)'))
    else:
        _ens.append(('%s-text-goes-to-its-resolver-without-the-tag' % _lab, 'implies(' + _g + ', result is not None and some(result) == ' + _val + ')'))
    _earlier.append(_cond)
_ens.append(('anything-else-has-no-composition',
             'implies(not (' + _NUM + ') and not (' + _TAGONLY + ')' + ''.join(' and not (' + e + ')' for e in _earlier) + ', result is None)'))
C[CC + '_parse_mod_comp@str'] = dict(
    params=dict(mod='str'), returns='Optional[Comp]', pure=True, raises={'ValueError': None, 'IndexError': "False"}, raises_inexact=True,
    ensures=_ens)
