"""Sidecar contracts for the spelling rules of peptacular.mods.mod_db (C10): prefix detection and stripping per vocabulary.
For every documented prefix p (in any letter case) and EVERY body x -- including bodies that contain colons or brackets --
strip(p + ':' + x) == x, and a string without such a prefix is returned unchanged."""
ALIASES = {}
C = {}
M = 'peptacular.mods.mod_db:'


def _strip(fn, param, prefixes):
    pre = [p + ':' for p in prefixes]
    anyp = ' or '.join("iprefix(%s, '%s')" % (param, p) for p in pre)
    ens = []
    # longest prefix first so that the cases are disjoint (e.g. 'unimod:' before 'u:')
    seen = []
    for p in sorted(pre, key=len, reverse=True):
        guard = "iprefix(%s, '%s')" % (param, p) + ''.join(" and not iprefix(%s, '%s')" % (param, q) for q in seen)
        ens.append(('strips-' + p[:-1], 'implies(%s, result == %s[%d:])' % (guard, param, len(p))))
        seen.append(p)
    ens.append(('unprefixed-unchanged', 'implies(not (%s), result == %s)' % (anyp, param)))
    C[M + fn] = dict(params={param: 'str'}, returns='str', ensures=ens)


_strip('_strip_unimod_str', 'unimod_str', ['unimod', 'u'])
_strip('_strip_psi_str', 'psi_str', ['psi-mod', 'mod', 'm'])
_strip('_strip_xlmod_str', 'xlmod_str', ['xlmod', 'x'])
_strip('_strip_resid_str', 'resid_str', ['resid', 'r'])
_strip('_strip_gno_str', 'gno_str', ['gno', 'g'])
C[M + 'is_xlmod_str'] = dict(params=dict(xlmod_str='str'), returns='bool',
                             ensures=[('prefix-test', "result == (iprefix(xlmod_str, 'xlmod:') or iprefix(xlmod_str, 'x:'))")])
C[M + 'is_gno_str'] = dict(params=dict(gno_str='str'), returns='bool',
                           ensures=[('prefix-test', "result == (iprefix(gno_str, 'gno:') or iprefix(gno_str, 'g:'))")])
C[M + 'is_resid_str'] = dict(params=dict(resid_str='str'), returns='bool',
                             ensures=[('prefix-test', "result == (iprefix(resid_str, 'resid:') or iprefix(resid_str, 'r:'))")])
# the three pure-prefix tests, as other contract modules assume them at call sites
PREFIX_TESTS = {'is_gno_str': ('gno_str', ['gno:', 'g:']), 'is_xlmod_str': ('xlmod_str', ['xlmod:', 'x:']), 'is_resid_str': ('resid_str', ['resid:', 'r:'])}
