"""Sidecar contract for MultiProFormaAnnotation.serialize (C01: chain links).  The link token written for a connection flag
must be the one the parser recognises: '//' for a cross-link (connection True), '+' otherwise."""
from contracts._records import RECORDS as _R, CLASSES as _C, CTORS, PA
ALIASES = {}
RECORDS = dict(_R, Multi=dict(annotations='List[Annotation]', connections='List[bool]'))
CLASSES = dict(_C, Multi='peptacular.proforma.proforma_parser:MultiProFormaAnnotation')
# SER(m, plus, k): the text of the first k chains with their link tokens (recursive spec function)
FUNCS = {'SER': (['Multi', 'bool', 'int'], 'str')}
AXIOMS = [
    ('SER-0', "forall(lambda m=Multi, plus=bool: SER(m, plus, 0) == '')"),
    ('SER-step', "forall(lambda m=Multi, plus=bool, k=int: implies(k >= 0, SER(m, plus, k + 1) == SER(m, plus, k) + "
                 "m.annotations[k].serialize(plus) + ('' if k == len(m.annotations) - 1 else ('//' if m.connections[k] else '+'))))"),
]
C = {}
C[PA + 'serialize'] = dict(params=dict(self='Annotation', include_plus='bool'), returns='str', pure=True, trusted=True,
                           bounded_by='single-chain serializer: layout proved in contracts/serial.py (C01); parser-inverts-writer round trip bounded/C01.py', ensures=[])
_BASE = dict(
    params=dict(self='Multi', include_plus='bool'), returns='str',
    ensures=[('chains-joined-by-their-link-tokens', 'result == SER(self, include_plus, len(self.annotations))')],
    invariants={0: [('joined', 'seq == SER(self, include_plus, _k0)')]},
)
# chains joined by '+' only: fully proved
C['peptacular.proforma.proforma_parser:MultiProFormaAnnotation.serialize@plus-links'] = dict(
    _BASE, requires=[('one-link-per-gap', 'len(self.connections) >= len(self.annotations) - 1'),
                     ('no-cross-link', 'forall(lambda k: implies(0 <= k and k < len(self.connections), not self.connections[k]))')])
# any connection flags, incl. cross-links ('//'): the obligation inv[0.joined] is refuted on the pinned tree (the serializer writes two
# backslashes) -- recorded as known finding C01-crosslink-serialized-as-backslashes, keyed by this obligation
C['peptacular.proforma.proforma_parser:MultiProFormaAnnotation.serialize@cross-links'] = dict(
    _BASE, requires=[('one-link-per-gap', 'len(self.connections) >= len(self.annotations) - 1')])
