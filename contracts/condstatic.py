"""Sidecar contract for ProFormaAnnotation.condense_static_mods (property C12, "condensing the rule produces exactly that explicit form",
as far as WHICH positions are concerned): the global rules are removed; a position that no residue rule matches keeps exactly what it
had; every position a residue rule matches carries modifications afterwards; pre-existing residue modifications stay (rules are appended);
the N- / C-terminal modifications change only if there is an N-Term / C-Term rule; nothing else changes.  The values written (the
rule's modifications appended in rule order) are bounded-checked."""
from contracts._records import RECORDS, CLASSES, CTORS, PA, accessor_contracts, pop_contracts
ALIASES = {'StaticMap': 'Dict[str,ModList]'}
_EQP = 'proved against this same contract in contracts/equality.py (C20)'
C = {k: v for k, v in accessor_contracts().items() if k.endswith('.sequence')}
C.update({k: v for k, v in pop_contracts(trusted=_EQP).items() if k.endswith('pop_static_mods')})
_KEEP = [f for f in RECORDS['Annotation'] if f not in ('_static_mods', '_nterm_mods', '_cterm_mods', '_internal_mods')]
MACROS = {
    'im_has': (['x', 'j'], 'x._internal_mods is not None and (j in some(x._internal_mods))'),
    'pos_same': (['t', 'a', 'j'], 'im_has(t, j) == im_has(a, j) and implies(im_has(a, j), some(t._internal_mods)[j] == some(a._internal_mods)[j])'),
    'kept': (['t', 'a'], ' and '.join('same(t.%s, a.%s)' % (f, f) for f in _KEEP)),
}
C['peptacular.proforma.proforma_parser:parse_static_mods'] = dict(
    params=dict(mods='Optional[ModList]'), returns='StaticMap', pure=True, trusted=True, bounded_by='static rule text -> target map: bounded/C12.py', ensures=[])
for _t in ('nterm', 'cterm'):
    others = [g for g in RECORDS['Annotation'] if g != '_%s_mods' % _t]
    C[PA + 'add_%s_mods' % _t] = dict(
        params=dict(self='Annotation', mods='ModList', append='bool'), returns='None', mutates=['self'], trusted=True, raises={},
        bounded_by='add_* stores: bodies proved (with exact values) in contracts/stores.py',
        ensures=[('terminal-modifications-present', 'self_final._%s_mods is not None' % _t),
                 ('nothing-else', ' and '.join('same(self_final.%s, self.%s)' % (g, g) for g in others))])
C[PA + 'add_internal_mods'] = dict(
    params=dict(self='Annotation', mods='Dict[int,ModList]', append='bool'), returns='None', mutates=['self'], trusted=True, raises={},
    requires=[('append-mode', 'append')], bounded_by='body proved with exact values (CAT of the old list and the normalised new one) in contracts/stores.py (add_internal_mods~append); the clauses assumed here follow from it',
    ensures=[('given-positions-modified', 'forall(lambda j: implies(j in mods, im_has(self_final, j)))'),
             ('other-positions-kept', 'forall(lambda j: implies(not (j in mods), pos_same(self_final, self, j)))'),
             ('existing-stay-modified', 'forall(lambda j: implies(im_has(self, j), im_has(self_final, j)))'),
             ('nothing-else', ' and '.join('same(self_final.%s, self.%s)' % (g, g) for g in RECORDS['Annotation'] if g != '_internal_mods'))])
_M = 'parse_static_mods(self._static_mods)'
_HIT = ("exists(lambda r=str, k=int: (r in " + _M + ") and r != 'N-Term' and r != 'C-Term' and 0 <= k and k < len(rematch(r, self._sequence)) and "
        "rematch(r, self._sequence)[k] == j)")
C[PA + 'condense_static_mods@copy'] = dict(
    params=dict(self='Annotation', inplace='bool'), specialize=dict(inplace=False), returns='Annotation', pure=True, raises={},
    locals=dict(static_mod_dict='StaticMap'),
    ensures=[('rules-removed', 'result._static_mods is None'), ('everything-else-kept', 'kept(result, self)'),
             ('no-rule-nothing-changes', 'implies(self._static_mods is None, same(result._nterm_mods, self._nterm_mods) and same(result._cterm_mods, self._cterm_mods) '
                                         'and same(result._internal_mods, self._internal_mods))'),
             ('terminal-modifications-change-only-under-a-terminal-rule',
              "implies(self._static_mods is not None, implies(not ('N-Term' in " + _M + "), same(result._nterm_mods, self._nterm_mods)) and "
              "implies(not ('C-Term' in " + _M + "), same(result._cterm_mods, self._cterm_mods)) and "
              "implies('N-Term' in " + _M + ", result._nterm_mods is not None) and implies('C-Term' in " + _M + ", result._cterm_mods is not None))"),
             ('unmatched-positions-untouched', 'implies(self._static_mods is not None, forall(lambda j: implies(not ' + _HIT + ', pos_same(result, self, j))))'),
             ('every-matched-position-is-modified', 'implies(self._static_mods is not None, forall(lambda j: implies(' + _HIT + ', im_has(result, j))))'),
             ('existing-modifications-stay', 'forall(lambda j: implies(im_has(self, j), im_has(result, j)))')],
    invariants={
        0: [('kept', 'kept(new_annotation, self) and new_annotation._static_mods is None and same(new_annotation._nterm_mods, new_annotation_at0._nterm_mods) and '
                     'same(new_annotation._cterm_mods, new_annotation_at0._cterm_mods)'),
            ('unmatched-so-far', "forall(lambda j: implies(not exists(lambda r=str, k=int: (r in _seen0) and r != 'N-Term' and r != 'C-Term' and 0 <= k and "
                                 'k < len(rematch(r, self._sequence)) and rematch(r, self._sequence)[k] == j), pos_same(new_annotation, self, j)))'),
            ('matched-so-far', "forall(lambda j: implies(exists(lambda r=str, k=int: (r in _seen0) and r != 'N-Term' and r != 'C-Term' and 0 <= k and "
                               'k < len(rematch(r, self._sequence)) and rematch(r, self._sequence)[k] == j), im_has(new_annotation, j)))'),
            ('existing-stay', 'forall(lambda j: implies(im_has(self, j), im_has(new_annotation, j)))'),
            ('the-map', 'same(static_mod_dict, ' + _M + ')')],
        1: [('kept', 'kept(new_annotation, self) and new_annotation._static_mods is None and same(new_annotation._nterm_mods, new_annotation_at1._nterm_mods) and '
                     'same(new_annotation._cterm_mods, new_annotation_at1._cterm_mods)'),
            ('unmatched-so-far', "forall(lambda j: implies(not exists(lambda r=str, k=int: (r in _seen0) and r != 'N-Term' and r != 'C-Term' and 0 <= k and "
                                 'k < len(rematch(r, self._sequence)) and rematch(r, self._sequence)[k] == j) and '
                                 'not exists(lambda k=int: 0 <= k and k < _k1 and indexes[k] == j), pos_same(new_annotation, self, j)))'),
            ('matched-so-far', "forall(lambda j: implies(exists(lambda r=str, k=int: (r in _seen0) and r != 'N-Term' and r != 'C-Term' and 0 <= k and "
                               'k < len(rematch(r, self._sequence)) and rematch(r, self._sequence)[k] == j) or '
                               'exists(lambda k=int: 0 <= k and k < _k1 and indexes[k] == j), im_has(new_annotation, j)))'),
            ('existing-stay', 'forall(lambda j: implies(im_has(self, j), im_has(new_annotation, j)))'),
            ('the-matches', 'same(indexes, rematch(aa, self._sequence)) and same(static_mod_dict, ' + _M + ')')],
    },
)
