"""Sidecar contract for ProFormaAnnotation.split (used by C04 / C18 / C19: the one-residue pieces a peptide is cut into): one piece per
residue, in order; piece i is the slice [i, i+1) of the peptide taken WITHOUT its labile modifications (so it carries residue i's own
modifications, the terminal ones only at the ends, and every global annotation -- what slice() is proved to do under C11), and the
labile modifications go to the first piece only.  The annotation split() is called on is left as it is (C08 frame clause)."""
from contracts._records import RECORDS, CLASSES, CTORS, PA, accessor_contracts, pop_contracts
ALIASES = {}
OPAQUE_LISTS = ['ModList']
_EQP = 'proved against this same contract in contracts/equality.py (C20)'
C = {k: v for k, v in accessor_contracts().items() if k.endswith('.sequence')}
C.update({k: v for k, v in pop_contracts(trusted=_EQP).items() if k.endswith('pop_labile_mods')})
_OTHER = [f for f in RECORDS['Annotation'] if f != '_labile_mods']
MACROS = {
    'nolab': (['x'], 'ProFormaAnnotation(' + ', '.join('%s=x.%s' % (f, f) for f in _OTHER) + ')'),
    'rest_same': (['t', 'a'], ' and '.join('same(t.%s, a.%s)' % (f, f) for f in _OTHER)),
}
C[PA + 'slice'] = dict(
    params=dict(self='Annotation', start='int', stop='int', inplace='bool'), returns='Annotation', pure=True, trusted=True,
    requires=[('range', '0 <= start and start <= stop and stop <= len(self._sequence)')],
    bounded_by='proved against its own contract in contracts/annot.py (C11)',
    ensures=[('labile-modifications-kept', 'result._labile_mods == self._labile_mods')])
C[PA + 'add_labile_mods'] = dict(
    params=dict(self='Annotation', mods='Optional[ModList]', append='bool'), returns='None', mutates=['self'], trusted=True,
    requires=[('onto-a-piece-without-labile-mods', 'self._labile_mods is None and mods is not None')],
    bounded_by='add_* stores: bodies proved (with exact values) in contracts/stores.py', raises={},
    ensures=[('labile-mods-attached', 'self_final._labile_mods is not None and some(self_final._labile_mods) == some(mods)'),
             ('nothing-else', 'rest_same(self_final, self)')])
_PIECE = ('(same(L[j], nolab(self).slice(j, j + 1)) if (j > 0 or not self._labile_mods) else '
          '(rest_same(L[j], nolab(self).slice(0, 1)) and L[j]._labile_mods is not None and some(L[j]._labile_mods) == some(self._labile_mods)))')
C[PA + 'split'] = dict(
    params=dict(self='Annotation'), returns='List[Annotation]', pure=True, raises={},
    ensures=[('one-piece-per-residue', 'len(result) == len(self._sequence)'),
             ('piece-i-is-the-slice-at-i-labile-mods-on-the-first', 'forall(lambda j: implies(0 <= j and j < len(result), ' + _PIECE.replace('L[', 'result[') + '))')],
    invariants={0: [('pieces-so-far', 'len(yields) == _k0 and forall(lambda j: implies(0 <= j and j < _k0, ' + _PIECE.replace('L[', 'yields[') + '))'),
                    ('working-copy', 'same(annotation, nolab(self)) and same(labile_mods, self._labile_mods)')]},
)
