"""Sidecar contracts for the single-chain serializer (property C01, what the writer writes): _serialize_annotation_start /
_serialize_annotation_end and the wrappers.  The text of a list of modifications is the concatenation fold ISER of the items'
own serialize(brackets, include_plus) (Mod.serialize is an abstract method of the opaque item); the writer's ''.join(pieces) is the
concatenation fold SJ over the list of pieces.  Field ORDER and BRACKETS are what these contracts pin: labile {..}, static <..>,
isotope <..>, unknown-position [..]?, N-terminal [..]- before the residues; -[..] C-terminal, /charge, [..] adducts after them."""
from contracts._records import RECORDS, CLASSES, CTORS, PA, accessor_contracts
ALIASES = {}
OPAQUE_LISTS = ['ModList']
ABSTRACT_METHODS = {('ModList_item', 'serialize'): (['str', 'bool'], 'str')}
JOIN_FOLD = 'SJ'
PREFIX_FOLDS = ['SJ']
PP = 'peptacular.proforma.proforma_parser:'
FUNCS = {
    'SJ': (['List[str]', 'int'], 'str'),                      # the first k pieces joined
    'ISER': (['ModList', 'str', 'bool', 'int'], 'str'),       # the first k modifications of a list, each in the given brackets
}
AXIOMS = [
    ('SJ-0', "forall(lambda L=List[str]: SJ(L, 0) == '')"),
    ('SJ-step', 'forall(lambda L=List[str], k=int: implies(k >= 0, SJ(L, k + 1) == SJ(L, k) + L[k]))'),
    ('ISER-0', "forall(lambda L=ModList, br=str, plus=bool: ISER(L, br, plus, 0) == '')"),
    ('ISER-step', 'forall(lambda L=ModList, br=str, plus=bool, k=int: implies(k >= 0, ISER(L, br, plus, k + 1) == ISER(L, br, plus, k) + items(L)[k].serialize(br, plus)))'),
]
INDUCTIVE_LEMMAS = [('SJ-reads-only-its-prefix', 'k', 'forall(lambda L1=List[str], L2=List[str]: implies(forall(lambda j: implies(0 <= j and j < k, '
                     'L1[j] == L2[j])), SJ(L1, k) == SJ(L2, k)))')]
MACROS = {
    'oser': (['O', 'br'], "('' if O is None else ISER(some(O), br, include_plus, len(items(some(O)))))"),
}
C = accessor_contracts()
_AFTER_LABILE = "oser(annotation._labile_mods, '{}')"
_AFTER_STATIC = _AFTER_LABILE + " + oser(annotation._static_mods, '<>')"
_AFTER_ISOTOPE = _AFTER_STATIC + " + oser(annotation._isotope_mods, '<>')"
_AFTER_UNKNOWN = _AFTER_ISOTOPE + " + ('' if annotation._unknown_mods is None else oser(annotation._unknown_mods, '[]') + '?')"
_START = _AFTER_UNKNOWN + " + ('' if annotation._nterm_mods is None else oser(annotation._nterm_mods, '[]') + '-')"
_LOOP = "SJ(comps, len(comps)) == {prefix} + ISER(some(annotation._{f}_mods), '{br}', include_plus, _k{o})"
C[PP + '_serialize_annotation_start'] = dict(
    params=dict(annotation='Annotation', include_plus='bool'), returns='str', pure=True, locals=dict(comps='List[str]'), raises={},
    ensures=[('labile-static-isotope-unknown-nterm-in-this-order-and-these-brackets', 'result == ' + _START)],
    invariants={0: [('so-far', _LOOP.format(prefix="''", f='labile', br='{}', o=0))],
                1: [('so-far', _LOOP.format(prefix='(' + _AFTER_LABILE + ')', f='static', br='<>', o=1))],
                2: [('so-far', _LOOP.format(prefix='(' + _AFTER_STATIC + ')', f='isotope', br='<>', o=2))],
                3: [('so-far', _LOOP.format(prefix='(' + _AFTER_ISOTOPE + ')', f='unknown', br='[]', o=3))],
                4: [('so-far', _LOOP.format(prefix='(' + _AFTER_UNKNOWN + ')', f='nterm', br='[]', o=4))]},
)

# the part after the residues: '-' + C-terminal modifications, '/' + charge, adducts -- each only when present (a charge of 0 is not written)
_CT = "('-' + ISER(some(annotation._cterm_mods), '[]', include_plus, len(items(some(annotation._cterm_mods)))) if annotation._cterm_mods else '')"
_CH = "(f'/{annotation._charge}' if annotation._charge else '')"
_AD = "(ISER(some(annotation._charge_adducts), '[]', include_plus, len(items(some(annotation._charge_adducts)))) if annotation._charge_adducts else '')"
C[PP + '_serialize_annotation_end'] = dict(
    params=dict(annotation='Annotation', include_plus='bool'), returns='str', pure=True, locals=dict(comps='List[str]'), raises={},
    ensures=[('cterm-charge-adducts-in-this-order', 'result == ' + _CT + ' + ' + _CH + ' + ' + _AD)],
    invariants={0: [('so-far', "SJ(comps, len(comps)) == '-' + ISER(some(annotation._cterm_mods), '[]', include_plus, _k0)")],
                1: [('so-far', "SJ(comps, len(comps)) == " + _CT + ' + ' + _CH + " + ISER(some(annotation._charge_adducts), '[]', include_plus, _k1)")]},
)
# the residues: before residue i the brackets of the intervals starting / ending there, then the residue, then its modifications; after the
# last residue the closing brackets of the intervals ending at the end
MACROS['opent'] = (['iv', 'i'], "(('(' + ('?' if iv.ambiguous else '')) if iv.start == i else '')")
MACROS['closet'] = (['iv', 'i', 'plus'], "((')' + (ISER(some(iv.mods), '[]', plus, len(items(some(iv.mods)))) if iv.mods else '')) if iv.end == i else '')")
FUNCS['IVT'] = (['List[Interval]', 'int', 'bool', 'int'], 'str')     # text the first k intervals contribute in front of residue i
FUNCS['IVC'] = (['List[Interval]', 'int', 'bool', 'int'], 'str')     # closing text of the first k intervals at position i (the end)
FUNCS['MID'] = (['Annotation', 'bool', 'int'], 'str')                # text of the first k residues
AXIOMS += [
    ('IVT-0', "forall(lambda L=List[Interval], i=int, plus=bool: IVT(L, i, plus, 0) == '')"),
    ('IVT-step', 'forall(lambda L=List[Interval], i=int, plus=bool, k=int: implies(k >= 0, IVT(L, i, plus, k + 1) == IVT(L, i, plus, k) + opent(L[k], i) + closet(L[k], i, plus)))'),
    ('IVC-0', "forall(lambda L=List[Interval], i=int, plus=bool: IVC(L, i, plus, 0) == '')"),
    ('IVC-step', 'forall(lambda L=List[Interval], i=int, plus=bool, k=int: implies(k >= 0, IVC(L, i, plus, k + 1) == IVC(L, i, plus, k) + closet(L[k], i, plus)))'),
    ('MID-0', "forall(lambda x=Annotation, plus=bool: MID(x, plus, 0) == '')"),
    ('MID-step', "forall(lambda x=Annotation, plus=bool, k=int: implies(k >= 0, MID(x, plus, k + 1) == MID(x, plus, k) + "
                 "(IVT(some(x._intervals), k, plus, len(some(x._intervals))) if x._intervals else '') + x._sequence[k] + "
                 "(ISER(some(x._internal_mods)[k], '[]', plus, len(items(some(x._internal_mods)[k]))) if (x._internal_mods and (k in some(x._internal_mods))) else '')))"),
]
_IVS = 'some(annotation._intervals)'
_M0 = 'MID(annotation, include_plus, _k0)'
_N = 'len(annotation._sequence)'
C[PP + '_serialize_annotation_middle'] = dict(
    params=dict(annotation='Annotation', include_plus='bool'), returns='str', pure=True, locals=dict(comps='List[str]'), raises={},
    ensures=[('residues-with-their-brackets-and-modifications-then-the-closing-brackets',
              'result == MID(annotation, include_plus, ' + _N + ') + (IVC(' + _IVS + ', ' + _N + ', include_plus, len(' + _IVS + ")) if annotation._intervals else '')")],
    invariants={
        0: [('residues-so-far', 'SJ(comps, len(comps)) == ' + _M0)],
        1: [('brackets-so-far', 'SJ(comps, len(comps)) == ' + _M0 + ' + IVT(' + _IVS + ', i, include_plus, _k1)'), ('i-is-the-counter', 'i == _k0')],
        2: [('closing-modifications-so-far', 'SJ(comps, len(comps)) == ' + _M0 + ' + IVT(' + _IVS + ", i, include_plus, _k1) + opent(interval, i) + ')' + "
             "ISER(some(interval.mods), '[]', include_plus, _k2)"), ('i-is-the-counter', 'i == _k0')],
        3: [('residue-modifications-so-far', 'SJ(comps, len(comps)) == ' + _M0 + ' + (IVT(' + _IVS + ', i, include_plus, len(' + _IVS + ")) if annotation._intervals else '') + aa + "
             "ISER(some(annotation._internal_mods)[i], '[]', include_plus, _k3)"), ('i-is-the-counter', 'i == _k0')],
        4: [('closing-brackets-so-far', 'SJ(comps, len(comps)) == MID(annotation, include_plus, ' + _N + ') + IVC(' + _IVS + ', i, include_plus, _k4)')],
        5: [('closing-modifications-so-far', 'SJ(comps, len(comps)) == MID(annotation, include_plus, ' + _N + ') + IVC(' + _IVS + ", i, include_plus, _k4) + ')' + "
             "ISER(some(interval.mods), '[]', include_plus, _k5)")],
    },
)
C[PP + '_serialize_annotation'] = dict(
    params=dict(annotation='Annotation', include_plus='bool'), returns='str', pure=True, raises={},
    ensures=[('start-middle-end', 'result == _serialize_annotation_start(annotation, include_plus) + _serialize_annotation_middle(annotation, include_plus) + '
                                  '_serialize_annotation_end(annotation, include_plus)')])
for _w, _f in (('serialize', '_serialize_annotation'), ('serialize_start', '_serialize_annotation_start'), ('serialize_middle', '_serialize_annotation_middle'),
               ('serialize_end', '_serialize_annotation_end')):
    C[PA + _w] = dict(params=dict(self='Annotation', include_plus='bool'), returns='str', pure=True, raises={},
                      ensures=[('delegates', 'result == %s(self, include_plus)' % _f)])
