"""Sidecar contracts for the modification-mass entry points (properties C10 / C02): mod_mass on a Mod object multiplies by the multiplier;
numbers pass through (a float rounded on request); for a text with '|' alternatives the FIRST resolvable alternative gives the mass and an
error is raised only if none resolves; an adduct entry's mass is the stated ions (known finding: the electrons of ONE ion only are
removed whatever the count), and a list of adduct entries adds up."""
ALIASES = {}
RECORDS = {'ModRec': dict(val='ModValue', mult='int')}
CLASSES = {'ModRec': 'peptacular.proforma.proforma_dataclasses:Mod'}
CTORS = {'Mod': 'ModRec'}
GLOBALS_FROM = {'peptacular.constants': ['ISOTOPIC_ATOMIC_MASSES', 'AVERAGE_ATOMIC_MASSES', 'ELECTRON_MASS', 'PROTON_MASS']}
EXC_PARENTS = {'InvalidModificationMassError': 'ValueError'}
MC = 'peptacular.mass_calc:'
C = {}
C[MC + '_parse_mod_mass'] = dict(params=dict(mod='str', monoisotopic='bool', precision='Optional[int]'), returns='Optional[real]', pure=True, trusted=True,
                                 bounded_by='resolver dispatch (prefixes, vocabularies, Formula / Glycan / Obs, # tags): bounded/C10.py, strip rules proved in contracts/moddb.py',
                                 ensures=[])
C[MC + 'mod_mass@value'] = dict(params=dict(mod='ModValue', monoisotopic='bool', precision='Optional[int]'), returns='real', pure=True, trusted=True,
                                bounded_by='the value of a Mod (text / number): the @str / @int / @float cases below', ensures=[])
C[MC + 'mod_mass@mod'] = dict(
    params=dict(mod='ModRec', monoisotopic='bool', precision='Optional[int]'), returns='real', pure=True, callee_tag='value', raises={'ValueError': None},
    ensures=[('mass-of-the-value-times-the-multiplier', 'result == mod_mass(mod.val, monoisotopic, precision) * mod.mult')])
C[MC + 'mod_mass@int'] = dict(
    params=dict(mod='int', monoisotopic='bool', precision='Optional[int]'), returns='real', pure=True, raises={},
    ensures=[('a-number-is-its-own-mass', 'result == mod')])
C[MC + 'mod_mass@float'] = dict(
    params=dict(mod='real', monoisotopic='bool', precision='Optional[int]'), returns='real', pure=True, raises={},
    ensures=[('a-number-is-its-own-mass', 'result == (mod if precision is None else round(mod, some(precision)))')])
_PM = '_parse_mod_mass(mod.split("|")[k], monoisotopic, precision)'
C[MC + 'mod_mass@str'] = dict(
    params=dict(mod='str', monoisotopic='bool', precision='Optional[int]'), returns='real', pure=True, locals=dict(m='Optional[real]'),
    raises={'InvalidModificationMassError': 'forall(lambda k: implies(0 <= k and k < len(mod.split("|")), ' + _PM + ' is None))'},
    ensures=[('first-resolvable-alternative',
              'exists(lambda k: 0 <= k and k < len(mod.split("|")) and ' + _PM + ' is not None and result == some(' + _PM + ') and '
              'forall(lambda j: implies(0 <= j and j < k, _parse_mod_mass(mod.split("|")[j], monoisotopic, precision) is None)))')],
    invariants={0: [('none-resolved-so-far', 'forall(lambda j: implies(0 <= j and j < _k0, _parse_mod_mass(mods[j], monoisotopic, precision) is None))'),
                    ('the-alternatives', 'same(mods, mod.split("|"))')]},
)
# adduct ions
C['peptacular.proforma.proforma_parser:parse_ion_elements'] = dict(
    params=dict(ion='str'), returns='Tuple[int,str,int]', pure=True, trusted=True,
    bounded_by='ion text -> (count, element, charge of one ion): bounded/C02.py (adduct lists)', ensures=[])
_CNT, _SYM, _CHG = 'parse_ion_elements(adduct)[0]', 'parse_ion_elements(adduct)[1]', 'parse_ion_elements(adduct)[2]'
_ATOM = '(ISOTOPIC_ATOMIC_MASSES[' + _SYM + '] if monoisotopic else AVERAGE_ATOMIC_MASSES[' + _SYM + '])'
_KNOWN = '(' + _SYM + ' in ISOTOPIC_ATOMIC_MASSES) if monoisotopic else (' + _SYM + ' in AVERAGE_ATOMIC_MASSES)'
C[MC + '_parse_adduct_mass'] = dict(
    params=dict(adduct='str', precision='Optional[int]', monoisotopic='bool'), returns='real', pure=True,
    raises={'InvalidModificationMassError': _SYM + " != 'e' and not (" + _KNOWN + ')'},
    ensures=[('electrons', 'implies(' + _SYM + " == 'e', result == " + _CNT + ' * ELECTRON_MASS)'),
             ('one-ion', 'implies(' + _SYM + " != 'e' and " + _CNT + ' == 1 and precision is None, result == ' + _ATOM + ' - ' + _CHG + ' * ELECTRON_MASS)'),
             # C02: "exactly the stated adduct ions": count ions, each short of (or carrying) its own electrons -- REFUTED on the pinned tree
             # for a count other than 1 (known finding C02-adduct-electron, keyed by this obligation)
             ('every-stated-ion-loses-its-own-electrons', 'implies(' + _SYM + " != 'e' and precision is None, result == " + _CNT + ' * (' + _ATOM + ' - ' + _CHG + ' * ELECTRON_MASS))')],
)
C[MC + '_parse_charge_adducts_mass@str'] = dict(
    params=dict(adducts='str', precision='Optional[int]', monoisotopic='bool'), returns='real', pure=True, raises={'ValueError': None},
    ensures=[('a-single-proton', "implies(adducts == '+H+', result == PROTON_MASS)"),
             ('sum-of-the-entries', "implies(adducts != '+H+', result == (psum(lambda a: _parse_adduct_mass(a, None, monoisotopic), adducts.split(','), len(adducts.split(','))) "
                                    "if precision is None else round(psum(lambda a: _parse_adduct_mass(a, None, monoisotopic), adducts.split(','), len(adducts.split(','))), some(precision))))")],
    invariants={0: [('entries-so-far', "m == psum(lambda a: _parse_adduct_mass(a, None, monoisotopic), adducts, _k0)")]},
)


# ---------------------------------------------------------------- one alternative: the dispatch of _parse_mod_mass (C10, "generic forms behave consistently")
RECORDS['NumOrText'] = dict(kind='int', s='str', i='int', f='real')
UNIONS = {'NumOrText': {'str': 0, 'int': 1, 'float': 2}}
MD = 'peptacular.mods.mod_db:'
C['peptacular.util:convert_type'] = dict(params=dict(val='str'), returns='NumOrText', pure=True, trusted=True,
                                         bounded_by='int() / float() of the text, else the text itself: bounded/C01.py (values)',
                                         ensures=[('a-text-stays-itself', 'implies(result.kind == 0, result.s == val)'),
                                                  ('kind', '0 <= result.kind and result.kind <= 2')])
from contracts.moddb import PREFIX_TESTS as _PT
for _f, _p in dict(is_gno_str='gno_str', is_xlmod_str='xlmod_str', is_resid_str='resid_str', is_psi_mod_str='psi_str', is_unimod_str='unimod_str').items():
    C[MD + _f] = dict(params={_p: 'str'}, returns='bool', pure=True, trusted=True,
                      bounded_by=('pure prefix test: proved against this same contract in contracts/moddb.py (C10)' if _f in _PT else
                                  'prefix test OR membership in the vocabulary (id / name): proved against its definition in contracts/modresolve.py (C10)'),
                      ensures=([('prefix-test', 'result == (' + ' or '.join("iprefix(%s, '%s')" % (_p, x) for x in _PT[_f][1]) + ')')] if _f in _PT else []))
for _v in ('gno', 'xlmod', 'resid', 'psi', 'unimod'):
    C[MD + 'parse_%s_mass' % _v] = dict(params=dict(mod_str='str', monoisotopic='bool', precision='Optional[int]'), returns='real', pure=True, trusted=True,
                                        raises={'ValueError': None}, bounded_by='proved against its own contract in contracts/modresolve.py (C10)', ensures=[])
for _f in ('_parse_glycan_mass_from_proforma_str', '_parse_chem_mass_from_proforma_str'):
    C[MC + _f] = dict(params=dict(mod='str', monoisotopic='bool', precision='Optional[int]'), returns='real', pure=True, trusted=True, raises={'ValueError': None},
                      bounded_by='Glycan: / Formula: text -> mass: contracts/glycanmass.py, contracts/chemmass.py for the dictionary forms; text forms bounded/C15.py', ensures=[])
C[MC + '_parse_obs_mass_from_proforma_str'] = dict(params=dict(mod='str', precision='Optional[int]'), returns='real', pure=True, trusted=True, raises={'ValueError': None},
                                                   bounded_by='Obs: text -> number: bounded/C10.py (generic forms)', ensures=[])
_B = "(mod.split('#')[0] if ('#' in mod) else mod)"
_TAGONLY = "('#' in mod) and mod.startswith('#')"
_CV = 'convert_type(' + _B + ')'
_L = _B + '.lower()'
_CASES = [
    ('glycan', 'iprefix(' + _B + ", 'glycan:')", '_parse_glycan_mass_from_proforma_str(' + _B + ', monoisotopic, precision)'),
    ('gno', 'is_gno_str(' + _B + ')', 'parse_gno_mass(' + _B + ', monoisotopic, precision)'),
    ('xlmod', 'is_xlmod_str(' + _B + ')', 'parse_xlmod_mass(' + _B + ', monoisotopic, precision)'),
    ('resid', 'is_resid_str(' + _B + ')', 'parse_resid_mass(' + _B + ', monoisotopic, precision)'),
    ('info', 'iprefix(' + _B + ", 'info:')", None),
    ('psi-mod', 'is_psi_mod_str(' + _B + ')', 'parse_psi_mass(' + _B + ', monoisotopic, precision)'),
    ('unimod', 'is_unimod_str(' + _B + ')', 'parse_unimod_mass(' + _B + ', monoisotopic, precision)'),
    ('formula', 'iprefix(' + _B + ", 'formula:')", '_parse_chem_mass_from_proforma_str(' + _B + ', monoisotopic, precision)'),
    ('obs', 'iprefix(' + _B + ", 'obs:')", '_parse_obs_mass_from_proforma_str(' + _B + ', precision)'),
]
_TEXT = 'not (' + _TAGONLY + ') and ' + _CV + '.kind == 0'
_ens = [('a-bare-localisation-tag-weighs-nothing', 'implies(' + _TAGONLY + ', result is not None and some(result) == 0)'),
        ('an-integer-text-is-its-own-mass', 'implies(not (' + _TAGONLY + ') and ' + _CV + '.kind == 1, result is not None and some(result) == ' + _CV + '.i)'),
        ('a-decimal-text-is-its-own-mass-rounded-on-request',
         'implies(not (' + _TAGONLY + ') and ' + _CV + '.kind == 2, result is not None and some(result) == (' + _CV + '.f if precision is None else round(' + _CV + '.f, some(precision))))')]
_earlier = []
for _lab, _cond, _val in _CASES:
    _g = _TEXT + ''.join(' and not (' + e + ')' for e in _earlier) + ' and ' + _cond
    if _val is None:
        _ens.append(('%s-text-has-no-mass' % _lab, 'implies(' + _g + ', result is None)'))
    else:
        _ens.append(('%s-text-goes-to-its-resolver-without-the-tag' % _lab, 'implies(' + _g + ', result is not None and some(result) == ' + _val + ')'))
    _earlier.append(_cond)
_ens.append(('anything-else-has-no-mass', 'implies(' + _TEXT + ''.join(' and not (' + e + ')' for e in _earlier) + ', result is None)'))
C[MC + '_parse_mod_mass@str'] = dict(
    params=dict(mod='str', monoisotopic='bool', precision='Optional[int]'), returns='Optional[real]', pure=True,
    raises={'ValueError': None}, raises_inexact=True, ensures=_ens)
