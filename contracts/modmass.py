"""Sidecar contracts for the modification-mass entry points (properties C10 / C02): mod_mass on a Mod object multiplies by the multiplier;
numbers pass through (a float rounded on request); for a text with '|' alternatives the FIRST resolvable alternative gives the mass and an
error is raised only if none resolves; an adduct entry's mass is the stated ions (known finding: the electrons of ONE ion only are
removed whatever the count), and a list of adduct entries adds up."""
ALIASES = {}
RECORDS = {'ModRec': dict(val='ModValue', mult='int')}
CLASSES = {'ModRec': 'peptacular.proforma.proforma_dataclasses:Mod'}
CTORS = {'Mod': 'ModRec'}
GLOBALS_FROM = {'peptacular.constants': ['ISOTOPIC_ATOMIC_MASSES', 'AVERAGE_ATOMIC_MASSES', 'ELECTRON_MASS', 'PROTON_MASS']}
EXC_PARENTS = {'InvalidModificationMassError': 'ValueError'}
MC = 'peptacular.mass_calc:'
C = {}
C[MC + '_parse_mod_mass'] = dict(params=dict(mod='str', monoisotopic='bool', precision='Optional[int]'), returns='Optional[real]', pure=True, trusted=True,
                                 bounded_by='resolver dispatch (prefixes, vocabularies, Formula / Glycan / Obs, # tags): bounded/C10.py, strip rules proved in contracts/moddb.py',
                                 ensures=[])
C[MC + 'mod_mass@value'] = dict(params=dict(mod='ModValue', monoisotopic='bool', precision='Optional[int]'), returns='real', pure=True, trusted=True,
                                bounded_by='the value of a Mod (text / number): the @str / @int / @float cases below', ensures=[])
C[MC + 'mod_mass@mod'] = dict(
    params=dict(mod='ModRec', monoisotopic='bool', precision='Optional[int]'), returns='real', pure=True, callee_tag='value', raises={'ValueError': None},
    ensures=[('mass-of-the-value-times-the-multiplier', 'result == mod_mass(mod.val, monoisotopic, precision) * mod.mult')])
C[MC + 'mod_mass@int'] = dict(
    params=dict(mod='int', monoisotopic='bool', precision='Optional[int]'), returns='real', pure=True, raises={},
    ensures=[('a-number-is-its-own-mass', 'result == mod')])
C[MC + 'mod_mass@float'] = dict(
    params=dict(mod='real', monoisotopic='bool', precision='Optional[int]'), returns='real', pure=True, raises={},
    ensures=[('a-number-is-its-own-mass', 'result == (mod if precision is None else round(mod, some(precision)))')])
_PM = '_parse_mod_mass(mod.split("|")[k], monoisotopic, precision)'
C[MC + 'mod_mass@str'] = dict(
    params=dict(mod='str', monoisotopic='bool', precision='Optional[int]'), returns='real', pure=True, locals=dict(m='Optional[real]'),
    raises={'InvalidModificationMassError': 'forall(lambda k: implies(0 <= k and k < len(mod.split("|")), ' + _PM + ' is None))'},
    ensures=[('first-resolvable-alternative',
              'exists(lambda k: 0 <= k and k < len(mod.split("|")) and ' + _PM + ' is not None and result == some(' + _PM + ') and '
              'forall(lambda j: implies(0 <= j and j < k, _parse_mod_mass(mod.split("|")[j], monoisotopic, precision) is None)))')],
    invariants={0: [('none-resolved-so-far', 'forall(lambda j: implies(0 <= j and j < _k0, _parse_mod_mass(mods[j], monoisotopic, precision) is None))'),
                    ('the-alternatives', 'same(mods, mod.split("|"))')]},
)
# adduct ions
C['peptacular.proforma.proforma_parser:parse_ion_elements'] = dict(
    params=dict(ion='str'), returns='Tuple[int,str,int]', pure=True, trusted=True,
    bounded_by='ion text -> (count, element, charge of one ion): bounded/C02.py (adduct lists)', ensures=[])
_CNT, _SYM, _CHG = 'parse_ion_elements(adduct)[0]', 'parse_ion_elements(adduct)[1]', 'parse_ion_elements(adduct)[2]'
_ATOM = '(ISOTOPIC_ATOMIC_MASSES[' + _SYM + '] if monoisotopic else AVERAGE_ATOMIC_MASSES[' + _SYM + '])'
_KNOWN = '(' + _SYM + ' in ISOTOPIC_ATOMIC_MASSES) if monoisotopic else (' + _SYM + ' in AVERAGE_ATOMIC_MASSES)'
C[MC + '_parse_adduct_mass'] = dict(
    params=dict(adduct='str', precision='Optional[int]', monoisotopic='bool'), returns='real', pure=True,
    raises={'InvalidModificationMassError': _SYM + " != 'e' and not (" + _KNOWN + ')'},
    ensures=[('electrons', 'implies(' + _SYM + " == 'e', result == " + _CNT + ' * ELECTRON_MASS)'),
             ('one-ion', 'implies(' + _SYM + " != 'e' and " + _CNT + ' == 1 and precision is None, result == ' + _ATOM + ' - ' + _CHG + ' * ELECTRON_MASS)'),
             # C02: "exactly the stated adduct ions": count ions, each short of (or carrying) its own electrons -- REFUTED on the pinned tree
             # for a count other than 1 (known finding C02-adduct-electron, keyed by this obligation)
             ('every-stated-ion-loses-its-own-electrons', 'implies(' + _SYM + " != 'e' and precision is None, result == " + _CNT + ' * (' + _ATOM + ' - ' + _CHG + ' * ELECTRON_MASS))')],
)
C[MC + '_parse_charge_adducts_mass@str'] = dict(
    params=dict(adducts='str', precision='Optional[int]', monoisotopic='bool'), returns='real', pure=True, raises={'ValueError': None},
    ensures=[('a-single-proton', "implies(adducts == '+H+', result == PROTON_MASS)"),
             ('sum-of-the-entries', "implies(adducts != '+H+', result == (psum(lambda a: _parse_adduct_mass(a, None, monoisotopic), adducts.split(','), len(adducts.split(','))) "
                                    "if precision is None else round(psum(lambda a: _parse_adduct_mass(a, None, monoisotopic), adducts.split(','), len(adducts.split(','))), some(precision))))")],
    invariants={0: [('entries-so-far', "m == psum(lambda a: _parse_adduct_mass(a, None, monoisotopic), adducts, _k0)")]},
)
