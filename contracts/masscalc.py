"""Sidecar contracts for peptacular.mass_calc (C02: charge / ion / isotope / loss adjustment; A-REAL)."""
ALIASES = {}
# ground facts: the real constants and offset tables, dumped from the real modules on every run
GLOBALS_FROM = {'peptacular.mass_calc': ['PROTON_MASS', 'NEUTRON_MASS', 'ELECTRON_MASS', 'MONOISOTOPIC_FRAGMENT_ION_ADJUSTMENTS',
                                         'AVERAGE_FRAGMENT_ION_ADJUSTMENTS', 'MONOISOTOPIC_FRAGMENT_ADJUSTMENTS', 'AVERAGE_FRAGMENT_ADJUSTMENTS']}
C = {}
C['peptacular.mass_calc:_parse_charge_adducts_mass'] = dict(
    params=dict(adducts='str', precision='Optional[int]', monoisotopic='bool'), returns='real', pure=True, trusted=True,
    bounded_by='adduct-ion text parsing (character loops + int()): checked by bounded/C02.py against the reference calculator',
    ensures=[],
)
_TYPES = "(ion_type in MONOISOTOPIC_FRAGMENT_ADJUSTMENTS)"
C['peptacular.mass_calc:adjust_mass'] = dict(
    pure=True,
    params=dict(base_mass='real', charge='Optional[int]', ion_type='str', monoisotopic='bool', isotope='int', loss='real',
                charge_adducts='Optional[str]', precision='Optional[int]'),
    returns='real',
    ghost=dict(q='0 if charge is None else some(charge)',
               # C02: "Charging adds one proton per unit charge (or exactly the stated adduct ions)"; for a fragment type the first
               # charge is the type's own ionisation offset (its ground value is checked against chemistry in C05)
               carrier="_parse_charge_adducts_mass(some(charge_adducts), None, monoisotopic) if charge_adducts is not None else ("
                       "PROTON_MASS * (0 if charge is None else some(charge)) if (ion_type == 'p' or ion_type == 'n') else "
                       "PROTON_MASS * ((0 if charge is None else some(charge)) - 1) + (MONOISOTOPIC_FRAGMENT_ION_ADJUSTMENTS[ion_type] if monoisotopic "
                       "else AVERAGE_FRAGMENT_ION_ADJUSTMENTS[ion_type]))",
               exact="base_mass + carrier + (MONOISOTOPIC_FRAGMENT_ADJUSTMENTS[ion_type] if monoisotopic else AVERAGE_FRAGMENT_ADJUSTMENTS[ion_type])"
                     " + isotope * NEUTRON_MASS + loss"),
    raises={'KeyError': 'not ' + _TYPES},
    ensures=[
        # "each isotope step adds one neutron mass, a neutral loss is added verbatim"
        ('sum-of-parts', 'implies(precision is None, result == exact)'),
        ('rounded-sum-of-parts', 'implies(precision is not None, result == round(exact, some(precision)))'),
    ],
    canary=[('loss-twice', 'implies(precision is None, result == exact + loss)')],
)
C['peptacular.mass_calc:adjust_mz'] = dict(
    pure=True,
    params=dict(base_mass='real', charge='Optional[int]', precision='Optional[int]'),
    returns='real',
    ghost=dict(q='0 if charge is None else some(charge)'),
    ensures=[
        # "for a positive charge m/z is that mass divided by the charge" (charge 0 / None: the mass itself)
        ('mass-over-charge', 'implies(precision is None, result == (base_mass if q == 0 else base_mass / q))'),
        ('rounded', 'implies(precision is not None, result == round((base_mass if q == 0 else base_mass / q), some(precision)))'),
    ],
)

# ---------------------------------------------------------------- consequences used by C05 (ion series): every statement about the ion-offset
# TABLES checked by ground/c05_tables.py holds for the ions of EVERY base mass, because an ion is its base mass plus its type's table entries
_T = "((MONOISOTOPIC_FRAGMENT_ION_ADJUSTMENTS[t] + MONOISOTOPIC_FRAGMENT_ADJUSTMENTS[t]) if mono else (AVERAGE_FRAGMENT_ION_ADJUSTMENTS[t] + AVERAGE_FRAGMENT_ADJUSTMENTS[t]))"
_FRAGT = "(t in MONOISOTOPIC_FRAGMENT_ADJUSTMENTS) and t != 'p' and t != 'n'"
LEMMAS = [
    ('singly-charged-ion-is-its-base-mass-plus-the-table-offsets-of-its-type',
     'forall(lambda B=real, t=str, mono=bool: implies(' + _FRAGT + ', adjust_mass(B, 1, t, mono, 0, 0.0, None, None) == B + ' + _T + '))'),
    ('each-further-charge-adds-one-proton',
     'forall(lambda B=real, t=str, mono=bool, q=int: implies(' + _FRAGT + ' and q >= 1, '
     'adjust_mass(B, q + 1, t, mono, 0, 0.0, None, None) == adjust_mass(B, q, t, mono, 0, 0.0, None, None) + PROTON_MASS))'),
    ('complementary-b-and-y-ions-sum-to-the-two-spans-plus-both-offsets',
     "forall(lambda B=real, Y=real, mono=bool: adjust_mass(B, 1, 'b', mono, 0, 0.0, None, None) + adjust_mass(Y, 1, 'y', mono, 0, 0.0, None, None) == "
     "B + Y + " + _T.replace('[t]', "['b']") + " + " + _T.replace('[t]', "['y']") + ")"),
    ('a-modification-shifts-exactly-the-ions-whose-base-mass-contains-it',
     'forall(lambda B=real, d=real, t=str, mono=bool, q=int: implies(' + _FRAGT + ' and q >= 1, '
     'adjust_mass(B + d, q, t, mono, 0, 0.0, None, None) == adjust_mass(B, q, t, mono, 0, 0.0, None, None) + d))'),
]
