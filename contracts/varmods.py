"""Sidecar contracts for the variable-modification enumerator (property C13, the "nothing else" half of its second sentence):
every form yielded by _apply_variable_mods_rec has the ORIGINAL residues and every annotation other than the residue modifications
untouched, leaves every position before the current index as it was, modifies only positions for which modifications are offered,
and in skip mode keeps every pre-existing residue modification intact; the recursion terminates (measure: residues left).
The exact-enumeration half (each form exactly once, at most max_mods sites) is bounded only."""
from contracts._records import RECORDS, CLASSES, CTORS, PA, accessor_contracts
ALIASES = {'Offer': 'Dict[int,List[ModList]]'}
MB = 'peptacular.sequence.mod_builder:'
C = {k: v for k, v in accessor_contracts().items() if k.split('.')[-1] in ('sequence', 'internal_mods', 'has_internal_mods')}
MACROS = {
    'im_has': (['x', 'j'], 'x._internal_mods is not None and (j in some(x._internal_mods))'),
    'im_at': (['x', 'j'], 'some(x._internal_mods)[j]'),
    'rest_same': (['t', 'a'], ' and '.join('same(t.%s, a.%s)' % (f, f) for f in RECORDS['Annotation'] if f != '_internal_mods')),
    'pos_same': (['t', 'a', 'j'], 'im_has(t, j) == im_has(a, j) and implies(im_has(a, j), im_at(t, j) == im_at(a, j))'),
}
C[PA + 'count_modified_residues'] = dict(
    params=dict(self='Annotation'), returns='int', pure=True,
    ensures=[('number-of-modified-positions', 'result == (0 if self._internal_mods is None else len(some(self._internal_mods)))')], raises={})
C[PA + 'count_internal_mods'] = dict(params=dict(self='Annotation'), returns='int', pure=True, trusted=True,
                                     bounded_by='number of modification ENTRIES (not of modified residues); not used by the pinned builder', ensures=[])
C[PA + 'has_internal_mods_at_index'] = dict(
    params=dict(self='Annotation', index='int'), returns='bool', pure=True, ensures=[('def', 'result == im_has(self, index)')], raises={})
C[PA + 'add_internal_mod'] = dict(
    params=dict(self='Annotation', index='int', mods='ModList', append='bool'), returns='None', mutates=['self'], trusted=True,
    bounded_by='add_internal_mod: body proved (replace / append / clear, other positions kept, nothing else) in contracts/stores.py; the modified-residue COUNT clause assumed here follows from it and the counting fold (bounded/C13.py)',
    ensures=[('position-modified', 'im_has(self_final, index)'),
             ('other-positions-kept', 'forall(lambda j: implies(j != index, pos_same(self_final, self, j)))'),
             ('one-more-modified-residue-iff-the-position-was-unmodified',
              'self_final.count_modified_residues() == self.count_modified_residues() + (0 if im_has(self, index) else 1)'),
             ('nothing-else', 'rest_same(self_final, self)')], raises={})

_P = ('t.count_modified_residues() <= max_mod_count and '
      'rest_same(t, annotation) and forall(lambda j: implies(j < index, pos_same(t, annotation, j))) and '
      'forall(lambda j: implies(im_has(t, j) and not im_has(annotation, j), j in mods)) and '
      "implies(mode == 'skip', forall(lambda j: implies(im_has(annotation, j), pos_same(t, annotation, j))))")
C[MB + '_apply_variable_mods_rec'] = dict(
    params=dict(mods='Offer', annotation='Annotation', index='int', max_mod_count='int', mode='str'), returns='Bag[Annotation]', pure=True,
    requires=[('index-in-range', '0 <= index and index <= len(annotation._sequence)'),
              ('budget-not-already-exceeded', 'annotation.count_modified_residues() <= max_mod_count')],
    measure='len(annotation._sequence) - index',
    raises={'ValueError': "mode != 'skip' and mode != 'append' and mode != 'overwrite'"}, raises_inexact=True,   # (raised only if; and only when an offered position is already modified)
    ensures=[('every-form-keeps-residues-and-everything-but-offered-positions',
              'forall(lambda t=Annotation: implies(count(yields, t) > 0, ' + _P + '))')],
    invariants={0: [('forms-so-far', 'forall(lambda t=Annotation: implies(count(yields, t) > 0, ' + _P + '))'),
                    ('annotation-untouched', 'same(annotation, old(annotation)) and same(original_annotation, old(annotation))')]},
)

C['peptacular.util:get_regex_match_indices'] = dict(
    params=dict(input_str='str', regex_str='str', offset='int'), returns='Bag[int]', pure=True, trusted=True,
    bounded_by='regular-expression matching: bounded/C13.py', ensures=[])
C[MB + '_variable_mods_builder'] = dict(
    params=dict(annotation='Annotation', mod_map='Dict[str,List[ModList]]', max_mods='int', mode='str'), returns='Bag[Annotation]', pure=True,
    locals=dict(new_mod_map='Offer'),
    requires=[('non-negative-budget', 'max_mods >= 0')],
    raises={'ValueError': "mode != 'skip' and mode != 'append' and mode != 'overwrite'"}, raises_inexact=True,
    ensures=[('at-most-max-mods-more-modified-residues-residues-and-other-annotations-kept',
              'forall(lambda t=Annotation: implies(count(result, t) > 0, t.count_modified_residues() <= max_mods + annotation.count_modified_residues() and '
              "rest_same(t, annotation) and implies(mode == 'skip', forall(lambda j: implies(im_has(annotation, j), pos_same(t, annotation, j))))))")])

# ---------------------------------------------------------------- the static builder (first sentence of C13), residue rules only
C['peptacular.proforma.input_convert:fix_list_of_mods'] = dict(params=dict(mods='ModList'), returns='ModList', pure=True, trusted=True,
                                                               bounded_by='input normalisation of an already normal list: bounded/C13.py', ensures=[])
C[PA + 'copy'] = dict(params=dict(self='Annotation'), returns='Annotation', pure=True, trusted=True,
                      bounded_by='proved in contracts/equality.py (C20)', ensures=[('equal-value', 'same(result, self)')])
C.update({k: v for k, v in accessor_contracts().items() if k.split('.')[-1] in ('has_nterm_mods', 'has_cterm_mods')})
for _t in ('nterm', 'cterm'):
    C[PA + 'add_%s_mods' % _t] = dict(params=dict(self='Annotation', mods='ModList', append='bool'), returns='None', mutates=['self'], trusted=True,
                                      bounded_by='terminal stores: not reachable in the residue-rules specialisation (the terminal rule maps are empty); bounded/C13.py', ensures=[], raises={})
# a position is matched by the rules: some rule (whose normalised modification list is not empty) has it among its regex matches
_MATCHED = ('exists(lambda r=str: internal_mods is not None and (r in some(internal_mods)) and (True if fix_list_of_mods(some(internal_mods)[r]) else False) and '
            'count(get_regex_match_indices(sequence._sequence, r, -1), j) > 0)')
C[MB + 'apply_static_mods@residues'] = dict(
    params=dict(sequence='Annotation', internal_mods='Optional[Dict[str,ModList]]', nterm_mods='None', cterm_mods='None', mode='str', return_type='str'),
    specialize=dict(return_type='annotation'), returns='Annotation', pure=True,
    locals=dict(internal_mods='Dict[str,ModList]', nterm_mods='Dict[str,ModList]', cterm_mods='Dict[str,ModList]'),
    raises={'ValueError': "mode != 'skip' and mode != 'append' and mode != 'overwrite'"}, raises_inexact=True,
    ensures=[('residues-and-every-other-annotation-kept', 'rest_same(result, sequence)'),
             ('unmatched-positions-untouched', 'forall(lambda j: implies(not ' + _MATCHED + ', pos_same(result, sequence, j)))'),
             ('skip-mode-keeps-existing-modifications', "implies(mode == 'skip', forall(lambda j: implies(im_has(sequence, j), pos_same(result, sequence, j))))"),
             ('every-matched-position-is-modified', 'forall(lambda j: implies(' + _MATCHED + ', im_has(result, j)))')],
    invariants={
        0: [('rest', 'rest_same(new_annotation, sequence)'),
            ('unmatched-so-far', 'forall(lambda j: implies(not exists(lambda r=str: (r in _seen0) and count(get_regex_match_indices(sequence._sequence, r, -1), j) > 0), '
                                 'pos_same(new_annotation, sequence, j)))'),
            ('skip', "implies(mode == 'skip', forall(lambda j: implies(im_has(sequence, j), pos_same(new_annotation, sequence, j))))"),
            ('matched-so-far', 'forall(lambda j: implies(exists(lambda r=str: (r in _seen0) and count(get_regex_match_indices(sequence._sequence, r, -1), j) > 0), im_has(new_annotation, j)))'),
            ('existing-stay-modified', 'forall(lambda j: implies(im_has(sequence, j), im_has(new_annotation, j)))')],
        1: [('rest', 'rest_same(new_annotation, sequence)'),
            ('unmatched-so-far', 'forall(lambda j: implies(not exists(lambda r=str: (r in _seen0) and count(get_regex_match_indices(sequence._sequence, r, -1), j) > 0) and '
                                 'not count(_done1, j) > 0, pos_same(new_annotation, sequence, j)))'),
            ('skip', "implies(mode == 'skip', forall(lambda j: implies(im_has(sequence, j), pos_same(new_annotation, sequence, j))))"),
            ('matched-so-far', 'forall(lambda j: implies(exists(lambda r=str: (r in _seen0) and count(get_regex_match_indices(sequence._sequence, r, -1), j) > 0) or '
                               'count(_done1, j) > 0, im_has(new_annotation, j)))'),
            ('existing-stay-modified', 'forall(lambda j: implies(im_has(sequence, j), im_has(new_annotation, j)))')],
        # the terminal rule maps are empty in this specialisation: their loops do nothing
        2: [('no-terminal-rules', 'same(new_annotation, new_annotation_at2) and forall(lambda r=str: not (r in nterm_mods))')],
        3: [('no-terminal-rules', 'same(new_annotation, new_annotation_at3) and forall(lambda r=str: not (r in nterm_mods))')],
        4: [('no-terminal-rules', 'same(new_annotation, new_annotation_at4) and forall(lambda r=str: not (r in cterm_mods))')],
        5: [('no-terminal-rules', 'same(new_annotation, new_annotation_at5) and forall(lambda r=str: not (r in cterm_mods))')],
    },
)

# ---------------------------------------------------------------- the static builder, N-terminal rules only (C13: "... every residue (or terminus) matched by the rule")
MACROS['but_nterm_same'] = (['a', 'b'], ' and '.join('same(a.%s, b.%s)' % (f, f) for f in RECORDS['Annotation'] if f != '_nterm_mods'))
MACROS['but_cterm_same'] = (['a', 'b'], ' and '.join('same(a.%s, b.%s)' % (f, f) for f in RECORDS['Annotation'] if f != '_cterm_mods'))
for _t, _pos in (('nterm', '0'), ('cterm', 'len(sequence._sequence) - 1')):
    C[PA + 'add_%s_mods' % _t] = dict(
        params=dict(self='Annotation', mods='ModList', append='bool'), returns='None', mutates=['self'], trusted=True,
        bounded_by='proved (with more clauses) against the real bodies in contracts/stores.py', raises={},
        ensures=[('terminus-modified', 'self_final._%s_mods is not None' % _t), ('nothing-else', 'but_%s_same(self_final, self)' % _t)])
    _RULES = '%s_mods' % _t
    _HIT = ('exists(lambda r=str: (r in RULES0) and (True if fix_list_of_mods(RULES0[r]) else False) and '
            'count(get_regex_match_indices(sequence._sequence, r, -1), %s) > 0)' % _pos)
    _HITSEEN = ('exists(lambda r=str: (r in _seenL) and count(get_regex_match_indices(sequence._sequence, r, -1), %s) > 0)' % _pos)
    _lo, _li = (2, 3) if _t == 'nterm' else (4, 5)
    _inv = {o: [('nothing-yet', 'same(new_annotation, new_annotation_at%d)' % o)] for o in range(6)}
    _inv[0] = [('no-residue-rules', 'same(new_annotation, sequence) and forall(lambda r=str: not (r in internal_mods))')]
    _inv[1] = [('no-residue-rules', 'same(new_annotation, sequence) and forall(lambda r=str: not (r in internal_mods))')]
    for o in ((2, 3) if _t == 'cterm' else (4, 5)):
        _inv[o] = [('no-rules-for-the-other-terminus', 'same(new_annotation, new_annotation_at%d) and forall(lambda r=str: not (r in %s))'
                    % (o, 'nterm_mods' if _t == 'cterm' else 'cterm_mods'))]
    _body = [('rest', 'but_%s_same(new_annotation, sequence)' % _t),
             ('untouched-unless-a-seen-rule-hits', 'implies(not (' + _HITSEEN.replace('_seenL', '_seen%d' % _lo) + ' %s), same(new_annotation._%s_mods, sequence._%s_mods))'),
             ('skip', "implies(mode == 'skip' and sequence._%s_mods is not None, same(new_annotation._%s_mods, sequence._%s_mods))" % (_t, _t, _t)),
             ('modified-once-a-seen-rule-hits', 'implies(' + _HITSEEN.replace('_seenL', '_seen%d' % _lo) + ' %s, new_annotation._%s_mods is not None)'),
             ('existing-stays', 'implies(sequence._%s_mods is not None, new_annotation._%s_mods is not None)' % (_t, _t))]
    _inv[_lo] = [(l, (x % ('', _t, _t) if x.count('%s') == 3 else (x % ('', _t) if x.count('%s') == 2 else x))) for l, x in _body]
    _inner_extra = 'or count(_done%d, %s) > 0' % (_li, _pos)
    _inv[_li] = [(l, (x % (_inner_extra, _t, _t) if x.count('%s') == 3 else (x % (_inner_extra, _t) if x.count('%s') == 2 else x))) for l, x in _body]
    C[MB + 'apply_static_mods@' + _t] = dict(
        params=dict(sequence='Annotation', internal_mods='None', nterm_mods=('Dict[str,ModList]' if _t == 'nterm' else 'None'),
                    cterm_mods=('Dict[str,ModList]' if _t == 'cterm' else 'None'), mode='str', return_type='str'),
        specialize=dict(return_type='annotation'), returns='Annotation', pure=True, callee_tag=_t,
        locals=dict(internal_mods='Dict[str,ModList]', nterm_mods='Dict[str,ModList]', cterm_mods='Dict[str,ModList]'),
        ghost=dict(RULES0=_RULES),
        raises={'ValueError': "mode != 'skip' and mode != 'append' and mode != 'overwrite'"}, raises_inexact=True,
        ensures=[('everything-but-this-terminus-kept', 'but_%s_same(result, sequence)' % _t),
                 ('terminus-untouched-unless-a-rule-matches-it', 'implies(not ' + _HIT + ', same(result._%s_mods, sequence._%s_mods))' % (_t, _t)),
                 ('skip-mode-keeps-an-existing-terminal-modification', "implies(mode == 'skip' and sequence._%s_mods is not None, same(result._%s_mods, sequence._%s_mods))" % (_t, _t, _t)),
                 ('a-matched-terminus-is-modified', 'implies(' + _HIT + ', result._%s_mods is not None)' % _t)],
        invariants=_inv)

# ---------------------------------------------------------------- apply_variable_mods with residue rules only (no terminal rules), annotation return type:
# the forms of the builder on a COPY of the peptide (so never the caller's own object) for the normalised rules
for _f in ('fix_list_of_list_of_mods', 'remove_empty_list_of_list_of_mods'):
    C['peptacular.proforma.input_convert:' + _f] = dict(
        params=dict(mods='List[ModList]'), returns='List[ModList]', pure=True, trusted=True,
        bounded_by='input normalisation of the offered modification groups: bounded/C13.py', ensures=[])
_NORM = '{k: v for k, v in {k: remove_empty_list_of_list_of_mods(fix_list_of_list_of_mods(v)) for k, v in some(internal_mods).items()}.items() if v}'
C[MB + 'apply_variable_mods@residues'] = dict(
    params=dict(sequence='Annotation', internal_mods='Optional[Dict[str,List[ModList]]]', max_mods='int', nterm_mods='None', cterm_mods='None',
                mode='str', return_type='str'),
    specialize=dict(return_type='annotation'), returns='Bag[Annotation]', pure=True,
    locals=dict(internal_mods='Dict[str,List[ModList]]', nterm_mods='Dict[str,List[ModList]]', cterm_mods='Dict[str,List[ModList]]',
                n_term_annotations='Bag[Annotation]', var_annotations='Bag[Annotation]'),
    requires=[('non-negative-budget', 'max_mods >= 0')],
    raises={'ValueError': "mode != 'skip' and mode != 'append' and mode != 'overwrite'"}, raises_inexact=True,
    ensures=[('every-form-keeps-the-residues-and-every-other-annotation-and-respects-the-budget',
              'forall(lambda t=Annotation: implies(count(result, t) > 0, t.count_modified_residues() <= max_mods + sequence.count_modified_residues() and '
              "rest_same(t, sequence) and implies(mode == 'skip', forall(lambda j: implies(im_has(sequence, j), pos_same(t, sequence, j))))))")],
    invariants={o: [('unreached', 'True')] for o in range(5)},
)
