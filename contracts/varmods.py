"""Sidecar contracts for the variable-modification enumerator (property C13, the "nothing else" half of its second sentence):
every form yielded by _apply_variable_mods_rec has the ORIGINAL residues and every annotation other than the residue modifications
untouched, leaves every position before the current index as it was, modifies only positions for which modifications are offered,
and in skip mode keeps every pre-existing residue modification intact; the recursion terminates (measure: residues left).
The exact-enumeration half (each form exactly once, at most max_mods sites) is bounded only."""
from contracts._records import RECORDS, CLASSES, CTORS, PA, accessor_contracts
ALIASES = {'Offer': 'Dict[int,List[ModList]]'}
MB = 'peptacular.sequence.mod_builder:'
C = {k: v for k, v in accessor_contracts().items() if k.split('.')[-1] in ('sequence', 'internal_mods', 'has_internal_mods')}
MACROS = {
    'im_has': (['x', 'j'], 'x._internal_mods is not None and (j in some(x._internal_mods))'),
    'im_at': (['x', 'j'], 'some(x._internal_mods)[j]'),
    'rest_same': (['t', 'a'], ' and '.join('same(t.%s, a.%s)' % (f, f) for f in RECORDS['Annotation'] if f != '_internal_mods')),
    'pos_same': (['t', 'a', 'j'], 'im_has(t, j) == im_has(a, j) and implies(im_has(a, j), im_at(t, j) == im_at(a, j))'),
}
C[PA + 'count_modified_residues'] = dict(
    params=dict(self='Annotation'), returns='int', pure=True,
    ensures=[('number-of-modified-positions', 'result == (0 if self._internal_mods is None else len(some(self._internal_mods)))')], raises={})
C[PA + 'count_internal_mods'] = dict(params=dict(self='Annotation'), returns='int', pure=True, trusted=True,
                                     bounded_by='number of modification ENTRIES (not of modified residues); not used by the pinned builder', ensures=[])
C[PA + 'has_internal_mods_at_index'] = dict(
    params=dict(self='Annotation', index='int'), returns='bool', pure=True, ensures=[('def', 'result == im_has(self, index)')], raises={})
C[PA + 'add_internal_mod'] = dict(
    params=dict(self='Annotation', index='int', mods='ModList', append='bool'), returns='None', mutates=['self'], trusted=True,
    bounded_by='add_* stores: bounded/C20.py, bounded/C13.py',
    ensures=[('position-modified', 'im_has(self_final, index)'),
             ('other-positions-kept', 'forall(lambda j: implies(j != index, pos_same(self_final, self, j)))'),
             ('one-more-modified-residue-iff-the-position-was-unmodified',
              'self_final.count_modified_residues() == self.count_modified_residues() + (0 if im_has(self, index) else 1)'),
             ('nothing-else', 'rest_same(self_final, self)')], raises={})

_P = ('t.count_modified_residues() <= max_mod_count and '
      'rest_same(t, annotation) and forall(lambda j: implies(j < index, pos_same(t, annotation, j))) and '
      'forall(lambda j: implies(im_has(t, j) and not im_has(annotation, j), j in mods)) and '
      "implies(mode == 'skip', forall(lambda j: implies(im_has(annotation, j), pos_same(t, annotation, j))))")
C[MB + '_apply_variable_mods_rec'] = dict(
    params=dict(mods='Offer', annotation='Annotation', index='int', max_mod_count='int', mode='str'), returns='Bag[Annotation]', pure=True,
    requires=[('index-in-range', '0 <= index and index <= len(annotation._sequence)'),
              ('budget-not-already-exceeded', 'annotation.count_modified_residues() <= max_mod_count')],
    measure='len(annotation._sequence) - index',
    raises={'ValueError': "mode != 'skip' and mode != 'append' and mode != 'overwrite'"}, raises_inexact=True,   # (raised only if; and only when an offered position is already modified)
    ensures=[('every-form-keeps-residues-and-everything-but-offered-positions',
              'forall(lambda t=Annotation: implies(count(yields, t) > 0, ' + _P + '))')],
    invariants={0: [('forms-so-far', 'forall(lambda t=Annotation: implies(count(yields, t) > 0, ' + _P + '))'),
                    ('annotation-untouched', 'same(annotation, old(annotation)) and same(original_annotation, old(annotation))')]},
)

C['peptacular.util:get_regex_match_indices'] = dict(
    params=dict(input_str='str', regex_str='str', offset='int'), returns='Bag[int]', pure=True, trusted=True,
    bounded_by='regular-expression matching: bounded/C13.py', ensures=[])
C[MB + '_variable_mods_builder'] = dict(
    params=dict(annotation='Annotation', mod_map='Dict[str,List[ModList]]', max_mods='int', mode='str'), returns='Bag[Annotation]', pure=True,
    locals=dict(new_mod_map='Offer'),
    requires=[('non-negative-budget', 'max_mods >= 0')],
    raises={'ValueError': "mode != 'skip' and mode != 'append' and mode != 'overwrite'"}, raises_inexact=True,
    ensures=[('at-most-max-mods-more-modified-residues-residues-and-other-annotations-kept',
              'forall(lambda t=Annotation: implies(count(result, t) > 0, t.count_modified_residues() <= max_mods + annotation.count_modified_residues() and '
              "rest_same(t, annotation) and implies(mode == 'skip', forall(lambda j: implies(im_has(annotation, j), pos_same(t, annotation, j))))))")])
