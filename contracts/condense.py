"""Sidecar contracts for peptacular.mass_calc.condense_to_mass_mods (property C18) on the shared record model: the result is the
serialized peptide that has the same residues, a numeric shift on residue i exactly when the one-residue piece i differs in mass
from its stripped form by more than 1e-6 (value: that difference rounded to the precision), one numeric N-terminal / C-terminal /
labile shift exactly when the peptide has such modifications (value: the rounded sum of their masses), and nothing else."""
from contracts._records import RECORDS, CLASSES, CTORS, PA, accessor_contracts, pop_contracts
ALIASES = {}
OPAQUE_LISTS = ['ModList']
FUNCS = {'NUM1': (['real'], 'ModList')}      # the modification list [Mod(x, 1)] a bare number is normalised to
AXIOMS = []
MC = 'peptacular.mass_calc:'
_EQP = 'proved against this same contract in contracts/equality.py (C20)'
C = {k: v for k, v in pop_contracts(trusted=_EQP).items() if k.split('.')[-1] in ('pop_nterm_mods', 'pop_cterm_mods', 'pop_labile_mods')}
_FIELDS = ('isotope_mods', 'static_mods', 'labile_mods', 'unknown_mods', 'nterm_mods', 'cterm_mods', 'charge_adducts', 'internal_mods',
           'intervals', 'charge')
MACROS = {
    'im_has': (['x', 'j'], 'x._internal_mods is not None and (j in some(x._internal_mods))'),
    'bare': (['r', 's'], 'r._sequence == s and ' + ' and '.join('r._%s is None' % f for f in _FIELDS)),
    # the peptide without its terminal and labile modifications (what is cut into one-residue pieces)
    'body': (['x'], 'ProFormaAnnotation(_sequence=x._sequence, _isotope_mods=x._isotope_mods, _static_mods=x._static_mods, '
                    '_unknown_mods=x._unknown_mods, _internal_mods=x._internal_mods, _intervals=x._intervals, _charge=x._charge, '
                    '_charge_adducts=x._charge_adducts)'),
    'delta': (['x', 'j'], 'mass(body(x).split()[j]) - mass(body(x).split()[j].strip())'),
}


def _same_except(*fields):
    return ' and '.join('same(self_final.%s, self.%s)' % (g, g) for g in RECORDS['Annotation'] if g not in fields)


C[PA + 'split'] = dict(params=dict(self='Annotation'), returns='List[Annotation]', pure=True, trusted=True,
                       bounded_by='proved against its own contract in contracts/pieces.py (piece i is slice(i, i+1) of the peptide without labile modifications, which go to the first piece)',
                       ensures=[('one-piece-per-residue', 'len(result) == len(self._sequence)')])
C[PA + 'strip'] = dict(params=dict(self='Annotation', inplace='bool'), returns='Annotation', pure=True, trusted=True,
                       requires=[('copy-mode', 'not inplace')], bounded_by=_EQP,
                       ensures=[('copy-has-the-residues-and-no-modification', 'bare(result, self._sequence)')])
C[PA + 'serialize'] = dict(params=dict(self='Annotation', include_plus='bool'), returns='str', pure=True, trusted=True,
                           bounded_by='single-chain serializer: layout proved in contracts/serial.py (C01); parser-inverts-writer round trip bounded/C01.py', ensures=[])
C[MC + 'mass'] = dict(params=dict(sequence='Annotation'), returns='real', pure=True, trusted=True,
                      bounded_by='the mass calculator: checked against the reference calculator by bounded/C02.py', ensures=[])
C[MC + 'mod_mass'] = dict(params=dict(mod='ModList_item'), returns='real', pure=True, trusted=True,
                                            bounded_by='modification masses: bounded/C10.py', ensures=[])
# the four stores (number argument, replace mode): assumed frame contracts, exercised by bounded/C20.py (add_mods round trips)
C[PA + 'add_internal_mod'] = dict(
    params=dict(self='Annotation', index='int', mods='real', append='bool'), returns='None', mutates=['self'], trusted=True,
    requires=[('replace-mode', 'not append')], bounded_by='add_* stores: bodies proved (with exact values) in contracts/stores.py',
    ensures=[('stored-at-index', 'self_final._internal_mods is not None and (index in some(self_final._internal_mods)) and '
                                 'some(self_final._internal_mods)[index] == NUM1(mods)'),
             ('other-positions-kept', 'forall(lambda j: implies(j != index, im_has(self_final, j) == im_has(self, j) and '
                                      'implies(im_has(self, j), some(self_final._internal_mods)[j] == some(self._internal_mods)[j])))'),
             ('nothing-else', _same_except('_internal_mods'))], raises={})
for _f in ('nterm', 'cterm', 'labile'):
    C[PA + 'add_%s_mods' % _f] = dict(
        params=dict(self='Annotation', mods='real', append='bool'), returns='None', mutates=['self'], trusted=True,
        requires=[('replace-mode', 'not append')], bounded_by='add_* stores: bodies proved (with exact values) in contracts/stores.py',
        ensures=[('stored', 'self_final._%s_mods is not None and some(self_final._%s_mods) == NUM1(mods)' % (_f, _f)),
                 ('nothing-else', _same_except('_%s_mods' % _f))], raises={})

_TERM = ('(R._{f}_mods is None) == (sequence._{f}_mods is None) and implies(sequence._{f}_mods is not None, '
         'some(R._{f}_mods) == NUM1(round(sum(mod_mass(mod) for mod in some(sequence._{f}_mods)), precision)))')
C[MC + 'condense_to_mass_mods'] = dict(
    params=dict(sequence='Annotation', include_plus='bool', precision='int'), returns='str', pure=True,
    ensures=[('same-residues-numeric-shifts-where-the-pieces-differ',
              'exists(lambda R=Annotation: result == R.serialize(include_plus) and R._sequence == sequence._sequence and '
              'forall(lambda j: im_has(R, j) == (0 <= j and j < len(sequence._sequence) and abs(delta(sequence, j)) > 1e-06) and '
              'implies(im_has(R, j), some(R._internal_mods)[j] == NUM1(round(delta(sequence, j), precision)))) and '
              + ' and '.join(_TERM.format(f=f) for f in ('nterm', 'cterm', 'labile')) +
              ' and R._isotope_mods is None and R._static_mods is None and R._unknown_mods is None and R._intervals is None '
              'and R._charge is None and R._charge_adducts is None)')],
    invariants={0: [('shifts-so-far', 'forall(lambda j: im_has(new_annotation, j) == (0 <= j and j < _k0 and abs(delta(sequence, j)) > 1e-06) and '
                                      'implies(im_has(new_annotation, j), some(new_annotation._internal_mods)[j] == NUM1(round(delta(sequence, j), precision))))'),
                    ('rest-bare', 'new_annotation._sequence == sequence._sequence and ' +
                     ' and '.join('new_annotation._%s is None' % f for f in _FIELDS if f != 'internal_mods'))]},
    raises={})
