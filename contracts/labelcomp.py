"""Sidecar contract for chem_calc.apply_isotope_mods_to_composition (property C12, isotope-label sentence): a global isotope label
moves ALL atoms of its element to the labelled isotope -- added to whatever amount of that isotope the composition already has --
leaves every other entry alone, and leaves compositions without that element unchanged."""
ALIASES = {'Comp': 'Dict[str,real]', 'LabelMap': 'Dict[str,str]'}
# SRC(m, x): the element whose label is x (left inverse of the label map; exists because labels are the element's own isotopes)
FUNCS = {'SRC': (['LabelMap', 'str'], 'str')}
AXIOMS = []
CC = 'peptacular.chem.chem_calc:'
C = {}
MACROS = {
    # element e is relabelled: it is in the map with a label different from itself and the composition has it
    'moved': (['m', 'c', 'e'], '(e in m) and (e in c) and m[e] != e'),
}
C['peptacular.proforma.proforma_parser:parse_isotope_mods'] = dict(
    params=dict(mods='IsotopeMods'), returns='LabelMap', pure=True, trusted=True,
    bounded_by='label text -> element map (regex): bounded/C12.py',
    ensures=[('labels-are-not-elements-of-the-map', 'forall(lambda e=str: implies((e in result) and result[e] != e, not (result[e] in result)))'),
             ('one-element-per-label', 'forall(lambda e=str: implies(e in result, SRC(result, result[e]) == e))')])
_M = 'parse_isotope_mods(some(isotopic_mods))'
C[CC + 'apply_isotope_mods_to_composition'] = dict(
    params=dict(composition='Comp', isotopic_mods='Optional[IsotopeMods]'), returns='Comp', pure=True,
    ensures=[('no-label-no-change', 'implies(isotopic_mods is None, forall(lambda x=str: (x in result) == (x in composition) and '
                                    'implies(x in composition, result[x] == composition[x])))'),
             ('element-entry-moved-away-label-entry-receives-it',
              'implies(isotopic_mods is not None, forall(lambda x=str: '
              '(x in result) == (((x in composition) and not moved(' + _M + ', composition, x)) or moved(' + _M + ', composition, SRC(' + _M + ', x)) and ' + _M + '[SRC(' + _M + ', x)] == x)))'),
             ('counts-add-up',
              'implies(isotopic_mods is not None, forall(lambda x=str: implies(x in result, result[x] == '
              '(composition[x] if ((x in composition) and not moved(' + _M + ', composition, x)) else 0) + '
              '(composition[SRC(' + _M + ', x)] if (moved(' + _M + ', composition, SRC(' + _M + ', x)) and ' + _M + '[SRC(' + _M + ', x)] == x) else 0))))'),],
    invariants={0: [
        ('keys', 'forall(lambda x=str: (x in composition) == (((x in composition_at0) and not (moved(isotope_map, composition_at0, x) and (x in _seen0))) or '
                 '(moved(isotope_map, composition_at0, SRC(isotope_map, x)) and (SRC(isotope_map, x) in _seen0) and isotope_map[SRC(isotope_map, x)] == x)))'),
        ('values', 'forall(lambda x=str: implies(x in composition, composition[x] == '
                   '(composition_at0[x] if ((x in composition_at0) and not (moved(isotope_map, composition_at0, x) and (x in _seen0))) else 0) + '
                   '(composition_at0[SRC(isotope_map, x)] if (moved(isotope_map, composition_at0, SRC(isotope_map, x)) and (SRC(isotope_map, x) in _seen0) '
                   'and isotope_map[SRC(isotope_map, x)] == x) else 0)))')]},
    raises={})
