"""Sidecar contracts for the terminal stores of ProFormaAnnotation (used as callee contracts by the static builder, condensing and the
fragmenter's pieces: C13, C12, C18, C04): the property setters with a VALUE and the add_* methods of the six list-valued fields
(N-/C-terminal, unknown-position, static, isotope, labile), add_internal_mod and add_internal_mods in append mode.

setter(value): the field becomes None for None, otherwise the normalised value (fix_list_of_mods; the deep copy is value identity here, its
freshness is C08's frame claim); nothing else changes.
add_<t>erm_mods(mods, append): None with replace clears the terminus, None with append does nothing; a value replaces the terminus
(normalised) unless append is asked for AND the terminus is already modified, in which case the normalised value is appended to what is
there (CAT of the two opaque lists); every other field is untouched; with a value the terminus is modified afterwards."""
from contracts._records import RECORDS, CLASSES, CTORS, PA, accessor_contracts
ALIASES = {}
OPAQUE_LISTS = ['ModList']
_TS = ('nterm', 'cterm', 'unknown', 'static', 'isotope', 'labile')
C = {k: v for k, v in accessor_contracts().items() if k.split('.')[-1] in [t + '_mods' for t in _TS] + ['has_' + t + '_mods' for t in _TS]}
C['peptacular.proforma.input_convert:fix_list_of_mods'] = dict(
    params=dict(mods='ModList'), returns='ModList', pure=True, trusted=True,
    bounded_by='input normalisation of a list of modifications: bounded/C20.py, bounded/C13.py', ensures=[])
FUNCS = {'CAT_ModList': (['ModList', 'ModList'], 'ModList')}
_ALL = list(RECORDS['Annotation'])
for _t in _TS:
    _others = ' and '.join('same(self_final.%s, self.%s)' % (g, g) for g in _ALL if g != '_%s_mods' % _t)
    C[PA + '%s_mods.setter' % _t] = dict(
        params=dict(self='Annotation', value='Optional[ModList]'), returns='None', mutates=['self'], raises={},
        ensures=[('none-clears', 'implies(value is None, self_final._%s_mods is None)' % _t),
                 ('a-value-is-stored-normalised', 'implies(value is not None, self_final._%s_mods is not None and '
                                                  'some(self_final._%s_mods) == fix_list_of_mods(some(value)))' % (_t, _t)),
                 ('nothing-else', _others)])
    _F = 'self._%s_mods' % _t
    _G = 'self_final._%s_mods' % _t
    C[PA + 'add_%s_mods' % _t] = dict(
        params=dict(self='Annotation', mods='Optional[ModList]', append='bool'), returns='None', mutates=['self'], raises={},
        ensures=[('none-with-replace-clears', 'implies(mods is None and not append, %s is None)' % _G),
                 ('none-with-append-changes-nothing', 'implies(mods is None and append, same(%s, %s))' % (_G, _F)),
                 ('a-value-replaces', 'implies(mods is not None and (not append or %s is None), %s is not None and '
                                      # (normalised by the method and once more by the setter it goes through; add_labile_mods itself does not normalise)
                                      'some(%s) == %s)' % (_F, _G, _G, 'fix_list_of_mods(some(mods))' if _t == 'labile' else
                                                           'fix_list_of_mods(fix_list_of_mods(some(mods)))')),
                 ('a-value-is-appended-to-an-existing-terminus',
                  'implies(mods is not None and append and %s is not None, %s is not None and '
                  'some(%s) == CAT_ModList(some(%s), %s))' % (_F, _G, _G, _F, 'some(mods)' if _t == 'labile' else 'fix_list_of_mods(some(mods))')),
                 ('with-a-value-the-terminus-is-modified', 'implies(mods is not None, %s is not None)' % _G),
                 ('nothing-else', _others)])

# add_internal_mod(index, mods, append): the residue store the builders / condensing write through
C.update({k: v for k, v in accessor_contracts().items() if k.split('.')[-1] in ('internal_mods', 'has_internal_mods')})
_IOTH = ' and '.join('same(self_final.%s, self.%s)' % (g, g) for g in _ALL if g != '_internal_mods')
MACROS = {
    'imh': (['x', 'j'], 'x._internal_mods is not None and (j in some(x._internal_mods))'),
    'ima': (['x', 'j'], 'some(x._internal_mods)[j]'),
}
C[PA + 'add_internal_mod'] = dict(
    params=dict(self='Annotation', index='int', mods='Optional[ModList]', append='bool'), returns='None', mutates=['self'], raises={},
    ensures=[('none-with-replace-clears-the-position', 'implies(mods is None and not append, not imh(self_final, index))'),
             ('none-with-append-changes-nothing', 'implies(mods is None and append, same(self_final._internal_mods, self._internal_mods))'),
             ('a-value-replaces', 'implies(mods is not None and (not append or not imh(self, index)), imh(self_final, index) and '
                                  'ima(self_final, index) == fix_list_of_mods(some(mods)))'),
             ('a-value-is-appended-to-an-existing-position',
              'implies(mods is not None and append and imh(self, index), imh(self_final, index) and '
              'ima(self_final, index) == CAT_ModList(ima(self, index), fix_list_of_mods(some(mods))))'),
             ('other-positions-kept', 'forall(lambda j: implies(j != index, imh(self_final, j) == imh(self, j) and implies(imh(self, j), ima(self_final, j) == ima(self, j))))'),
             ('nothing-else', _IOTH)])

# the residue-modification setter with a value, and add_internal_mods in APPEND mode (what condense_static_mods writes through)
C['peptacular.proforma.input_convert:fix_dict_of_mods'] = dict(
    params=dict(mods='Dict[int,ModList]'), returns='Dict[int,ModList]', pure=True, trusted=True,
    bounded_by='input normalisation of a position -> modifications dictionary: bounded/C20.py', ensures=[])
C[PA + 'internal_mods.setter'] = dict(
    params=dict(self='Annotation', value='Optional[Dict[int,ModList]]'), returns='None', mutates=['self'], raises={},
    ensures=[('none-clears', 'implies(value is None, self_final._internal_mods is None)'),
             ('a-value-is-stored-normalised', 'implies(value is not None, self_final._internal_mods is not None and '
                                              'some(self_final._internal_mods) == fix_dict_of_mods(some(value)))'),
             ('nothing-else', _IOTH)])
_FX = 'fix_dict_of_mods(some(mods))'
C[PA + 'add_internal_mods@append'] = dict(
    params=dict(self='Annotation', mods='Optional[Dict[int,ModList]]', append='bool'), specialize=dict(append=True), returns='None', mutates=['self'], raises={},
    ensures=[('none-changes-nothing', 'implies(mods is None, same(self_final._internal_mods, self._internal_mods))'),
             ('first-modifications-are-the-normalised-dictionary',
              # (normalised by the method and once more by the setter it goes through)
              'implies(mods is not None and self._internal_mods is None, self_final._internal_mods is not None and '
              'some(self_final._internal_mods) == fix_dict_of_mods(' + _FX + '))'),
             ('given-positions-get-the-modifications-appended',
              'implies(mods is not None and self._internal_mods is not None, forall(lambda j: implies(j in ' + _FX + ', imh(self_final, j) and '
              'ima(self_final, j) == (CAT_ModList(ima(self, j), ' + _FX + '[j]) if imh(self, j) else ' + _FX + '[j]))))'),
             ('other-positions-kept',
              'implies(mods is not None and self._internal_mods is not None, forall(lambda j: implies(not (j in ' + _FX + '), '
              'imh(self_final, j) == imh(self, j) and implies(imh(self, j), ima(self_final, j) == ima(self, j)))))'),
             ('nothing-else', _IOTH)],
    invariants={0: [('is-present', 'self._internal_mods is not None'),
                    ('seen-positions-done', 'forall(lambda j: implies(j in _seen0, imh(self, j) and ima(self, j) == '
                                            '(CAT_ModList(ima(old(self), j), mods[j]) if imh(old(self), j) else mods[j])))'),
                    ('unseen-positions-kept', 'forall(lambda j: implies(not (j in _seen0), imh(self, j) == imh(old(self), j) and '
                                              'implies(imh(old(self), j), ima(self, j) == ima(old(self), j))))'),
                    ('nothing-else', ' and '.join('same(self.%s, old(self).%s)' % (g, g) for g in _ALL if g != '_internal_mods'))]},
)
