"""Sidecar contract for chem_calc.estimate_comp without isotope labels (property C03: "when that residual is absorbed by averagine estimation
the estimated composition has the same monoisotopic mass"): the estimate has exactly the averagine elements, each with
ratio x mass / averagine mass.  That the averagine mass IS the monoisotopic mass of the ratios (so that the estimate of m weighs m) is a
ground obligation on the real tables (ground/c03_tables.py)."""
ALIASES = {'Comp': 'Dict[str,real]'}
OPAQUE_LISTS = ['ModList']
GLOBALS_FROM = {'peptacular.constants': ['AVERAGINE_RATIOS'], 'peptacular.chem.chem_constants': ['ISOTOPIC_AVERAGINE_MASS']}
C = {}
C['peptacular.chem.chem_calc:estimate_comp@plain'] = dict(
    params=dict(neutral_mass='real', isotopic_mods='None'), returns='Comp', pure=True, raises={},
    ensures=[('exactly-the-averagine-elements', 'forall(lambda a=str: (a in result) == (a in AVERAGINE_RATIOS))'),
             ('each-ratio-times-the-mass-over-the-averagine-mass',
              'forall(lambda a=str: implies(a in result, result[a] == AVERAGINE_RATIOS[a] * neutral_mass / ISOTOPIC_AVERAGINE_MASS))')])
