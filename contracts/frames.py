"""Frame clauses (property C08) for the functions that are NOT pure queries by the default rule of pyvc.frame, i.e. the
explicit in-place editors the statement names (add_*/pop_*/setters/inplace=True are recognised by name; the few others are
listed here), and the helpers whose result deliberately IS one of their arguments."""
from pyvc.frame import Clause

MODULES = ['peptacular.proforma.proforma_parser', 'peptacular.proforma.proforma_dataclasses', 'peptacular.proforma.input_convert',
           'peptacular.fragmentation', 'peptacular.mass_calc', 'peptacular.isotope', 'peptacular.sequence.sequence_funcs',
           'peptacular.sequence.combinatoric', 'peptacular.sequence.mod_builder', 'peptacular.score', 'peptacular.digestion',
           'peptacular.chem.chem_calc', 'peptacular.chem.chem_util', 'peptacular.glycan', 'peptacular.spans', 'peptacular.util']

PP = 'peptacular.proforma.proforma_parser:'
EXPLICIT = {
    # explicit editors not recognisable by their name
    PP + 'ProFormaAnnotation.add_mod_dict': Clause(modifies=['self'], editor=True),
    PP + 'ProFormaAnnotation.clear_empty_mods': Clause(modifies=['self'], editor=True),
    # helpers that return (one of) their arguments by design -- their callers are checked against this
    'peptacular.proforma.input_convert:convert_to_mod': Clause(aliases_result=['mod']),
    'peptacular.proforma.input_convert:fix_list_of_mods': Clause(aliases_result=['mods'], result='shallow'),
    'peptacular.proforma.input_convert:fix_list_of_list_of_mods': Clause(result='shallow'),
    'peptacular.proforma.input_convert:remove_empty_list_of_mods': Clause(aliases_result=['mods']),
    'peptacular.proforma.input_convert:remove_empty_list_of_list_of_mods': Clause(result='shallow'),
    'peptacular.proforma.input_convert:fix_dict_of_mods': Clause(result='shallow'),
    'peptacular.proforma.input_convert:fix_interval_input': Clause(aliases_result=['interval'], result='shallow'),
    'peptacular.proforma.input_convert:fix_intervals_input': Clause(aliases_result=['intervals'], result='shallow'),
    'peptacular.sequence.sequence_funcs:sequence_to_annotation': Clause(),
    # private helpers that edit what they are given; their CALLERS must hand them fresh objects (checked at every call site)
    'peptacular.mass_calc:_pop_delta_mass_mods': Clause(modifies=['annotation'], editor=True),
    'peptacular.sequence.sequence_funcs:_sort_mods': Clause(modifies=['mods'], editor=True),
    PP + 'ProFormaAnnotation.get_internal_mods_by_index': Clause(aliases_result=['self']),   # accessor (a view, like the properties)
    'peptacular.sequence.mod_builder:_apply_variable_mods_rec': Clause(aliases_result=['annotation']),
    'peptacular.sequence.mod_builder:_variable_mods_builder': Clause(aliases_result=['annotation']),
}
