"""Sidecar contract for peptacular.digestion.digest with return_type='span' (property C06, whole pipeline; used by C07): the spans
returned are EXACTLY the spans build_spans defines (contracts/spans.py, proved) for the cleavage sites of ALL the given rules
together -- plus the whole protein when the digestion is declared incomplete -- each once, sorted by (start, end, value).
The regular-expression site finder is a trusted callee (sites lie within 0..n); the union of the sites over the rules is the
set-valued fold SITES."""
from contracts._records import RECORDS, CLASSES, CTORS, PA, accessor_contracts
from contracts import spans as _sp
ALIASES = dict(_sp.ALIASES)
DG = 'peptacular.digestion:'
MACROS = dict(_sp.MACROS)
# SITES(a, R, k): the set of cleavage sites of the first k rules of R on annotation a
FUNCS = {'SITES': (['Annotation', 'List[str]', 'int'], 'Set[int]')}
AXIOMS = [
    ('SITES-0', 'forall(lambda a=Annotation, R=List[str], x=int: not (x in SITES(a, R, 0)))'),
    ('SITES-step', 'forall(lambda a=Annotation, R=List[str], k=int, x=int: implies(k >= 0, (x in SITES(a, R, k + 1)) == '
                   '((x in SITES(a, R, k)) or (x in set_of(get_cleavage_sites(a, R[k]))))))'),
]
C = accessor_contracts()
C[PA + '__len__'] = dict(params=dict(self='Annotation'), returns='int', pure=True, ensures=[('residues', 'result == len(self._sequence)')])
C[DG + 'get_cleavage_sites'] = dict(
    params=dict(sequence='Annotation', enzyme_regex='str'), returns='List[int]', pure=True, trusted=True,
    bounded_by='regular-expression site finder (named proteases and user patterns): bounded/C06.py (digest tier)',
    ensures=[('sites-inside-the-protein', 'forall(lambda k: implies(0 <= k and k < len(result), 0 <= result[k] and result[k] <= len(sequence._sequence)))')])
_BS = dict(_sp.C['peptacular.spans:build_spans'])
for _k in ('invariants', 'loop_heads', 'canary', 'exit_lemmas'):
    _BS.pop(_k, None)
C['peptacular.spans:build_spans'] = dict(_BS, trusted=True, bounded_by='proved against this same contract in contracts/spans.py (C06)')

# what build_spans defines, written for the site set of all rules: S = increasing enumeration of sites + {0, n}
_T = 'SITES(sequence, enzyme_regex, len(enzyme_regex))'
_GH = dict(n='len(sequence._sequence)',
           S='sorted_set(set_add(set_add(' + _T + ', 0), len(sequence._sequence)))',
           allsites='len(sorted_set(' + _T + ')) == len(sequence._sequence) + 1',
           mn='1 if min_len is None else some(min_len)',
           mx='len(sequence._sequence) if max_len is None else some(max_len)')
_SPEC = ('((not allsites and (' + _sp._E + ' or (semi and (' + _sp._L + ' or ' + _sp._R + '))) and ' + _sp._BOUNDS + ') or '
         '(allsites and t[2] == 0 and 0 <= t[0] and t[1] <= n and t[1]-t[0] <= n - 1 and ' + _sp._BOUNDS + ') or '
         '(not complete_digestion and t == (0, n, 0)))')
_PARAMS = dict(sequence='Annotation', enzyme_regex='List[str]', missed_cleavages='int', semi='bool', min_len='Optional[int]',
               max_len='Optional[int]', complete_digestion='bool', return_type='str', sort_output='bool')
C[DG + '_return_digested_sequences@span'] = dict(
    params=dict(annotation='Annotation', spans='List[Span]', return_type='str'), specialize=dict(return_type='span'), returns='List[Span]', pure=True, axioms=[],
    ensures=[('the-spans-themselves-in-order', 'same(result, spans)')], raises={})
C[DG + 'digest@span'] = dict(
    params=_PARAMS, specialize=dict(return_type='span', sort_output=True), returns='List[Span]', pure=True,
    locals=dict(all_spans='Set[Span]', cleavage_sites='List[int]'), ghost=_GH,
    requires=[('mc-nonneg', 'missed_cleavages >= 0'), ('min-len-positive', 'min_len is None or min_len >= 1')],
    raises={},
    ensures=[('exactly-the-spans-the-rules-define', 'forall(lambda t=Span: (t in set_of(result)) == ' + _SPEC + ')'),
             ('each-once-sorted-by-start-end-value',
              'forall(lambda j, k: implies(0 <= j and j < k and k < len(result), result[j][0] < result[k][0] or (result[j][0] == result[k][0] and '
              '(result[j][1] < result[k][1] or (result[j][1] == result[k][1] and result[j][2] < result[k][2])))))')],
    invariants={0: [('sites-of-the-rules-so-far', 'set_of(cleavage_sites) == SITES(sequence, enzyme_regex, _k0)'),
                    ('sites-inside', 'forall(lambda k: implies(0 <= k and k < len(cleavage_sites), 0 <= cleavage_sites[k] and cleavage_sites[k] <= len(sequence._sequence)))'),
                    ('whole-protein-only-if-incomplete', 'forall(lambda t=Span: (t in all_spans) == (not complete_digestion and t == (0, len(sequence._sequence), 0)))')]},
)

# ---------------------------------------------------------------- the peptide of a span (C07: "every peptide returned for span (s,e) ...")
C[PA + 'slice'] = dict(
    params=dict(self='Annotation', start='int', stop='int', inplace='bool'), returns='Annotation', pure=True, trusted=True,
    bounded_by='proved against its own contract in contracts/annot.py (C11): residues, residue / terminal modifications, intervals of the range', ensures=[])
C[PA + 'serialize'] = dict(params=dict(self='Annotation', include_plus='bool'), returns='str', pure=True, trusted=True,
                           bounded_by='single-chain serializer: layout proved in contracts/serial.py (C01); parser-inverts-writer round trip bounded/C01.py', ensures=[])
C['peptacular.proforma.proforma_parser:create_annotation'] = dict(
    params=dict(sequence='str'), returns='Annotation', pure=True, trusted=True, bounded_by='annotation of an unmodified residue string: bounded/C20.py',
    ensures=[])
_RP = dict(annotation='Annotation', spans='List[Span]', return_type='str')
_PEP = '(annotation.slice(spans[k][0], spans[k][1]) if annotation.has_mods() else create_annotation(annotation._sequence[spans[k][0]:spans[k][1]]))'
_TXT = '(annotation.slice(spans[k][0], spans[k][1]).serialize() if annotation.has_mods() else annotation._sequence[spans[k][0]:spans[k][1]])'
for _rt, _ty, _elt in (('annotation', 'List[Annotation]', _PEP), ('str', 'List[str]', _TXT),
                       ('annotation-span', 'List[Tuple[Annotation,Span]]', '(' + _PEP + ', spans[k])'),
                       ('str-span', 'List[Tuple[str,Span]]', '(' + _TXT + ', spans[k])')):
    C[DG + '_return_digested_sequences@' + _rt] = dict(
        params=_RP, specialize=dict(return_type=_rt), returns=_ty, pure=True, raises={}, axioms=[],
        ensures=[('one-peptide-per-span-in-order', 'len(result) == len(spans)'),
                 ('the-slice-of-the-protein-at-that-span', 'forall(lambda k: implies(0 <= k and k < len(spans), same(result[k], ' + _elt + ')))')])
C[DG + '_return_digested_sequences@unknown'] = dict(
    params=_RP, returns='List[Span]', pure=True, axioms=[],
    requires=[('not-a-return-type', "return_type != 'span' and return_type != 'annotation' and return_type != 'str' and return_type != 'str-span' and return_type != 'annotation-span'")],
    raises={'ValueError': 'True'}, ensures=[('never-returns', 'False')])

# ---------------------------------------------------------------- the sequence generators (C07: "the four sequence generators"), span return type:
# each returns EXACTLY the spans its builder defines for the whole sequence (builders: proved in contracts/spans.py, each span once)
for _b in ('build_left_semi_spans', 'build_right_semi_spans', 'build_non_enzymatic_spans'):
    _bc = dict(_sp.C['peptacular.spans:' + _b])
    for _k in ('invariants', 'loop_heads', 'canary', 'exit_lemmas', 'ghost'):
        _bc.pop(_k, None)
    C['peptacular.spans:' + _b] = dict(_bc, trusted=True, pure=True, ensures=[], bounded_by='proved against its own contract in contracts/spans.py (C06)')
C[DG + '_return_digested_sequences@spanbag'] = dict(
    params=dict(annotation='Annotation', spans='Bag[Span]', return_type='str'), specialize=dict(return_type='span'), returns='Bag[Span]', pure=True,
    axioms=[], ensures=[('the-spans-themselves', 'forall(lambda t=Span: count(result, t) == count(spans, t))')], raises={})
_GEN = dict(sequence='Annotation', min_len='Optional[int]', max_len='Optional[int]', return_type='str')
for _g, _b in (('get_left_semi_enzymatic_sequences', 'build_left_semi_spans'), ('get_right_semi_enzymatic_sequences', 'build_right_semi_spans'),
               ('get_non_enzymatic_sequences', 'build_non_enzymatic_spans')):
    C[DG + _g + '@spanbag'] = dict(
        params=_GEN, specialize=dict(return_type='span'), returns='Bag[Span]', pure=True, axioms=[],
        requires=[('min-len-positive', 'min_len is None or min_len >= 1')], raises={},
        ensures=[('exactly-the-builder-spans-of-the-whole-sequence',
                  'forall(lambda t=Span: count(result, t) == count(%s((0, len(sequence._sequence), 0), min_len, max_len), t))' % _b)])
C[DG + 'get_semi_enzymatic_sequences@spanbag'] = dict(
    params=_GEN, specialize=dict(return_type='span'), returns='Bag[Span]', pure=True, axioms=[],
    requires=[('min-len-positive', 'min_len is None or min_len >= 1')], raises={},
    ensures=[('left-then-right-semi-spans',
              'forall(lambda t=Span: count(yields, t) == count(build_left_semi_spans((0, len(sequence._sequence), 0), min_len, max_len), t) + '
              'count(build_right_semi_spans((0, len(sequence._sequence), 0), min_len, max_len), t))')])
