"""Sidecar contracts for the vocabulary look-up of peptacular.mods.mod_db (property C10, first sentence): "every entry resolves to the same
mass and the same composition, or to the same error, through all of its documented spellings".

_get_mass / _get_comp (the two helpers every vocabulary goes through) are specified as FUNCTIONS OF THE STRIPPED TEXT: what they return and
when they raise depends on the database and on the text after the prefix has been removed -- never on the original spelling (which only
travels into the error message).  parse_<vocabulary>_mass / _comp are that helper applied to the stripped text (strip rules: proved in
contracts/moddb.py for every prefix in any letter case and every body).  The lemmas at the end put the two together: two documented
spellings of one body give the same mass / composition.

The database is a record of its two look-up tables (id -> entry, name -> entry); its four accessor methods are verified against their
real one-line bodies.  An entry's calc_mono_mass / calc_avg_mass (cached properties computed from the composition) enter as fields."""
from contracts import moddb as _m
ALIASES = {}
RECORDS = {
    'Entry': dict(mono_mass='Optional[real]', calc_mono_mass='Optional[real]', avg_mass='Optional[real]', calc_avg_mass='Optional[real]',
                  composition='Optional[str]'),
    'EntryDb': dict(id_map='Dict[str,Entry]', name_map='Dict[str,Entry]'),
}
M = 'peptacular.mods.mod_db:'
DBQ = 'peptacular.mods.mod_db_setup:EntryDb.'
CLASSES = {'EntryDb': 'peptacular.mods.mod_db_setup:EntryDb'}
GLOBALS_ABSTRACT = {'UNIMOD_DB': 'EntryDb', 'PSI_MOD_DB': 'EntryDb', 'XLMOD_DB': 'EntryDb', 'RESID_DB': 'EntryDb', 'GNO_DB': 'EntryDb'}
EXC_PARENTS = {'InvalidDeltaMassError': 'ValueError', 'UnknownModificationError': 'ValueError', 'UnknownModificationMassError': 'ValueError',
               'DeltaMassCompositionError': 'ValueError', 'InvalidCompositionError': 'ValueError'}
C = {}
for _q, _d in _m.C.items():
    if '_strip_' in _q:
        C[_q] = dict(_d, pure=True, trusted=True, bounded_by='proved against this same contract in contracts/moddb.py (C10)')

C[DBQ + 'contains_id'] = dict(params=dict(self='EntryDb', id='str'), returns='bool', pure=True, ensures=[('def', 'result == (id in self.id_map)')])
C[DBQ + 'contains_name'] = dict(params=dict(self='EntryDb', name='str'), returns='bool', pure=True, ensures=[('def', 'result == (name in self.name_map)')])
C[DBQ + 'get_entry_by_id'] = dict(params=dict(self='EntryDb', id='str'), returns='Optional[Entry]', pure=True,
                                  ensures=[('def', 'result == self.id_map.get(id)')])
C[DBQ + 'get_entry_by_name'] = dict(params=dict(self='EntryDb', name='str'), returns='Optional[Entry]', pure=True,
                                    ensures=[('def', 'result == self.name_map.get(name)')])

MACROS = {
    'signed': (['s'], "(s.startswith('+') or s.startswith('-'))"),
    # the entry a stripped text denotes: by accession first, then by name
    'found': (['db', 's'], '((s in db.id_map) or (s in db.name_map))'),
    'entry': (['db', 's'], '(db.id_map[s] if (s in db.id_map) else db.name_map[s])'),
    'the_mass': (['e', 'mono'], '((e.mono_mass if e.mono_mass is not None else e.calc_mono_mass) if mono else '
                                '(e.avg_mass if e.avg_mass is not None else e.calc_avg_mass))'),
    'rnd': (['x', 'p'], '(round(x, some(p)) if p is not None else x)'),
}
_GM_RAISES = {
    'InvalidDeltaMassError': 'signed(mod_str) and not float_parses(mod_str)',
    'UnknownModificationError': 'not signed(mod_str) and not found(db, mod_str)',
}
C[M + '_get_mass'] = dict(
    params=dict(db='EntryDb', mod_str='str', orig_str='str', monoisotopic='bool', precision='Optional[int]'), returns='real', pure=True,
    raises=dict(_GM_RAISES, UnknownModificationMassError='not signed(mod_str) and found(db, mod_str) and the_mass(entry(db, mod_str), monoisotopic) is None'),
    ensures=[('a-signed-number-is-a-mass-shift', 'implies(signed(mod_str), result == rnd(float_of(mod_str), precision))'),
             ('the-tabulated-else-the-computed-mass-of-the-entry',
              'implies(not signed(mod_str), result == rnd(some(the_mass(entry(db, mod_str), monoisotopic)), precision))')])
C[M + '_get_comp'] = dict(
    params=dict(db='EntryDb', mod_str='str', orig_str='str'), returns='str', pure=True,
    raises=dict(_GM_RAISES, DeltaMassCompositionError='signed(mod_str) and float_parses(mod_str)',
                InvalidCompositionError='not signed(mod_str) and found(db, mod_str) and entry(db, mod_str).composition is None'),
    ensures=[('the-composition-of-the-entry', 'result == some(entry(db, mod_str).composition)')])

_VOC = [('unimod', 'UNIMOD_DB', '_strip_unimod_str'), ('psi', 'PSI_MOD_DB', '_strip_psi_str'), ('xlmod', 'XLMOD_DB', '_strip_xlmod_str'),
        ('resid', 'RESID_DB', '_strip_resid_str'), ('gno', 'GNO_DB', '_strip_gno_str')]
for _v, _db, _st in _VOC:
    C[M + 'parse_%s_mass' % _v] = dict(
        params=dict(mod_str='str', monoisotopic='bool', precision='Optional[int]'), returns='real', pure=True, raises={'ValueError': None},
        ensures=[('the-helper-on-the-stripped-text', 'result == _get_mass(%s, %s(mod_str), mod_str, monoisotopic, precision)' % (_db, _st))])
    C[M + 'parse_%s_comp' % _v] = dict(
        params=dict(mod_str='str'), returns='str', pure=True, raises={'ValueError': None},
        ensures=[('the-helper-on-the-stripped-text', 'result == _get_comp(%s, %s(mod_str), mod_str)' % (_db, _st))])

# ---------------------------------------------------------------- consequences: spellings of one body resolve alike
_PFX = dict(unimod=['UNIMOD:', 'unimod:', 'U:', 'u:', 'UniMod:'], psi=['MOD:', 'mod:', 'M:', 'm:', 'PSI-MOD:'], xlmod=['XLMOD:', 'xlmod:', 'X:', 'x:'],
            resid=['RESID:', 'resid:', 'R:', 'r:'], gno=['GNO:', 'gno:', 'G:', 'g:'])
LEMMAS = []
for _v, _db, _st in _VOC:
    LEMMAS.append(('same-stripped-text-same-mass/' + _v,
                   'forall(lambda a=str, b=str, mono=bool, p=Optional[int]: implies(%s(a) == %s(b), '
                   'parse_%s_mass(a, mono, p) == parse_%s_mass(b, mono, p)))' % (_st, _st, _v, _v)))
    LEMMAS.append(('same-stripped-text-same-composition/' + _v,
                   'forall(lambda a=str, b=str: implies(%s(a) == %s(b), parse_%s_comp(a) == parse_%s_comp(b)))' % (_st, _st, _v, _v)))
    _first = _PFX[_v][0]
    for _p in _PFX[_v][1:]:
        LEMMAS.append(("spelling-%s-resolves-like-%s/%s" % (_p[:-1], _first[:-1], _v),
                       "forall(lambda x=str, mono=bool, p=Optional[int]: parse_%s_mass('%s' + x, mono, p) == parse_%s_mass('%s' + x, mono, p) and "
                       "parse_%s_comp('%s' + x) == parse_%s_comp('%s' + x))" % (_v, _p, _v, _first, _v, _p, _v, _first)))

# the two vocabulary tests that also consult the tables: a documented prefix (any case), or an accession / a name of the vocabulary
C[M + 'is_unimod_str'] = dict(
    params=dict(unimod_str='str'), returns='bool', pure=True, raises={},
    ensures=[('prefix-or-known-accession-or-name', "result == (iprefix(unimod_str, 'unimod:') or iprefix(unimod_str, 'u:') or "
                                                   '(unimod_str in UNIMOD_DB.id_map) or (unimod_str in UNIMOD_DB.name_map))')])
C[M + 'is_psi_mod_str'] = dict(
    params=dict(psi_str='str'), returns='bool', pure=True, raises={},
    ensures=[('prefix-or-known-accession-or-name', "result == (iprefix(psi_str, 'mod:') or iprefix(psi_str, 'm:') or iprefix(psi_str, 'psi-mod:') or "
                                                   '(psi_str in PSI_MOD_DB.id_map) or (psi_str in PSI_MOD_DB.name_map))')])
