"""A consequence of two proved contracts, used as an assumption by contracts/search.py (A-WHOLE-SLICE): cutting out the WHOLE peptide
gives an equal peptide.  Here the slice contract of contracts/annot.py (C11) and the == contract of contracts/equality.py (C20) are the
hypotheses (both are proved against the real code in their own modules); the peptide must be well formed (intervals inside the
sequence) and must not carry an EMPTY interval list (slice() turns that into "no intervals", which == tells apart); the lemma is proved from them, with the counting fold CNT
handled by an induction carried out inside the run ("if every one of the first k intervals lies inside [a, b), CNT == k")."""
from contracts import annot as _an, equality as _eq
from contracts._records import RECORDS, CLASSES, CTORS, PA
ALIASES = {}
FUNCS = dict(_an.FUNCS)
AXIOMS = list(_an.AXIOMS)
MACROS = dict(_an.MACROS)
MACROS.update({k: v for k, v in _eq.MACROS.items() if k in ('meq', 'ieq')})
C = {}
_FIELDS = _eq._FIELDS
# slice as a function (not in place): the postconditions proved in contracts/annot.py, with R := result, [a, b) := [start, stop)
_post = [(_l, _t.replace('R', 'result')) for _l, _t in _an._SLICE_POST]
C[PA + 'slice'] = dict(
    params=dict(self='Annotation', start='int', stop='int', inplace='bool'), returns='Annotation', pure=True, trusted=True,
    ghost=dict(a='start', b='stop', n='len(self._sequence)'),
    requires=[('range', '0 <= start and start <= stop and stop <= len(self._sequence)'), ('wf', 'wf(self)')],
    bounded_by='proved against this contract in contracts/annot.py (C11), not-in-place case', ensures=_post)
C[PA + 'get_internal_mods_by_index'] = dict(_eq.C[PA + 'get_internal_mods_by_index'], trusted=True, bounded_by='proved in contracts/equality.py (C20)')
C[PA + '__eq__'] = dict(params=dict(self='Annotation', other='Annotation'), returns='bool', pure=True, trusted=True,
                        bounded_by='proved against this contract in contracts/equality.py (C20)',
                        ensures=[('equal-iff-every-field-equal', 'result == (' + _eq._EQ + ')')])
INDUCTIVE_LEMMAS = [
    ('all-contained-count', 'k', 'forall(lambda L=List[Interval], a=int, b=int: implies(forall(lambda j: implies(0 <= j and j < k, '
                                 'a <= L[j].start and some(L[j].end) <= b)), CNT(L, a, b, k) == k))'),
]
_R = 'x.slice(0, len(x._sequence), False)'
_U = dict(uses=[('all-contained-count', None)])
LEMMAS = [
    ('whole-slice-residues', 'forall(lambda x=Annotation: implies(wf(x) and (x._intervals is None or len(ivs(x)) > 0), ' + _R + '._sequence == x._sequence))'),
    ('whole-slice-list-fields', 'forall(lambda x=Annotation: implies(wf(x) and (x._intervals is None or len(ivs(x)) > 0), ' + ' and '.join('meq(%s._%s, x._%s)' % (_R, f, f) for f in _FIELDS) +
                                ' and ' + _R + '._charge == x._charge))'),
    ('whole-slice-residue-mods', 'forall(lambda x=Annotation: implies(wf(x) and (x._intervals is None or len(ivs(x)) > 0), forall(lambda j: meq(' + _R + '.get_internal_mods_by_index(j), x.get_internal_mods_by_index(j)))))'),
    ('whole-slice-interval-count', 'forall(lambda x=Annotation: implies(wf(x) and x._intervals is not None, CNT(ivs(x), 0, len(x._sequence), len(ivs(x))) == len(ivs(x))))', _U),
    ('whole-slice-prefix-counts', 'forall(lambda x=Annotation, k=int: implies(wf(x) and x._intervals is not None and 0 <= k and k <= len(ivs(x)), '
                                  'CNT(ivs(x), 0, len(x._sequence), k) == k))', dict(uses=[('all-contained-count', 'k')])),
    ('whole-slice-intervals-same-list', 'forall(lambda x=Annotation: implies(wf(x) and (x._intervals is None or len(ivs(x)) > 0), (' + _R + '._intervals is None) == (x._intervals is None) and implies(x._intervals is not None, '
                                        'len(some(' + _R + '._intervals)) == len(ivs(x)) and forall(lambda k: implies(0 <= k and k < len(ivs(x)), some(' + _R + '._intervals)[k] == ivs(x)[k])))))',
     dict(also=['whole-slice-interval-count', 'whole-slice-prefix-counts'])),
    ('whole-slice-intervals', 'forall(lambda x=Annotation: implies(wf(x) and (x._intervals is None or len(ivs(x)) > 0), ieq(' + _R + '._intervals, x._intervals)))', dict(also=['whole-slice-intervals-same-list'])),
    ('whole-range-slice-equals-the-peptide',
     'forall(lambda x=Annotation: implies(wf(x) and (x._intervals is None or len(ivs(x)) > 0), ' + _R + '.__eq__(x)))',
     dict(also=['whole-slice-residues', 'whole-slice-list-fields', 'whole-slice-residue-mods', 'whole-slice-intervals'])),
]
