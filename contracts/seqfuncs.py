"""Sidecar contracts for peptacular.sequence.sequence_funcs (property C16: coverage / percent coverage).
Annotation objects are opaque here (type Annot): only the contracts of the functions taking them say anything."""
ALIASES = {}
# spec functions (uninterpreted; OCC is the statement's notion of occurrence, INNER/OUTER are recursive counting folds)
FUNCS = {
    # OCC(target, query, ignore_mods, p): "the query's residues occur in the target at offset p and (unless ignored) the
    # query's modifications equal those of the target on that stretch"
    'OCC': (['Annot', 'Annot', 'bool', 'int'], 'bool'),
    # INNER(target, query, ign, q, x): number of the first q reported offsets r[k] of the query with r[k] <= x < r[k]+len(query)
    'INNER': (['Annot', 'Annot', 'bool', 'int', 'int'], 'int'),
    # OUTER(target, queries, ign, s, x): the same, summed over the first s listed queries (all their offsets)
    'OUTER': (['Annot', 'List[Annot]', 'bool', 'int', 'int'], 'int'),
    # IDXOF: Skolem witness for "offset p is reported": position of p in the reported list
    'IDXOF': (['Annot', 'Annot', 'bool', 'int'], 'int'),
}
_FSI = 'find_subsequence_indices(t, q, g)'
AXIOMS = [
    ('INNER-0', 'forall(lambda t=Annot, q=Annot, g=bool, x=int: INNER(t, q, g, 0, x) == 0)'),
    ('INNER-step', 'forall(lambda t=Annot, q=Annot, g=bool, k=int, x=int: implies(k >= 0, INNER(t, q, g, k + 1, x) == INNER(t, q, g, k, x)'
                   ' + ite(' + _FSI + '[k] <= x and x < ' + _FSI + '[k] + sequence_length(q), 1, 0)))'),
    ('OUTER-0', 'forall(lambda t=Annot, qs=List[Annot], g=bool, x=int: OUTER(t, qs, g, 0, x) == 0)'),
    ('OUTER-step', 'forall(lambda t=Annot, qs=List[Annot], g=bool, s=int, x=int: implies(s >= 0, OUTER(t, qs, g, s + 1, x) == '
                   'OUTER(t, qs, g, s, x) + INNER(t, qs[s], g, len(find_subsequence_indices(t, qs[s], g)), x)))'),
]
MACROS = {
    'covered': (['s_hi', 'x'], 'exists(lambda s, p: 0 <= s and s < s_hi and OCC(sequence, subsequences[s], ignore_mods, p)'
                               ' and p <= x and x < p + sequence_length(subsequences[s]))'),
}
C = {}

C['peptacular.sequence.sequence_funcs:sequence_length'] = dict(
    params=dict(sequence='Annot'), returns='int', pure=True, trusted=True,
    bounded_by='trivial wrapper (len(annotation)); exercised by every bounded C16 case',
    ensures=[('nonneg', 'result >= 0')],
)

C['peptacular.sequence.sequence_funcs:find_subsequence_indices'] = dict(
    params=dict(sequence='Annot', subsequence='Annot', ignore_mods='bool'), returns='List[int]', pure=True, trusted=True,
    bounded_by='proved with OCC written out in contracts/search.py (modulo LC-REGEX-LITERAL); checked exhaustively against the brute-force occurrence oracle in bounded/C16.py (two-letter alphabet, overlaps)',
    ensures=[
        # C16 first sentence: exactly the offsets of the occurrences (OCC), each once, ascending, inside the target
        ('in-range', 'forall(lambda k: implies(0 <= k and k < len(result), 0 <= result[k] and result[k] + sequence_length(subsequence)'
                     ' <= sequence_length(sequence)))'),
        ('ascending', 'forall(lambda j, k: implies(0 <= j and j < k and k < len(result), result[j] < result[k]))'),
        # exactly the occurrences: (a) every reported offset is an occurrence, (b) every occurrence is reported
        # ((b) is `exists k: result[k] == p` with the witness k named IDXOF(...))
        ('reported-are-occurrences', 'forall(lambda k: implies(0 <= k and k < len(result), OCC(sequence, subsequence, ignore_mods, result[k])))'),
        ('occurrences-are-reported', 'forall(lambda p: implies(OCC(sequence, subsequence, ignore_mods, p),'
                                     ' 0 <= IDXOF(sequence, subsequence, ignore_mods, p) and IDXOF(sequence, subsequence, ignore_mods, p) < len(result)'
                                     ' and result[IDXOF(sequence, subsequence, ignore_mods, p)] == p))'),
        ('nonempty-query', 'len(result) == 0 or sequence_length(subsequence) >= 1'),
    ],
)

_N = 'sequence_length(sequence)'
C['peptacular.sequence.sequence_funcs:coverage'] = dict(
    params=dict(sequence='Annot', subsequences='List[Annot]', accumulate='bool', ignore_mods='bool'),
    returns='List[int]',
    ensures=[
        ('one-entry-per-residue', 'len(result) == ' + _N),
        # C16: "Coverage marks (or counts) a position if and only if some listed subsequence occurrence contains it"
        ('marks-iff-covered', 'implies(not accumulate, forall(lambda x: implies(0 <= x and x < ' + _N + ','
                              ' result[x] == ite(covered(len(subsequences), x), 1, 0))))'),
        ('counts-occurrences', 'implies(accumulate, forall(lambda x: implies(0 <= x and x < ' + _N + ','
                               ' result[x] == OUTER(sequence, subsequences, ignore_mods, len(subsequences), x))))'),
    ],
    invariants={
        0: [('len', 'len(cov_arr) == ' + _N),
            ('marks', 'implies(not accumulate, forall(lambda x: implies(0 <= x and x < ' + _N + ', cov_arr[x] == ite(covered(_k0, x), 1, 0))))'),
            ('counts', 'implies(accumulate, forall(lambda x: implies(0 <= x and x < ' + _N + ','
                       ' cov_arr[x] == OUTER(sequence, subsequences, ignore_mods, _k0, x))))')],
        1: [('len', 'len(cov_arr) == ' + _N),
            ('marks', 'implies(not accumulate, forall(lambda x: implies(0 <= x and x < ' + _N + ', cov_arr[x] == ite(covered(_k0, x) or '
                      'exists(lambda k: 0 <= k and k < _k1 and peptide_indexes[k] <= x and x < peptide_indexes[k] + sequence_length(subsequence)), 1, 0))))'),
            ('counts', 'implies(accumulate, forall(lambda x: implies(0 <= x and x < ' + _N + ','
                       ' cov_arr[x] == OUTER(sequence, subsequences, ignore_mods, _k0, x) + INNER(sequence, subsequence, ignore_mods, _k1, x))))')],
    },
    canary=[('marks-only-first-residue', 'implies(not accumulate, forall(lambda x: implies(0 <= x and x < ' + _N + ','
             ' result[x] == ite(exists(lambda s, p: 0 <= s and s < len(subsequences) and OCC(sequence, subsequences[s], ignore_mods, p) and p == x), 1, 0))))')],
)

C['peptacular.sequence.sequence_funcs:percent_coverage'] = dict(
    params=dict(sequence='Annot', subsequences='List[Annot]', ignore_mods='bool'),
    returns='real',
    ensures=[
        # C16: "percent coverage is the marked fraction in [0,1]" (0 for the empty sequence)
        ('marked-fraction', 'implies(' + _N + ' > 0, result == real(sumto(coverage(sequence, subsequences, False, ignore_mods), ' + _N + ')) / real(' + _N + '))'),
        ('empty-is-zero', 'implies(' + _N + ' == 0, result == 0)'),
    ],
)
C['peptacular.sequence.sequence_funcs:coverage']['pure'] = True
