"""Sidecar contracts for the parser side of C09 (exception safety of the format-error object; cursor helpers later)."""
ALIASES = {}
RECORDS = {'FormatError': dict(msg='Optional[str]')}
CLASSES = {'FormatError': 'peptacular.errors:ProFormaFormatError'}
C = {}
C['peptacular.errors:ProFormaFormatError.__init__'] = dict(
    params=dict(self='FormatError', msg='str', index='int', sequence='str'),
    returns='None',
    # C09: building the error must itself never fail, for ANY index the parser reports (in particular index == len(sequence),
    # an unclosed bracket at the end of the text) -- otherwise parse() leaks an IndexError instead of the format error
    requires=[],
    raises={},
    ensures=[('constructed', 'True')],
)
