"""Sidecar contracts for the parser side of C09: exception safety (only ValueError-family errors) and termination of the
recursive-descent parser's cursor methods and three phases, for EVERY input string.
Parser state: the text, the cursor and the residues read so far; the modification accumulators are one opaque field (the _add_*
methods that fill them are assumed not to touch the cursor -- listed as trusted)."""
ALIASES = {}
RECORDS = {
    'FormatError': dict(msg='Optional[str]'),
    'ModVal': dict(kind='int', s='str'),          # Mod.val after convert_type: kind 0 = str, 1 = int, 2 = float
    'Mod': dict(val='ModVal', mult='int'),
    'Interval': dict(start='int', end='Optional[int]', ambiguous='bool', mods='Optional[List[Mod]]'),
    'Parser': dict(sequence='str', position='int', length='int', _amino_acids='List[str]', _charge='Optional[int]',
                   _current_connection='Optional[bool]', _acc='Acc'),
}
UNIONS = {'ModVal': {'str': 0, 'int': 1, 'float': 2}}
PP = 'peptacular.proforma.proforma_parser:_ProFormaParser.'
CLASSES = {'FormatError': 'peptacular.errors:ProFormaFormatError', 'Parser': 'peptacular.proforma.proforma_parser:_ProFormaParser'}
CTORS = {'Interval': 'Interval', 'Mod': 'contract:peptacular.proforma.proforma_dataclasses:Mod'}
GLOBALS_FROM = {'peptacular.constants': ['AMINO_ACIDS']}
EXC_PARENTS = {'ProFormaFormatError': 'ValueError'}
MACROS = {
    # representation invariant of the cursor
    'inv': (['p'], '0 <= p.position and p.position <= p.length and p.length == len(p.sequence)'),
    # the callee may move the cursor forward only; the text and the residues read so far are untouched
    'text_kept': (['p', 'q'], 'q.sequence == p.sequence and q.length == p.length'),
    'only_cursor': (['p', 'q'], 'q.sequence == p.sequence and q.length == p.length and q._amino_acids == p._amino_acids and q._charge == p._charge'
                                ' and q._current_connection == p._current_connection and q._acc == p._acc'),
}
C = {}
C['peptacular.errors:ProFormaFormatError.__init__'] = dict(
    params=dict(self='FormatError', msg='str', index='int', sequence='str'), returns='None',
    # C09: building the error must itself never fail, for ANY index the parser reports (in particular index == len(sequence))
    requires=[], raises={}, ensures=[('constructed', 'True')],
)
C['peptacular.proforma.proforma_dataclasses:Mod'] = dict(
    params=dict(val='str', mult='int'), returns='Mod', external=True, trusted=True,
    bounded_by='dataclass constructor + __post_init__ (convert_type: int()/float() of the text); exercised by bounded/C01.py and C09.py',
    ensures=[('mult', 'result.mult == mult'), ('text-kept-when-str', 'implies(result.val.kind == 0, result.val.s == val)'),
             ('kind', '0 <= result.val.kind and result.val.kind <= 2')],
)
C[PP + '_end_of_sequence'] = dict(params=dict(self='Parser'), returns='bool', pure=True,
                                  ensures=[('def', 'result == (self.position >= self.length)')])
C[PP + '_current'] = dict(params=dict(self='Parser'), returns='str', pure=True, requires=[('inv', 'inv(self)')],
                          raises={'IndexError': 'self.position >= self.length'},
                          ensures=[('def', 'result == self.sequence[self.position]')])
C[PP + '_peek'] = dict(params=dict(self='Parser'), returns='Optional[str]', pure=True, requires=[('inv', 'inv(self)')],
                       ensures=[('none-at-end', '(result is None) == (self.position >= self.length)'),
                                ('char', 'implies(result is not None, some(result) == self.sequence[self.position])')])
C[PP + '_skip'] = dict(params=dict(self='Parser', n='int'), returns='None', mutates=['self'],
                       ensures=[('moved', 'self_final.position == self.position + n'), ('frame', 'only_cursor(self, self_final)')])
C[PP + '_parse_char'] = dict(params=dict(self='Parser'), returns='str', mutates=['self'], requires=[('inv', 'inv(self)')],
                             raises={'IndexError': 'self.position >= self.length'},
                             ensures=[('char', 'result == self.sequence[self.position]'), ('moved', 'self_final.position == self.position + 1'),
                                      ('frame', 'only_cursor(self, self_final)')])
_PROGRESS = [('inv-kept', 'inv(self_final)'), ('text-kept', 'text_kept(self, self_final)'), ('forward', 'self_final.position >= self.position')]
C[PP + '_parse_integer'] = dict(
    params=dict(self='Parser'), returns='int', mutates=['self'], requires=[('inv', 'inv(self)')],
    raises={'ValueError': None}, ensures=_PROGRESS + [('frame', 'only_cursor(self, self_final)')],
    invariants={0: [('inv', 'inv(self)'), ('frame', 'only_cursor(old(self), self)'), ('forward', 'self.position >= old(self).position')]},
    decreases={0: 'self.length - self.position'},
)
C[PP + '_parse_modification'] = dict(
    params=dict(self='Parser', opening_bracket='str', closing_bracket='str'), returns='Mod', mutates=['self'],
    requires=[('inv', 'inv(self)'), ('at-a-bracket', 'self.position < self.length')],
    raises={'ValueError': None},
    ensures=_PROGRESS + [('progress', 'self_final.position > self.position'), ('frame', 'only_cursor(self, self_final)')],
    invariants={0: [('inv', 'inv(self)'), ('frame', 'only_cursor(old(self), self)'), ('forward', 'self.position > old(self).position')],
                1: [('inv', 'inv(self)'), ('frame', 'only_cursor(old(self), self)'), ('forward', 'self.position > old(self).position')]},
    decreases={0: 'self.length - self.position', 1: 'self.length - self.position'},
)
C[PP + '_parse_modifications'] = dict(
    params=dict(self='Parser', opening_bracket='str', closing_bracket='str'), returns='List[Mod]', mutates=['self'],
    locals=dict(mods='List[Mod]'),
    requires=[('inv', 'inv(self)')], raises={'ValueError': None},
    ensures=_PROGRESS + [('frame', 'only_cursor(self, self_final)'),
                         ('progress-at-bracket', 'implies(self.position < self.length and self.sequence[self.position] == opening_bracket,'
                                                 ' self_final.position > self.position)')],
    invariants={0: [('inv', 'inv(self)'), ('frame', 'only_cursor(old(self), self)'), ('forward', 'self.position >= old(self).position'),
                    ('progress', 'implies(_k0 > 0, self.position > old(self).position)')]},
    decreases={0: 'self.length - self.position'},
)
# accumulator methods: assumed not to touch the cursor (bodies only append to / create the accumulator lists); the three decorated
# with _validate_single_mod_multiplier may raise ValueError
for _name, _pty, _raises in (('_add_static_mod', 'Mod', True), ('_add_isotope_mod', 'Mod', True), ('_add_labile_mod', 'Mod', False),
                             ('_add_unknown_mod', 'List[Mod]', False), ('_add_nterm_mod', 'List[Mod]', False),
                             ('_add_cterm_mod', 'List[Mod]', False), ('_add_internal_mod', 'List[Mod]', False),
                             ('_add_interval', 'Interval', False), ('_add_charge_adducts', 'List[Mod]', True)):
    C[PP + _name] = dict(params=dict(self='Parser', **{('interval' if _name == '_add_interval' else 'mod'): _pty}), returns='None', mutates=['self'],
                         trusted=True, bounded_by='three-line accumulator appenders; exercised by every bounded C01/C09 case',
                         raises=({'ValueError': None} if _raises else {}),
                         ensures=[('cursor-untouched', 'self_final.sequence == self.sequence and self_final.position == self.position and '
                                   'self_final.length == self.length and self_final._amino_acids == self.._amino_acids'.replace('..', '.'))])
_PHASE = dict(
    params=dict(self='Parser'), returns='None', mutates=['self'], requires=[('inv', 'inv(self)')], raises={'ValueError': None},
    ensures=_PROGRESS,
)
_PH_INV = [('inv', 'inv(self)'), ('text', 'text_kept(old(self), self)'), ('forward', 'self.position >= old(self).position')]
_READY = "(p.position >= p.length or (p.sequence[p.position] in AMINO_ACIDS) or p.sequence[p.position] == '(')"
MACROS['ready'] = (['p'], _READY)
# start phase: stops at the end of the text or in front of a residue / an opening parenthesis (what the middle phase consumes)
C[PP + '_parse_sequence_start'] = dict(
    _PHASE, ensures=_PROGRESS + [('stops-at-end-or-in-front-of-a-residue', 'ready(self_final)')],
    invariants={0: _PH_INV, 1: _PH_INV + [('cursor-fixed-while-storing', 'self.position == self_at1.position')]},
    decreases={0: 'self.length - self.position'})
# middle phase: a residue or an opening parenthesis under the cursor is consumed
C[PP + '_parse_sequence_middle'] = dict(
    _PHASE, ensures=_PROGRESS + [('consumes-the-residue-under-the-cursor',
                                  "implies(self.position < self.length and ((self.sequence[self.position] in AMINO_ACIDS) or self.sequence[self.position] == '('), "
                                  'self_final.position > self.position)')],
    invariants={0: _PH_INV + [('progress-after-the-first-step',
                               "implies(_k0 > 0 and old(self).position < old(self).length and ((old(self).sequence[old(self).position] in AMINO_ACIDS) or "
                               "old(self).sequence[old(self).position] == '('), self.position > old(self).position)")]},
    decreases={0: 'self.length - self.position'},
    locals=dict(dummy_interval='Optional[Tuple[int,Optional[int],bool,Optional[List[Mod]]]]'))
# end phase (C01, "chain links that the notation denotes"): when text remains after it, the link flag says which separator was just read
C[PP + '_parse_sequence_end'] = dict(
    _PHASE, ensures=_PROGRESS + [
        ('link-flag-says-which-separator-was-read',
         "implies(self_final.position < self_final.length, self_final.position >= 1 and self_final._current_connection is not None and "
         "((self_final.sequence[self_final.position - 1] == '+' and not some(self_final._current_connection)) or "
         "(self_final.sequence[self_final.position - 1] == '/' and self_final.position >= 2 and self_final.sequence[self_final.position - 2] == '/' "
         "and some(self_final._current_connection))))")],
    invariants={0: _PH_INV}, decreases={0: 'self.length - self.position'})

# ---------------------------------------------------------------- the driver: one chain per iteration, every iteration consumes text
C[PP + '_get_result'] = dict(params=dict(self='Parser'), returns='ParsedChain', pure=True, trusted=True,
                             bounded_by='builds the annotation object from the accumulators: bounded/C01.py (parse == description)', ensures=[])
C[PP + '_reset_sequence'] = dict(params=dict(self='Parser'), returns='None', mutates=['self'], trusted=True,
                                 bounded_by='clears the accumulators (twelve assignments); exercised by every multi-chain case of bounded/C01.py',
                                 ensures=[('cursor-and-text-untouched', 'self_final.sequence == self.sequence and self_final.position == self.position and '
                                           'self_final.length == self.length')])
C[PP + 'parse'] = dict(
    params=dict(self='Parser'), returns='List[Tuple[ParsedChain,Optional[bool]]]', mutates=['self'],
    requires=[('inv', 'inv(self)')], raises={'ValueError': None},
    ensures=[('whole-text-consumed', 'self_final.position >= self_final.length'), ('text-kept', 'text_kept(self, self_final)'),
             # C01 (chain links): every chain but the last is yielded with a link flag (a separator was read after it)
             ('every-chain-but-the-last-has-a-link', 'forall(lambda k: implies(0 <= k and k < len(result) - 1, result[k][1] is not None))')],
    invariants={0: [('inv', 'inv(self)'), ('text', 'text_kept(old(self), self)'),
                    ('chains-so-far-have-a-link-if-text-remains',
                     'forall(lambda k: implies(0 <= k and k < len(yields) - 1, yields[k][1] is not None)) and '
                     'implies(len(yields) > 0 and self.position < self.length, yields[len(yields) - 1][1] is not None)')]},
    decreases={0: 'self.length - self.position'},
)

# ---------------------------------------------------------------- the module-level parse(): exception safety of the whole entry point (C09)
PM = 'peptacular.proforma.proforma_parser:'
RECORDS['Multi'] = dict(annotations='List[ParsedChain]', connections='List[Optional[bool]]')
RECORDS['Plain'] = dict(_sequence='str')
CTORS['MultiProFormaAnnotation'] = 'Multi'
CTORS['ProFormaAnnotation'] = 'Plain'
CTORS['_ProFormaParser'] = 'contract:' + PP + '__init__'
C[PM + '_is_unmodified'] = dict(params=dict(proforma_sequence='str'), returns='bool', pure=True, trusted=True,
                                bounded_by='all(c in AMINO_ACIDS for c in text): a membership scan, cannot raise; bounded/C09.py', ensures=[])
C[PP + '__init__'] = dict(
    params=dict(proforma_sequence='str'), returns='Parser', external=True, trusted=True,
    bounded_by='constructor: stores the text, its length and position 0, empties the accumulators (14 assignments); every bounded C01 / C09 case',
    ensures=[('fresh-cursor', 'result.sequence == proforma_sequence and result.position == 0 and result.length == len(proforma_sequence)')])
C[PM + 'parse'] = dict(
    params=dict(sequence='str'), returns='Any', raises={'ValueError': None},
    # C09: "parsing either returns an annotation or raises a ValueError": every path of the entry point returns or raises a ValueError-family
    # error (implicit obligations: no IndexError from annotations[0] / [:-1], no TypeError, no other exception)
    ensures=[('returns', 'True')])
