"""Sidecar contracts for the combinatorial expansions (property C19): ProFormaAnnotation.permutations / product / combinations /
combinations_with_replacement and their module-level wrappers.  Each is the standard itertools enumeration (LC-ITERTOOLS: an
uninterpreted function of the list value and the size) over the serialized one-residue pieces of the peptide stripped of everything
but its residue modifications, each result being parse(start + joined pieces + end) with the peptide's own start and end text."""
from contracts._records import RECORDS, CLASSES, CTORS, PA, accessor_contracts
ALIASES = {}
C = {}
CM = 'peptacular.sequence.combinatoric:'
ABSTRACT_METHODS = {('PoppedMods', 'get'): (['str'], 'Optional[Dict[int,ModList]]')}
_FIELDS = ('isotope_mods', 'static_mods', 'labile_mods', 'unknown_mods', 'nterm_mods', 'cterm_mods', 'charge_adducts', 'internal_mods',
           'intervals', 'charge')
C[PA + '__len__'] = dict(params=dict(self='Annotation'), returns='int', pure=True, ensures=[('residues', 'result == len(self._sequence)')])
C.update({k: v for k, v in accessor_contracts().items() if k.endswith('.sequence')})
C[PA + 'serialize_start'] = dict(params=dict(self='Annotation', include_plus='bool'), returns='str', pure=True, trusted=True,
                                 bounded_by='serializer pieces: layout proved in contracts/serial.py (C01); round trip bounded/C01.py', ensures=[])
C[PA + 'serialize_end'] = dict(params=dict(self='Annotation', include_plus='bool'), returns='str', pure=True, trusted=True,
                               bounded_by='serializer pieces: layout proved in contracts/serial.py (C01); round trip bounded/C01.py', ensures=[])
C[PA + 'serialize'] = dict(params=dict(self='Annotation', include_plus='bool'), returns='str', pure=True, trusted=True,
                           bounded_by='single-chain serializer: layout proved in contracts/serial.py (C01); parser-inverts-writer round trip bounded/C01.py', ensures=[])
C[PA + 'split'] = dict(params=dict(self='Annotation'), returns='List[Annotation]', pure=True, trusted=True,
                       bounded_by='proved against its own contract in contracts/pieces.py (piece i is slice(i, i+1) of the peptide without labile modifications, which go to the first piece)', ensures=[])
C['peptacular.proforma.proforma_parser:parse'] = dict(params=dict(sequence='str'), returns='Annotation', pure=True, trusted=True,
                                                      bounded_by='the parser: bounded/C01.py, exception safety C09', ensures=[])
# pop_mods(): removes every modification, hands the residue modifications back under the key 'internal'
C[PA + 'pop_mods'] = dict(
    params=dict(self='Annotation'), returns='PoppedMods', mutates=['self'], trusted=True,
    bounded_by='dictionary of the removed modifications: checked by bounded/C20.py (mod_dict / pop_mods round trip)',
    ensures=[('everything-removed', 'self_final._sequence == self._sequence and ' + ' and '.join('self_final._%s is None' % f for f in _FIELDS)),
             ('residue-mods-under-internal', "result.get('internal') == self._internal_mods")], raises={})

MACROS = {
    # the peptide reduced to its residues and residue modifications
    'core': (['x'], 'ProFormaAnnotation(_sequence=x._sequence, _internal_mods=x._internal_mods)'),
}


_PIECES = '[a.serialize() for a in core(self).split()]'


def _expansion(it, size_name):
    enum = {'permutations': 'itertools.permutations(%s, k)', 'combinations': 'itertools.combinations(%s, k)',
            'combinations_with_replacement': 'itertools.combinations_with_replacement(%s, k)',
            'product': 'itertools.product(%s, repeat=k)'}[it] % _PIECES
    return dict(
        params={'self': 'Annotation', size_name: 'Optional[int]'}, returns='List[Annotation]', pure=True,
        ghost=dict(k='len(self._sequence) if %s is None else some(%s)' % (size_name, size_name)),
        ensures=[('standard-enumeration-of-the-modified-residues-wrapped-in-start-and-end',
                  'len(result) == len(' + enum + ') and forall(lambda j: implies(0 <= j and j < len(result), '
                  "result[j] == parse(self.serialize_start() + ''.join(" + enum + '[j]) + self.serialize_end())))')],
        raises={})


for _it, _sz in (('permutations', 'size'), ('combinations', 'size'), ('combinations_with_replacement', 'size'), ('product', 'repeat')):
    C[PA + _it] = _expansion(_it, _sz)
    # module-level wrapper: the serialized results of the method, in order (annotation input)
    C[CM + _it] = dict(
        params={'sequence': 'Annotation', _sz: 'Optional[int]'}, returns='List[str]', pure=True,
        ensures=[('serialized-results-of-the-method-in-order',
                  'len(result) == len(sequence.%s(%s)) and forall(lambda j: implies(0 <= j and j < len(result), '
                  'result[j] == sequence.%s(%s)[j].serialize()))' % (_it, _sz, _it, _sz))], raises={})
