"""Sidecar contracts for peptacular.score (property C17).  Floats are modelled as mathematical reals (A-REAL)."""
ALIASES = {'Window': 'Optional[Tuple[int,int]]'}
MACROS = {
    # the tolerance half-width of theoretical value number i
    'off': (['i'], "ite(tolerance_type == 'th', tolerance_value, mz_spectrum1[i] * tolerance_value / 1000000.0)"),
    'intol': (['i', 'j'], 'abs(mz_spectrum2[j] - mz_spectrum1[i]) <= off(i)'),
    # the same, with the spectra named explicitly (used by match_spectra, whose parameters have other names)
    'intol4': (['s1', 's2', 'i', 'j'], "abs(s2[j] - s1[i]) <= ite(tolerance_type == 'th', tolerance_value, s1[i] * tolerance_value / 1000000.0)"),
    # result entry i is exactly what the statement says: None iff no peak in tolerance, else the half-open index range
    # [lo, hi) holding precisely the peaks within tolerance (bounds inclusive)
    'entry_ok': (['r', 'i'],
                 '(r is None) == (not exists(lambda j: 0 <= j and j < len(mz_spectrum2) and intol(i, j)))'
                 ' and (r is None or (0 <= some(r)[0] and some(r)[0] < some(r)[1] and some(r)[1] <= len(mz_spectrum2)'
                 ' and forall(lambda j: implies(0 <= j and j < len(mz_spectrum2),'
                 ' (some(r)[0] <= j and j < some(r)[1]) == intol(i, j)))))'),
}
C = {}
_SORTED1 = 'forall(lambda j, k: implies(0 <= j and j <= k and k < len(mz_spectrum1), mz_spectrum1[j] <= mz_spectrum1[k]))'
_SORTED2 = 'forall(lambda j, k: implies(0 <= j and j <= k and k < len(mz_spectrum2), mz_spectrum2[j] <= mz_spectrum2[k]))'

C['peptacular.score:get_matched_indices'] = dict(
    params=dict(mz_spectrum1='List[real]', mz_spectrum2='List[real]', tolerance_value='real', tolerance_type='str'),
    returns='List[Window]',
    locals=dict(indices='List[Window]'),
    requires=[('theoretical-sorted', _SORTED1), ('observed-sorted', _SORTED2),
              ('tolerance-nonneg', 'tolerance_value >= 0'),
              ('mz-nonneg-1', 'forall(lambda k: implies(0 <= k and k < len(mz_spectrum1), mz_spectrum1[k] >= 0))'),
              ('mz-nonneg-2', 'forall(lambda k: implies(0 <= k and k < len(mz_spectrum2), mz_spectrum2[k] >= 0))')],
    raises={'ValueError': "tolerance_type != 'ppm' and tolerance_type != 'th'"},
    ensures=[
        ('one-entry-per-theoretical', 'len(result) == len(mz_spectrum1)'),
        # C17: "returns for each theoretical value precisely the indices of observed peaks within the absolute or ppm
        # tolerance (bounds inclusive) ... and no match is reported when there is none"
        ('exact-window', 'forall(lambda i: implies(0 <= i and i < len(mz_spectrum1), entry_ok(result[i], i)))'),
    ],
    loop_heads={0: 'for mz1 in mz_spectrum1:'},
    invariants={
        0: [('ptr-range', '0 <= mz2_start_index and mz2_start_index <= len(mz_spectrum2)'),
            ('len', 'len(indices) == _k0'),
            ('done-entries', 'forall(lambda i: implies(0 <= i and i < _k0, entry_ok(indices[i], i)))'),
            # the shared lower pointer never skips a peak that a later theoretical value still needs
            ('ptr-safe', 'forall(lambda j, k: implies(0 <= j and j < mz2_start_index and _k0 <= k and k < len(mz_spectrum1),'
                         ' mz_spectrum2[j] < mz_spectrum1[k] - off(k)))')],
        1: [('ptr-range', '0 <= mz2_start_index and mz2_start_index <= len(mz_spectrum2)'),
            ('below-window', 'forall(lambda j: implies(0 <= j and j < mz2_start_index, mz_spectrum2[j] < mz1_start))')],
        2: [('end-range', 'mz2_start_index <= mz2_end_index and mz2_end_index <= len(mz_spectrum2)'),
            ('inside-window', 'forall(lambda j: implies(mz2_start_index <= j and j < mz2_end_index, mz_spectrum2[j] <= mz1_end))')],
    },
    decreases={1: 'len(mz_spectrum2) - mz2_start_index', 2: 'len(mz_spectrum2) - mz2_end_index'},
    canary=[('exclusive-upper-bound',
             'forall(lambda i: implies(0 <= i and i < len(mz_spectrum1) and result[i] is not None, forall(lambda j: implies(0 <= j and j < len(mz_spectrum2),'
             ' (some(result[i])[0] <= j and j < some(result[i])[1]) == (mz_spectrum1[i] - off(i) <= mz_spectrum2[j] and mz_spectrum2[j] < mz_spectrum1[i] + off(i))))))')],
)

_MS_PARAMS = dict(fragments='List[real]', mz_spectra='List[real]', tolerance_value='real', tolerance_type='str')
_MS_REQ = [('theoretical-sorted', _SORTED1.replace('mz_spectrum1', 'fragments')),
           ('observed-sorted', _SORTED2.replace('mz_spectrum2', 'mz_spectra')),
           ('tolerance-nonneg', 'tolerance_value >= 0'),
           ('mz-nonneg-1', 'forall(lambda k: implies(0 <= k and k < len(fragments), fragments[k] >= 0))'),
           ('mz-nonneg-2', 'forall(lambda k: implies(0 <= k and k < len(mz_spectra), mz_spectra[k] >= 0))')]
_MS_RAISES = {'ValueError': "tolerance_type != 'ppm' and tolerance_type != 'th'"}
_T = 'intol4(fragments, mz_spectra, i, j)'
_RNG = '0 <= i and i < {n}'
# every clause is stated per entry i of the list `{R}` (result, or the prefix built so far in the loop invariant)
_CL = {
    'none-iff-no-peak': 'forall(lambda i: implies(' + _RNG + ', ({R}[i] is None) == (not exists(lambda j: 0 <= j and j < len(mz_spectra) and ' + _T + '))))',
}
_CL_ALL = dict(_CL, **{
    'members-in-tolerance-ascending':
        'forall(lambda i, p: implies(' + _RNG + ' and {R}[i] is not None and 0 <= p and p < len(some({R}[i])),'
        ' 0 <= some({R}[i])[p] and some({R}[i])[p] < len(mz_spectra) and intol4(fragments, mz_spectra, i, some({R}[i])[p])'
        ' and (p == 0 or some({R}[i])[p-1] < some({R}[i])[p])))',
    'every-peak-in-tolerance-listed':
        'forall(lambda i, j: implies(' + _RNG + ' and {R}[i] is not None and 0 <= j and j < len(mz_spectra) and ' + _T + ','
        # (the witness is written out: in a sorted spectrum the peaks in tolerance are a contiguous index block, so peak j
        #  is entry number j - first; this is `exists p: entry[p] == j` with the witness named)
        ' 0 <= j - some({R}[i])[0] and j - some({R}[i])[0] < len(some({R}[i])) and some({R}[i])[j - some({R}[i])[0]] == j))',
})
_CL_CLOSEST = dict(_CL, **{
    'chosen-in-tolerance': 'forall(lambda i: implies(' + _RNG + ' and {R}[i] is not None, 0 <= some({R}[i]) and some({R}[i]) < len(mz_spectra)'
                           ' and intol4(fragments, mz_spectra, i, some({R}[i]))))',
    'minimal-distance': 'forall(lambda i, j: implies(' + _RNG + ' and {R}[i] is not None and 0 <= j and j < len(mz_spectra) and ' + _T + ','
                        ' abs(fragments[i] - mz_spectra[some({R}[i])]) <= abs(fragments[i] - mz_spectra[j])))',
})
_CL_LARGEST = dict(_CL, **{
    'chosen-in-tolerance': _CL_CLOSEST['chosen-in-tolerance'],
    'maximal-intensity': 'forall(lambda i, j: implies(' + _RNG + ' and {R}[i] is not None and 0 <= j and j < len(mz_spectra) and ' + _T + ','
                         ' some(intensity_spectra)[some({R}[i])] >= some(intensity_spectra)[j]))',
})
for _mode, _rty, _cl in (('all', 'Optional[List[int]]', _CL_ALL), ('closest', 'Optional[int]', _CL_CLOSEST),
                         ('largest', 'Optional[int]', _CL_LARGEST)):
    C['peptacular.score:match_spectra@' + _mode] = dict(
        params=dict(_MS_PARAMS, intensity_spectra='Optional[List[real]]'), specialize=dict(mode=_mode),
        returns='List[%s]' % _rty, locals=dict(results='List[%s]' % _rty),
        requires=_MS_REQ + ([('intensities-given', 'intensity_spectra is not None and len(some(intensity_spectra)) == len(mz_spectra)')]
                            if _mode == 'largest' else []),
        raises=_MS_RAISES,
        # C17: 'all' precisely the indices in tolerance; 'closest' one of those with minimal distance; 'largest' one with
        # maximal intensity; None exactly when there is none
        ensures=[('one-entry-per-fragment', 'len(result) == len(fragments)')] +
                [(l, t.format(R='result', n='len(fragments)')) for l, t in _cl.items()],
        invariants={0: [('len', 'len(results) == _k0 and _k0 <= len(fragments)')] +
                       [(l, t.format(R='results', n='_k0')) for l, t in _cl.items()]},
    )
