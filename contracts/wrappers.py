"""Sidecar contracts for the string-level wrappers of peptacular.sequence.sequence_funcs (properties C11, C20, C12, C07): each wrapper is
its annotation method IN COPY MODE followed by the serializer, with the wrapper's own arguments handed through (swap_terms, the shift, the
two ends of the span, include_plus).  The methods enter through their contracts (proved in contracts/annot.py / equality.py /
condstatic.py; here only "copy mode returns a peptide" is used), the serializer through its contract (contracts/serial.py)."""
from contracts._records import RECORDS, CLASSES, CTORS, PA, accessor_contracts
ALIASES = {'Span': 'Tuple[int,int,int]'}
SF = 'peptacular.sequence.sequence_funcs:'
C = {k: v for k, v in accessor_contracts().items() if k.split('.')[-1] in ('sequence',)}
_NEW = [('copy-mode-returns-a-peptide', '(result is None) == inplace')]
C[PA + 'reverse'] = dict(params=dict(self='Annotation', inplace='bool', swap_terms='bool'), returns='Optional[Annotation]', pure=True, trusted=True,
                         bounded_by='proved against its own contract in contracts/annot.py (C11)', ensures=_NEW)
C[PA + 'shift'] = dict(params=dict(self='Annotation', n='int', inplace='bool'), returns='Optional[Annotation]', pure=True, trusted=True,
                       bounded_by='proved against its own contract in contracts/annot.py (C11)', ensures=_NEW)
C[PA + 'slice'] = dict(params=dict(self='Annotation', start='Optional[int]', stop='Optional[int]', inplace='bool'), returns='Optional[Annotation]', pure=True,
                       trusted=True, bounded_by='proved against its own contract in contracts/annot.py (C11)', ensures=_NEW)
C[PA + 'condense_static_mods'] = dict(params=dict(self='Annotation', inplace='bool'), returns='Optional[Annotation]', pure=True, trusted=True,
                                      bounded_by='proved against its own contract in contracts/condstatic.py (C12)', ensures=_NEW)
C[PA + 'serialize'] = dict(params=dict(self='Annotation', include_plus='bool'), returns='str', pure=True, trusted=True,
                           bounded_by='single-chain serializer: layout proved in contracts/serial.py (C01)', ensures=[])
_P = dict(sequence='Annotation', include_plus='bool')
C[SF + 'reverse'] = dict(params=dict(sequence='Annotation', swap_terms='bool', include_plus='bool'), returns='str', pure=True, raises={},
                         ensures=[('the-reversed-copy-written-out', 'result == some(sequence.reverse(False, swap_terms)).serialize(include_plus)')])
C[SF + 'shift'] = dict(params=dict(sequence='Annotation', n='int', include_plus='bool'), returns='str', pure=True, raises={},
                       ensures=[('the-shifted-copy-written-out', 'result == some(sequence.shift(n, False)).serialize(include_plus)')])
C[SF + 'span_to_sequence'] = dict(params=dict(sequence='Annotation', span='Span', include_plus='bool'), returns='str', pure=True, raises={},
                                  ensures=[('the-slice-at-the-two-ends-of-the-span-written-out',
                                            'result == some(sequence.slice(span[0], span[1], False)).serialize(include_plus)')])
C[SF + 'condense_static_mods'] = dict(params=_P, returns='str', pure=True, raises={},
                                      ensures=[('the-condensed-copy-written-out', 'result == some(sequence.condense_static_mods(False)).serialize(include_plus)')])
C[SF + 'strip_mods'] = dict(params=dict(sequence='Annotation'), returns='str', pure=True, raises={},
                            ensures=[('the-residues', 'result == sequence._sequence')])
