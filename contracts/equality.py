"""Sidecar contracts for the equality / strip / copy surface of ProFormaAnnotation (property C20) on the shared record model.
Counter(list) is modelled as an uninterpreted multiset abstraction of the list value (LC-COUNTER): two Counters compare equal
iff the abstractions are equal.  `meq` / `ieq` are the relations the STATEMENT speaks about: same multiset of modifications at a
position (order-insensitive), both absent, or different."""
from contracts._records import RECORDS, CLASSES, CTORS, PA, accessor_contracts, setter_contracts, pop_contracts, MOD_FIELDS as _FIELDS
ALIASES = {}
FUNCS = {}
AXIOMS = []
DC = 'peptacular.proforma.proforma_dataclasses:'
C = accessor_contracts()
MACROS = {
    'meq': (['x', 'y'], '(x is None and y is None) or (x is not None and y is not None and Counter(some(x)) == Counter(some(y)))'),
    'ieq': (['x', 'y'], '(x is None and y is None) or (x is not None and y is not None and len(some(x)) == len(some(y)) '
                        'and Counter(some(x)) == Counter(some(y)))'),
    'im_has': (['x', 'j'], 'x._internal_mods is not None and (j in some(x._internal_mods))'),
    'stripped': (['r', 's'], 'r._sequence == s and ' + ' and '.join('r._%s is None' % f for f in _FIELDS) +
                 ' and r._internal_mods is None and r._intervals is None and r._charge is None'),
    'same_fields': (['r', 'x'], 'r._sequence == x._sequence and r._internal_mods == x._internal_mods and r._intervals == x._intervals '
                                'and r._charge == x._charge and ' + ' and '.join('r._%s == x._%s' % (f, f) for f in _FIELDS)),
}

C[DC + 'are_mods_equal'] = dict(
    params=dict(mods1='Optional[ModList]', mods2='Optional[ModList]'), returns='bool', pure=True,
    ensures=[('same-multiset-or-both-absent', 'result == meq(mods1, mods2)')], raises={})
C[DC + 'are_intervals_equal'] = dict(
    params=dict(intervals1='Optional[List[Interval]]', intervals2='Optional[List[Interval]]'), returns='bool', pure=True,
    ensures=[('same-multiset-or-both-absent', 'result == ieq(intervals1, intervals2)')], raises={})
C[PA + 'get_internal_mods_by_index'] = dict(
    params=dict(self='Annotation', index='int'), returns='Optional[ModList]', pure=True,
    ensures=[('absent', 'implies(not im_has(self, index), result is None)'),
             ('present', 'implies(im_has(self, index), result is not None and some(result) == some(self._internal_mods)[index])')],
    raises={})

# equality: exactly the conjunction over every field the statement lists -- nothing ignored, nothing extra
_EQ = ('self._sequence == other._sequence and ' + ' and '.join('meq(self._%s, other._%s)' % (f, f) for f in _FIELDS) +
       ' and forall(lambda j: meq(self.get_internal_mods_by_index(j), other.get_internal_mods_by_index(j)))'
       ' and ieq(self._intervals, other._intervals) and self._charge == other._charge')
C[PA + '__eq__'] = dict(
    params=dict(self='Annotation', other='Annotation'), returns='bool', pure=True,
    locals=dict(self_keys='Set[int]', other_keys='Set[int]'),
    ensures=[('equal-iff-every-field-equal', 'result == (' + _EQ + ')')],
    invariants={0: [('seen-positions-equal', 'forall(lambda j: implies(j in _seen0, '
                                             'meq(self.get_internal_mods_by_index(j), other.get_internal_mods_by_index(j))))')]},
    raises={})

# the ten property setters strip(inplace=True) goes through, and the pop_*() methods built on them: verified here
C.update(setter_contracts())
C.update(pop_contracts())

C[PA + 'strip'] = dict(
    params=dict(self='Annotation', inplace='bool'), returns='Optional[Annotation]', mutates=['self'],
    ensures=[('inplace-returns-none', 'implies(inplace, result is None)'),
             ('inplace-removes-every-modification-and-nothing-else', 'implies(inplace, stripped(self_final, self._sequence))'),
             ('copy-has-the-residues-and-no-modification', 'implies(not inplace, result is not None and stripped(some(result), self._sequence))'),
             ('copy-mode-leaves-self', 'implies(not inplace, same_fields(self_final, self))')],
    raises={})
C[PA + 'copy'] = dict(
    params=dict(self='Annotation'), returns='Annotation', pure=True,
    ensures=[('equal-value', 'same_fields(result, self)')], raises={})

# laws that follow from the contracts alone (checked as lemmas over the contracts, not over the code)
LEMMAS = [
    ('eq-reflexive', 'forall(lambda a=Annotation: a.__eq__(a))'),
    ('eq-symmetric', 'forall(lambda a=Annotation, b=Annotation: a.__eq__(b) == b.__eq__(a))'),
    ('eq-transitive', 'forall(lambda a=Annotation, b=Annotation, c=Annotation: implies(a.__eq__(b) and b.__eq__(c), a.__eq__(c)))'),
    ('copy-equal', 'forall(lambda a=Annotation: a.__eq__(a.copy()))'),
    ('eq-sensitive-to-sequence', 'forall(lambda a=Annotation, b=Annotation: implies(a._sequence != b._sequence, not a.__eq__(b)))'),
    ('eq-sensitive-to-charge', 'forall(lambda a=Annotation, b=Annotation: implies(a._charge != b._charge, not a.__eq__(b)))'),
    ('eq-sensitive-to-presence', 'forall(lambda a=Annotation, b=Annotation: implies((a._nterm_mods is None) != (b._nterm_mods is None), not a.__eq__(b)))'),
]

# ---------------------------------------------------------------- create_annotation (C20: "building an annotation from the field dictionary of another gives an
# equal annotation"): every field of the new annotation is the NORMALISED input of that name; the three input normalisers (Mod objects stay, texts /
# numbers become Mod objects) enter as callees; a lemma puts it together for inputs that are already another annotation's fields
IC = 'peptacular.proforma.input_convert:'
C[IC + 'fix_list_of_mods'] = dict(params=dict(mods='ModList'), returns='ModList', pure=True, trusted=True,
                                  bounded_by='input normalisation of a list of modifications: bounded/C20.py, bounded/C13.py', ensures=[])
C[IC + 'fix_dict_of_mods'] = dict(params=dict(mods='Dict[int,ModList]'), returns='Dict[int,ModList]', pure=True, trusted=True,
                                  bounded_by='input normalisation of a position -> modifications dictionary: bounded/C20.py', ensures=[])
C[IC + 'fix_intervals_input'] = dict(params=dict(intervals='List[Interval]'), returns='List[Interval]', pure=True, trusted=True,
                                     bounded_by='input normalisation of a list of intervals: bounded/C20.py', ensures=[])
_CA_FIELDS = ('isotope_mods', 'static_mods', 'labile_mods', 'unknown_mods', 'nterm_mods', 'cterm_mods')
_CA_PARAMS = dict(sequence='str')
for _f in _CA_FIELDS:
    _CA_PARAMS[_f] = 'Optional[ModList]'
_CA_PARAMS.update(internal_mods='Optional[Dict[int,ModList]]', intervals='Optional[List[Interval]]', charge='Optional[int]', charge_adducts='Optional[ModList]')
C['peptacular.proforma.proforma_parser:create_annotation'] = dict(
    params=_CA_PARAMS, returns='Annotation', pure=True, raises={},
    ensures=[('residues', 'result._sequence == sequence'), ('charge', 'result._charge == charge')] +
            [('%s-is-the-normalised-input' % f, 'result._%s == (None if %s is None else fix_list_of_mods(some(%s)))' % (f, f, f)) for f in _CA_FIELDS + ('charge_adducts',)] +
            [('internal_mods-is-the-normalised-input', 'result._internal_mods == (None if internal_mods is None else fix_dict_of_mods(some(internal_mods)))'),
             ('intervals-is-the-normalised-input', 'result._intervals == (None if intervals is None else fix_intervals_input(some(intervals)))')])
_NORMAL = ' and '.join('(a._%s is None or fix_list_of_mods(some(a._%s)) == some(a._%s))' % (f, f, f) for f in _CA_FIELDS + ('charge_adducts',)) + \
    ' and (a._internal_mods is None or fix_dict_of_mods(some(a._internal_mods)) == some(a._internal_mods))' \
    ' and (a._intervals is None or fix_intervals_input(some(a._intervals)) == some(a._intervals))'
LEMMAS.append(('rebuilt-from-its-own-fields-is-equal',
               'forall(lambda a=Annotation: implies(' + _NORMAL + ', create_annotation(a._sequence, ' + ', '.join('a._%s' % f for f in _CA_FIELDS) +
               ', a._internal_mods, a._intervals, a._charge, a._charge_adducts).__eq__(a)))'))
