"""Sidecar contracts for the subsequence search (property C16, first sentence): ProFormaAnnotation.is_subsequence, find_indices and
sequence_funcs.find_subsequence_indices on the shared record model.

OCC(q, t, p) -- "the query's residues occur in the target at offset p and the query's modifications equal those of the target on that
stretch" -- is written out: 0 <= p, p + len(q) <= len(t), t.residues[p:p+len(q)] == q.residues, and the slice of the target at
[p, p+len(q)) EQUALS the query (ProFormaAnnotation.__eq__, proved in contracts/equality.py; slice proved in contracts/annot.py).
The regular-expression search over residue letters is LC-REGEX-LITERAL (all overlapping literal occurrences, ascending)."""
from contracts._records import RECORDS, CLASSES, CTORS, PA, accessor_contracts
ALIASES = {}
SF = 'peptacular.sequence.sequence_funcs:'
C = {k: v for k, v in accessor_contracts().items() if k.split('.')[-1] in ('sequence', 'has_sequence')}
MACROS = {
    'n_of': (['q'], 'len(q._sequence)'),
    # the residues of q occur in t at offset p
    'lit': (['q', 't', 'p'], '0 <= p and p + len(q._sequence) <= len(t._sequence) and substr(t._sequence, p, len(q._sequence)) == q._sequence'),
    # ... and the stretch of the target equals the query, modifications included
    'occ': (['q', 't', 'p'], 'lit(q, t, p) and t.slice(p, p + len(q._sequence)).__eq__(q)'),
}
C[PA + '__len__'] = dict(params=dict(self='Annotation'), returns='int', pure=True, ensures=[('residues', 'result == len(self._sequence)')])
C[PA + '__eq__'] = dict(params=dict(self='Annotation', other='Annotation'), returns='bool', pure=True, trusted=True,
                        bounded_by='proved against its own contract in contracts/equality.py (C20): equal iff every field is equal as a multiset; '
                                   'symmetric and transitive: lemmas eq-symmetric / eq-transitive proved there',
                        ensures=[])
# (proved as lemmas eq-symmetric / eq-transitive over the __eq__ contract in contracts/equality.py; assumed here for the uninterpreted relation)
AXIOMS = [('eq-symmetric', 'forall(lambda x=Annotation, y=Annotation: x.__eq__(y) == y.__eq__(x))'),
          ('eq-transitive', 'forall(lambda x=Annotation, y=Annotation, z=Annotation: implies(x.__eq__(y) and y.__eq__(z), x.__eq__(z)))')]
C[PA + 'slice'] = dict(
    params=dict(self='Annotation', start='int', stop='int', inplace='bool'), returns='Annotation', pure=True, trusted=True,
    requires=[('range', '0 <= start and start <= stop and stop <= len(self._sequence)')],
    bounded_by='proved against its own contract in contracts/annot.py (C11)',
    ensures=[('residues', 'result._sequence == self._sequence[start:stop]'),
             # A-WHOLE-SLICE: cutting out the whole peptide gives an equal peptide.  PROVED in contracts/wholeslice.py from the slice contract
             # (C11) and the == contract (C20) for well-formed peptides without an empty interval list; assumed here for every stretch the
             # search cuts out (a stretch cut through an interval is outside the C11 contract), exercised by bounded/C16.py
             ('whole-range-slice-equals-the-peptide', 'implies(start == 0 and stop == len(self._sequence), result.__eq__(self))')])
C[PA + 'strip'] = dict(params=dict(self='Annotation', inplace='bool'), returns='Annotation', pure=True, trusted=True,
                       requires=[('copy-mode', 'not inplace')], bounded_by='proved against its own contract in contracts/equality.py (C20)',
                       ensures=[('same-residues', 'result._sequence == self._sequence')])

# is_subsequence(self, other): self occurs somewhere in other
C[PA + 'is_subsequence'] = dict(
    params=dict(self='Annotation', other='Annotation'), returns='bool', pure=True, raises={},
    ghost=dict(L='litocc(self._sequence, other._sequence)'),
    ensures=[('true-iff-it-occurs-somewhere', 'result == exists(lambda p: occ(self, other, p))'),
             # the case find_indices uses it for: a candidate stretch of exactly the query's length
             ('same-length-iff-equal', 'implies(len(other._sequence) == len(self._sequence), '
                                       'result == (other._sequence == self._sequence and other.__eq__(self)))')],
    invariants={0: [('no-earlier-occurrence', 'forall(lambda k: implies(0 <= k and k < _k0, not occ(self, other, L[k])))')]},
)
# find_indices(self, other): exactly the offsets at which self occurs in other, ascending
C[PA + 'find_indices'] = dict(
    params=dict(self='Annotation', other='Annotation'), returns='List[int]', pure=True, raises={},
    ghost=dict(L='litocc(self._sequence, other._sequence)'),
    exit_lemmas=[
        ('candidate-passes-the-filter-iff-it-is-an-occurrence',
         'forall(lambda i: implies(0 <= i and i < len(L), self.is_subsequence(other.slice(L[i], L[i] + len(self._sequence))) == occ(self, other, L[i])))'),
        ('every-literal-occurrence-is-a-candidate',
         'forall(lambda p: implies(lit(self, other, p), exists(lambda i: 0 <= i and i < len(L) and L[i] == p)))'),
        ('every-passing-candidate-is-reported',
         'forall(lambda i: implies(0 <= i and i < len(L) and self.is_subsequence(other.slice(L[i], L[i] + len(self._sequence))), '
         'exists(lambda k: 0 <= k and k < len(result) and result[k] == L[i])))'),
    ],
    ensures=[('ascending', 'forall(lambda j, k: implies(0 <= j and j < k and k < len(result), result[j] < result[k]))'),
             ('reported-are-occurrences', 'forall(lambda k: implies(0 <= k and k < len(result), occ(self, other, result[k])))'),
             ('occurrences-are-reported', 'forall(lambda p: implies(occ(self, other, p), exists(lambda k: 0 <= k and k < len(result) and result[k] == p)))')],
)
# find_subsequence_indices(sequence, subsequence, ignore_mods) on annotation objects
_T = '(sequence.strip() if ignore_mods else sequence)'
_Q = '(subsequence.strip() if ignore_mods else subsequence)'
C[SF + 'find_subsequence_indices'] = dict(
    params=dict(sequence='Annotation', subsequence='Annotation', ignore_mods='bool'), returns='List[int]', pure=True, raises={},
    ensures=[('empty-query-or-target-gives-nothing', "implies(sequence._sequence == '' or subsequence._sequence == '', len(result) == 0)"),
             ('ascending', 'forall(lambda j, k: implies(0 <= j and j < k and k < len(result), result[j] < result[k]))'),
             ('reported-are-occurrences', "implies(sequence._sequence != '' and subsequence._sequence != '', "
                                          'forall(lambda k: implies(0 <= k and k < len(result), occ(' + _Q + ', ' + _T + ', result[k]))))'),
             ('occurrences-are-reported', "implies(sequence._sequence != '' and subsequence._sequence != '', "
                                          'forall(lambda p: implies(occ(' + _Q + ', ' + _T + ', p), exists(lambda k: 0 <= k and k < len(result) and result[k] == p))))')],
)

# the module-level containment test, ordered form: "occurs somewhere" == the occurrence list is not empty
C[SF + 'is_subsequence@ordered'] = dict(
    params=dict(subsequence='Annotation', sequence='Annotation', order='bool'), specialize=dict(order=True), returns='bool', pure=True, raises={},
    ensures=[('true-iff-an-occurrence-is-reported', 'result == (len(find_subsequence_indices(sequence, subsequence, False)) != 0)'),
             ('true-iff-the-query-occurs-in-the-target',
              "implies(sequence._sequence != '' and subsequence._sequence != '', result == exists(lambda p: occ(subsequence, sequence, p)))")])
