"""Sidecar contract for peptacular.mass_calc.mass on annotation objects (property C02, first sentence; the static-rule sentence of C12):
the value handed to the charge / ion adjustment is the SUM OF THE PARTS -- residue masses from the real table, each modification's
mass wherever it is written (N-terminus, C-terminus, residue, interval, unknown position, labile for the precursor only), and for
every global static rule the mass of its modifications once per matching terminus / times the number of occurrences of its
target residue.  Sums over lists are the fold spec functions the code's own sum(...) expressions denote (SPEC-FOLD); sums over
dictionaries are finite-sum spec functions defined by their empty / insert equations (A-FINSUM, as in contracts/chemmass.py).
mod_mass, parse_static_mods, comp_mass, chem_mass and adjust_mass are pure callees (adjust_mass / chem_mass are proved against
their own contracts in contracts/masscalc.py / contracts/chemmass.py)."""
from contracts._records import RECORDS, CLASSES, CTORS, PA, accessor_contracts
ALIASES = {'StaticMap': 'Dict[str,ModList]', 'ResMods': 'Dict[int,ModList]', 'Comp': 'Dict[str,real]'}
OPAQUE_LISTS = ['ModList']
GLOBALS_FROM = {'peptacular.chem.chem_constants': ['MONOISOTOPIC_AA_MASSES', 'AVERAGE_AA_MASSES']}
EXC_PARENTS = {'AmbiguousAminoAcidError': 'ValueError', 'UnknownAminoAcidError': 'ValueError'}
MC = 'peptacular.mass_calc:'
C = accessor_contracts()

_MM = 'mod_mass(x, monoisotopic, None)'
MACROS = {
    # mass of a list of modifications / of an optional one
    'msum': (['L'], 'psum(lambda x: ' + _MM + ', L, len(items(L)))'),
    'omsum': (['O'], '(0 if O is None else psum(lambda x: ' + _MM + ', some(O), len(items(some(O)))))'),
    'known_residues': (['s'], 'forall(lambda k: implies(0 <= k and k < len(s), (s[k] in MONOISOTOPIC_AA_MASSES) if monoisotopic else '
                              '(s[k] in AVERAGE_AA_MASSES)))'),
}
# finite sums over dictionaries (A-FINSUM)
FUNCS = {
    # SSUM(M, seq, mono, S): over the residue targets in S of a static-rule map: mass of the rule's modifications x occurrences of the target
    'SSUM': (['StaticMap', 'str', 'bool', 'Set[str]'], 'real'),
    # DSUM(d, mono, S): over the modified positions in S: mass of the modifications written there
    'DSUM': (['ResMods', 'bool', 'Set[int]'], 'real'),
}
AXIOMS = [
    ('SSUM-empty', 'forall(lambda M=StaticMap, s=str, monoisotopic=bool: SSUM(M, s, monoisotopic, set()) == 0)'),
    ('SSUM-insert', "forall(lambda M=StaticMap, s=str, monoisotopic=bool, S=Set[str], k=str: implies(not (k in S), SSUM(M, s, monoisotopic, set_add(S, k)) == "
                    "SSUM(M, s, monoisotopic, S) + (0 if (k == 'N-Term' or k == 'C-Term') else msum(M[k]) * s.count(k))))"),
    ('DSUM-empty', 'forall(lambda d=ResMods, monoisotopic=bool: DSUM(d, monoisotopic, set()) == 0)'),
    ('DSUM-insert', 'forall(lambda d=ResMods, monoisotopic=bool, S=Set[int], k=int: implies(not (k in S), DSUM(d, monoisotopic, set_add(S, k)) == '
                    'DSUM(d, monoisotopic, S) + msum(d[k])))'),
]

C[MC + 'mod_mass'] = dict(params=dict(mod='ModList_item', monoisotopic='bool', precision='Optional[int]'), returns='real', pure=True, trusted=True,
                          bounded_by='modification masses: bounded/C10.py (all spellings), ground tables C03', ensures=[])
C['peptacular.proforma.proforma_parser:parse_static_mods'] = dict(
    params=dict(mods='Optional[ModList]'), returns='StaticMap', pure=True, trusted=True,
    bounded_by='static rule text -> target map: bounded/C12.py', ensures=[])
C[MC + 'comp_mass'] = dict(
    params=dict(sequence='Annotation', ion_type='str', charge='Optional[int]', isotope='int', charge_adducts='Optional[ModList_item]',
                isotope_mods='Optional[ModList]', use_isotope_on_mods='bool'),
    returns='Tuple[Comp,real]', pure=True, trusted=True, bounded_by='composition calculator: bounded/C03.py', ensures=[])
C['peptacular.chem.chem_util:chem_mass'] = dict(
    params=dict(formula='Comp', monoisotopic='bool', precision='Optional[int]', sep='str'), returns='real', pure=True, trusted=True,
    bounded_by='proved against its own contract in contracts/chemmass.py (C15)', ensures=[])
C[MC + 'adjust_mass'] = dict(
    params=dict(base_mass='real', charge='Optional[int]', ion_type='str', monoisotopic='bool', isotope='int', loss='real',
                charge_adducts='Optional[ModList_item]', precision='Optional[int]'),
    returns='real', pure=True, trusted=True, bounded_by='proved against its own contract in contracts/masscalc.py (C02)', ensures=[])

_SEQ = 'sequence._sequence'
_STATIC = ("(0 if sequence._static_mods is None else (omsum(parse_static_mods(sequence._static_mods).get('N-Term')) + "
           "omsum(parse_static_mods(sequence._static_mods).get('C-Term')) + "
           "SSUM(parse_static_mods(sequence._static_mods), " + _SEQ + ", monoisotopic, set(parse_static_mods(sequence._static_mods)))))")
_RES = 'psum(lambda aa: (MONOISOTOPIC_AA_MASSES[aa] if monoisotopic else AVERAGE_AA_MASSES[aa]), ' + _SEQ + ', len(' + _SEQ + '))'
_LAB = "(omsum(sequence._labile_mods) if ion_type == 'p' else 0)"
_IV = '(0 if sequence._intervals is None else psum(lambda iv: omsum(iv.mods), some(sequence._intervals), len(some(sequence._intervals))))'
_IM = '(0 if sequence._internal_mods is None else DSUM(some(sequence._internal_mods), monoisotopic, set(some(sequence._internal_mods))))'
_TOTAL = ' + '.join([_STATIC, _RES, _LAB, 'omsum(sequence._unknown_mods)', 'omsum(sequence._nterm_mods)', _IV, _IM,
                     'omsum(sequence._cterm_mods)'])
_LOOP = 'm == m_at{o} + psum(lambda x: ' + _MM + ', {L}, _k{o})'
C[MC + 'mass'] = dict(
    params=dict(sequence='Annotation', charge='Optional[int]', ion_type='str', monoisotopic='bool', isotope='int', loss='real',
                charge_adducts='Optional[ModList_item]', isotope_mods='Optional[ModList]', use_isotope_on_mods='bool', precision='Optional[int]'),
    returns='real', pure=True, merge_ifs=True,
    locals=dict(static_map='StaticMap'),
    ghost=dict(q='charge if charge is not None else sequence._charge',
               ca='charge_adducts if charge_adducts is not None else (None if sequence._charge_adducts is None else items(some(sequence._charge_adducts))[0])',
               im='isotope_mods if isotope_mods is not None else sequence._isotope_mods',
               labelled='(isotope_mods if isotope_mods is not None else sequence._isotope_mods) is not None and '
                        'len(items(some(isotope_mods if isotope_mods is not None else sequence._isotope_mods))) > 0',
               ambiguous="('B' in sequence._sequence) or ('Z' in sequence._sequence)"),
    requires=[('adduct-list-not-empty', 'sequence._charge_adducts is None or len(items(some(sequence._charge_adducts))) > 0')],
    raises={'AmbiguousAminoAcidError': 'ambiguous',
            'UnknownAminoAcidError': 'not ambiguous and not labelled and not known_residues(sequence._sequence)'},
    ensures=[
        ('sum-of-the-parts-then-the-ion-adjustment',
         'implies(not labelled, result == adjust_mass(' + _TOTAL + ', q, ion_type, monoisotopic, isotope, loss, ca, precision))'),
        ('labelled-peptides-through-the-composition',
         'implies(labelled, result == (round(chem_mass(comp_mass(sequence, ion_type, q, isotope, ca, im, use_isotope_on_mods)[0], monoisotopic) + '
         'comp_mass(sequence, ion_type, q, isotope, ca, im, use_isotope_on_mods)[1] + loss, some(precision)) if precision is not None else '
         'chem_mass(comp_mass(sequence, ion_type, q, isotope, ca, im, use_isotope_on_mods)[0], monoisotopic) + '
         'comp_mass(sequence, ion_type, q, isotope, ca, im, use_isotope_on_mods)[1] + loss))'),
    ],
    invariants={
        0: [('static-rules-so-far', "m == omsum(static_map.get('N-Term')) + omsum(static_map.get('C-Term')) + "
                                    "SSUM(static_map, " + _SEQ + ", monoisotopic, _seen0)")],
        1: [('labile-so-far', _LOOP.format(o=1, L='some(sequence._labile_mods)'))],
        2: [('unknown-so-far', _LOOP.format(o=2, L='some(sequence._unknown_mods)'))],
        3: [('nterm-so-far', _LOOP.format(o=3, L='some(sequence._nterm_mods)'))],
        4: [('intervals-so-far', 'm == m_at4 + psum(lambda iv: omsum(iv.mods), some(sequence._intervals), _k4)')],
        5: [('interval-mods-so-far', _LOOP.format(o=5, L='some(interval.mods)'))],
        6: [('residue-mods-so-far', 'm == m_at6 + DSUM(some(sequence._internal_mods), monoisotopic, _seen6)')],
        7: [('position-mods-so-far', _LOOP.format(o=7, L='mods'))],
        8: [('cterm-so-far', _LOOP.format(o=8, L='some(sequence._cterm_mods)'))],
    },
)

C[MC + 'adjust_mz'] = dict(params=dict(base_mass='real', charge='Optional[int]', precision='Optional[int]'), returns='real', pure=True, trusted=True,
                           bounded_by='proved against its own contract in contracts/masscalc.py (C02)', ensures=[])
# mz(): the mass of the same peptide with the same options at the resolved charge (unrounded), divided by that charge by adjust_mz
C[MC + 'mz'] = dict(
    params=dict(sequence='Annotation', charge='Optional[int]', ion_type='str', monoisotopic='bool', isotope='int', loss='real',
                charge_adducts='Optional[ModList_item]', isotope_mods='Optional[ModList]', precision='Optional[int]'),
    returns='real', pure=True,
    ghost=dict(q='charge if charge is not None else sequence._charge'),
    requires=[('adduct-list-not-empty', 'sequence._charge_adducts is None or len(items(some(sequence._charge_adducts))) > 0')],
    raises={'ValueError': None},
    ensures=[('mass-at-the-resolved-charge-over-the-charge',
              'result == adjust_mz(mass(sequence, q, ion_type, monoisotopic, isotope, loss, charge_adducts, isotope_mods, False, None), q, precision)')])

# ---------------------------------------------------------------- consequences of the contract (C12: a global rule == its explicit form)
_OPTS = 'q, ion_type, monoisotopic, isotope, loss, ca, None, False, precision'
_REST_EQ = ' and '.join('same(b.%s, a.%s)' % (f, f) for f in RECORDS['Annotation']
                        if f not in ('_static_mods', '_nterm_mods', '_cterm_mods'))
_UNLAB = '(a._isotope_mods is None) and (a._charge_adducts is None or len(items(some(a._charge_adducts))) > 0)'
_VARS = 'a=Annotation, b=Annotation, q=Optional[int], ion_type=str, monoisotopic=bool, isotope=int, loss=real, ca=Optional[ModList_item], precision=Optional[int]'
LEMMAS = [
    ('n-terminal-static-rule-equals-the-explicit-n-terminal-modification',
     'forall(lambda ' + _VARS + ": implies(" + _UNLAB + " and a._static_mods is not None and a._nterm_mods is None and "
     "set(parse_static_mods(a._static_mods)) == set_add(set(), 'N-Term') and "
     "b._static_mods is None and b._nterm_mods is not None and some(b._nterm_mods) == parse_static_mods(a._static_mods)['N-Term'] and "
     "same(b._cterm_mods, a._cterm_mods) and " + _REST_EQ + ", mass(a, " + _OPTS + ") == mass(b, " + _OPTS + ")))"),
    ('c-terminal-static-rule-equals-the-explicit-c-terminal-modification',
     'forall(lambda ' + _VARS + ": implies(" + _UNLAB + " and a._static_mods is not None and a._cterm_mods is None and "
     "set(parse_static_mods(a._static_mods)) == set_add(set(), 'C-Term') and "
     "b._static_mods is None and b._cterm_mods is not None and some(b._cterm_mods) == parse_static_mods(a._static_mods)['C-Term'] and "
     "same(b._nterm_mods, a._nterm_mods) and " + _REST_EQ + ", mass(a, " + _OPTS + ") == mass(b, " + _OPTS + ")))"),
    ('a-rule-whose-target-does-not-occur-changes-nothing',
     'forall(lambda ' + _VARS + ", t=str: implies(" + _UNLAB + " and a._static_mods is not None and t != 'N-Term' and t != 'C-Term' and "
     "set(parse_static_mods(a._static_mods)) == set_add(set(), t) and a._sequence.count(t) == 0 and "
     "b._static_mods is None and same(b._nterm_mods, a._nterm_mods) and same(b._cterm_mods, a._cterm_mods) and " + _REST_EQ +
     ", mass(a, " + _OPTS + ") == mass(b, " + _OPTS + ")))"),
]
