"""Sidecar contract for isotope._scale_isotope_abundances (property C14, normalisation sentence): every peak keeps its mass, its
abundance is multiplied by the requested abundance -- after division by the total when the total is what is requested -- and
mass and abundance are rounded on request.  From that (lemmas, induction on the number of peaks): in sum mode the total of the
result IS the requested abundance; in peak mode a pattern whose largest peak is 1 gets the requested abundance as its largest peak."""
ALIASES = {'Peak': 'Tuple[real,real]', 'Peaks': 'List[Tuple[real,real]]'}
C = {}
ISO = 'peptacular.isotope:'
# ASUM(L, k): total abundance of the first k peaks; SSUM(L, c, d, k): total of abundance / d * c over the first k peaks
FUNCS = {'ASUM': (['Peaks', 'int'], 'real'), 'SCSUM': (['Peaks', 'real', 'real', 'int'], 'real')}
AXIOMS = [
    ('ASUM-0', 'forall(lambda L=Peaks: ASUM(L, 0) == 0)'),
    ('ASUM-step', 'forall(lambda L=Peaks, k=int: implies(k >= 0, ASUM(L, k + 1) == ASUM(L, k) + L[k][1]))'),
    ('SCSUM-0', 'forall(lambda L=Peaks, c=real, d=real: SCSUM(L, c, d, 0) == 0)'),
    ('SCSUM-step', 'forall(lambda L=Peaks, c=real, d=real, k=int: implies(k >= 0, SCSUM(L, c, d, k + 1) == SCSUM(L, c, d, k) + L[k][1] / d * c))'),
]
INDUCTIVE_LEMMAS = [
    # scaling every term scales the sum
    ('scaled-sum-is-the-scaled-total', 'k', 'forall(lambda L=Peaks, c=real, d=real: implies(d != 0, SCSUM(L, c, d, k) == ASUM(L, k) / d * c))'),
    # two peak lists with the same abundances up to k have the same partial total
    ('ASUM-reads-only-its-prefix', 'k', 'forall(lambda L1=Peaks, L2=Peaks: implies(forall(lambda j: implies(0 <= j and j < k, L1[j][1] == L2[j][1])), '
                                        'ASUM(L1, k) == ASUM(L2, k)))'),
    # ... and if every abundance of L2 is that of L1 divided by d times c, its partial total is the scaled partial total
    ('pointwise-scaled-list-has-the-scaled-sum', 'k', 'forall(lambda L1=Peaks, L2=Peaks, c=real, d=real: implies(forall(lambda j: implies(0 <= j and j < k, '
                                                       'L2[j][1] == L1[j][1] / d * c)), ASUM(L2, k) == SCSUM(L1, c, d, k)))'),
]
_TOTAL = 'psum(lambda pk: pk[1], isotopes, len(isotopes))'
C[ISO + '_scale_isotope_abundances'] = dict(
    params=dict(isotopes='Peaks', distribution_abundance='real', is_abundance_sum='bool', precision='Optional[int]'), returns='Peaks', pure=True,
    raises={'ZeroDivisionError': 'is_abundance_sum and len(isotopes) > 0 and ' + _TOTAL + ' == 0'},
    ensures=[('one-peak-per-peak', 'len(result) == len(isotopes)'),
             ('masses-kept', 'forall(lambda k: implies(0 <= k and k < len(result), result[k][0] == (isotopes[k][0] if precision is None else '
                             'round(isotopes[k][0], some(precision)))))'),
             ('peak-mode-times-the-requested-abundance',
              'implies(not is_abundance_sum, forall(lambda k: implies(0 <= k and k < len(result), result[k][1] == '
              '(isotopes[k][1] * distribution_abundance if precision is None else round(isotopes[k][1] * distribution_abundance, some(precision))))))'),
             ('sum-mode-share-of-the-total-times-the-requested-abundance',
              'implies(is_abundance_sum, forall(lambda k: implies(0 <= k and k < len(result), result[k][1] == '
              '(isotopes[k][1] / ' + _TOTAL + ' * distribution_abundance if precision is None else '
              'round(isotopes[k][1] / ' + _TOTAL + ' * distribution_abundance, some(precision))))))')])
# consequences (over the contract): the normalisation sentence of C14
LEMMAS = [
    ('sum-mode-total-is-the-scaled-sum',
     'forall(lambda L=Peaks, R=Peaks, req=real, d=real: implies(len(R) == len(L) and '
     'forall(lambda k: implies(0 <= k and k < len(L), R[k][1] == L[k][1] / d * req)), ASUM(R, len(R)) == SCSUM(L, req, d, len(L))))',
     dict(uses=[('pointwise-scaled-list-has-the-scaled-sum', 'len(L)')])),
    ('sum-mode-total-equals-the-requested-abundance',
     'forall(lambda L=Peaks, R=Peaks, req=real: implies(ASUM(L, len(L)) != 0 and len(R) == len(L) and '
     'forall(lambda k: implies(0 <= k and k < len(L), R[k][1] == L[k][1] / ASUM(L, len(L)) * req)), ASUM(R, len(R)) == req))',
     dict(uses=[('scaled-sum-is-the-scaled-total', 'len(L)')], also=[('sum-mode-total-is-the-scaled-sum', dict(L='L', R='R', req='req', d='ASUM(L, len(L))'))])),
    ('peak-mode-largest-peak-equals-the-requested-abundance',
     'forall(lambda L=Peaks, R=Peaks, req=real, w=int: implies(req > 0 and len(R) == len(L) and 0 <= w and w < len(L) and L[w][1] == 1 and '
     'forall(lambda k: implies(0 <= k and k < len(L), L[k][1] <= 1 and R[k][1] == L[k][1] * req)), '
     'R[w][1] == req and forall(lambda k: implies(0 <= k and k < len(R), R[k][1] <= req))))'),
]

# ---------------------------------------------------------------- merging patterns (C14, last clause): abundances at equal masses add up
# INN(L, p, k, x): total abundance, among the first k peaks of pattern L, of those whose (rounded) mass is x;  OUT(D, p, s, x): the same
# summed over the first s patterns of D
MACROS = {'mkey': (['m', 'p'], '(m if p is None else round(m, some(p)))')}
FUNCS['INN'] = (['Peaks', 'Optional[int]', 'int', 'real'], 'real')
FUNCS['OUT'] = (['List[Peaks]', 'Optional[int]', 'int', 'real'], 'real')
AXIOMS += [
    ('INN-0', 'forall(lambda L=Peaks, p=Optional[int], x=real: INN(L, p, 0, x) == 0)'),
    ('INN-step', 'forall(lambda L=Peaks, p=Optional[int], k=int, x=real: implies(k >= 0, INN(L, p, k + 1, x) == INN(L, p, k, x) + (L[k][1] if mkey(L[k][0], p) == x else 0)))'),
    ('OUT-0', 'forall(lambda D=List[Peaks], p=Optional[int], x=real: OUT(D, p, 0, x) == 0)'),
    ('OUT-step', 'forall(lambda D=List[Peaks], p=Optional[int], s=int, x=real: implies(s >= 0, OUT(D, p, s + 1, x) == OUT(D, p, s, x) + INN(D[s], p, len(D[s]), x)))'),
]
_SEEN_OUT = 'exists(lambda d=int, k=int: 0 <= d and d < {s} and 0 <= k and k < len(distributions[d]) and mkey(distributions[d][k][0], precision) == x)'
_SEEN_INN = 'exists(lambda k=int: 0 <= k and k < {k} and mkey(distribution[k][0], precision) == x)'
C[ISO + 'merge_isotopic_distributions'] = dict(
    params=dict(distributions='List[Peaks]', precision='Optional[int]'), returns='Peaks', pure=True, raises={},
    locals=dict(merged_distribution='Dict[real,real]'), axioms=['INN-0', 'INN-step', 'OUT-0', 'OUT-step'],
    exit_lemmas=[('every-key-is-listed', 'forall(lambda x=real: implies(x in merged_distribution, exists(lambda i: 0 <= i and i < len(result) and result[i][0] == x)))'),
                 ('every-peak-has-its-key', 'forall(lambda d=int, k=int: implies(0 <= d and d < len(distributions) and 0 <= k and k < len(distributions[d]), '
                                            'mkey(distributions[d][k][0], precision) in merged_distribution))')],
    ensures=[('sorted-by-mass-each-mass-once', 'forall(lambda i, j: implies(0 <= i and i < j and j < len(result), result[i][0] < result[j][0]))'),
             ('abundance-at-a-mass-is-the-total-over-all-peaks-there',
              'forall(lambda i: implies(0 <= i and i < len(result), result[i][1] == OUT(distributions, precision, len(distributions), result[i][0])))'),
             ('every-listed-mass-comes-from-a-peak', 'forall(lambda i: implies(0 <= i and i < len(result), ' + _SEEN_OUT.format(s='len(distributions)').replace('== x)', '== result[i][0])') + '))'),
             ('every-peak-is-listed', 'forall(lambda d=int, k=int: implies(0 <= d and d < len(distributions) and 0 <= k and k < len(distributions[d]), '
                                      'exists(lambda i: 0 <= i and i < len(result) and result[i][0] == mkey(distributions[d][k][0], precision))))')],
    invariants={
        0: [('keys', 'forall(lambda x=real: (x in merged_distribution) == ' + _SEEN_OUT.format(s='_k0') + ')'),
            ('totals', 'forall(lambda x=real: implies(x in merged_distribution, merged_distribution[x] == OUT(distributions, precision, _k0, x)))'),
            ('nothing-at-unseen-masses', 'forall(lambda x=real: implies(not (x in merged_distribution), OUT(distributions, precision, _k0, x) == 0))')],
        1: [('keys', 'forall(lambda x=real: (x in merged_distribution) == (' + _SEEN_OUT.format(s='_k0') + ' or ' + _SEEN_INN.format(k='_k1') + '))'),
            ('totals', 'forall(lambda x=real: implies(x in merged_distribution, merged_distribution[x] == OUT(distributions, precision, _k0, x) + INN(distribution, precision, _k1, x)))'),
            ('nothing-at-unseen-masses', 'forall(lambda x=real: implies(not (x in merged_distribution), OUT(distributions, precision, _k0, x) + INN(distribution, precision, _k1, x) == 0))')],
    },
)

# ---------------------------------------------------------------- the convolution of two patterns (C14: the algebra behind "its abundance-weighted mean equals
# the average mass"): without pruning (no isotope limit, no abundance threshold) the TOTAL abundance of the convolved pattern is the product of
# the two totals -- every pair of peaks contributes its product, at whatever mass key it lands.  Finite sums over the peak dictionaries are
# VS(d, S) (over the keys in S) / VT(d) (all keys), defined by empty / insert equations (A-FINSUM) + A-FINSUM-UPDATE for a store.
ALIASES['Dist'] = 'Dict[real,real]'
FUNCS.update({'VS': (['Dist', 'Set[real]'], 'real'), 'VT': (['Dist'], 'real')})
AXIOMS += [
    ('VS-empty', 'forall(lambda d=Dist: VS(d, set()) == 0)'),
    ('VS-insert', 'forall(lambda d=Dist, S=Set[real], k=real: implies(not (k in S), VS(d, set_add(S, k)) == VS(d, S) + d[k]))'),
    ('VT-def', 'forall(lambda d=Dist: VT(d) == VS(d, set(d)))'),
    ('A-FINSUM-UPDATE/VT', 'forall(lambda d=Dist, k=real, x=real: VT(dict_set(d, k, x)) == VT(d) + (x - d.get(k, 0)))'),
    # MS / MT: the mass-weighted sums (first moment): sum of key x value
    ('MS-empty', 'forall(lambda d=Dist: MS(d, set()) == 0)'),
    ('MS-insert', 'forall(lambda d=Dist, S=Set[real], k=real: implies(not (k in S), MS(d, set_add(S, k)) == MS(d, S) + k * d[k]))'),
    ('MT-def', 'forall(lambda d=Dist: MT(d) == MS(d, set(d)))'),
    ('A-FINSUM-UPDATE/MT', 'forall(lambda d=Dist, k=real, x=real: MT(dict_set(d, k, x)) == MT(d) + k * (x - d.get(k, 0)))'),
]
FUNCS.update({'MS': (['Dist', 'Set[real]'], 'real'), 'MT': (['Dist'], 'real')})
C['peptacular.isotope:_convolve_distributions'] = dict(
    params=dict(dist1='Dist', dist2='Dist', max_isotopes='Optional[int]', min_abundance_threshold='Optional[real]', distribution_resolution='Optional[int]'),
    returns='Dist', pure=True, locals=dict(result='Dist'), axioms=['VS-empty', 'VS-insert', 'VT-def', 'A-FINSUM-UPDATE/VT', 'MS-empty', 'MS-insert', 'MT-def', 'A-FINSUM-UPDATE/MT'],
    requires=[('no-pruning', 'max_isotopes is None and min_abundance_threshold is None'),
              ('abundances-are-not-negative', 'forall(lambda k=real: implies(k in dist1, dist1[k] >= 0)) and forall(lambda k=real: implies(k in dist2, dist2[k] >= 0))')],
    ensures=[('total-abundance-is-the-product-of-the-totals', 'VT(result) == VT(dist1) * VT(dist2)'),
             # without rounding of the mass keys the first moments ADD: mean(result) = mean(dist1) + mean(dist2) after dividing by the totals
             ('mass-weighted-sum-adds', 'implies(distribution_resolution is None, MT(result) == MT(dist1) * VT(dist2) + VT(dist1) * MT(dist2))')],
    invariants={0: [('rows-so-far', 'VT(result) == VS(dist1, _seen0) * VT(dist2)'),
                    ('moment-rows-so-far', 'implies(distribution_resolution is None, MT(result) == MS(dist1, _seen0) * VT(dist2) + VS(dist1, _seen0) * MT(dist2))')],
                1: [('row-so-far', 'VT(result) == VT(result_at1) + abundance1 * VS(dist2, _seen1)'),
                    ('moment-row-so-far', 'implies(distribution_resolution is None, MT(result) == MT(result_at1) + abundance1 * (mass1 * VS(dist2, _seen1) + MS(dist2, _seen1)))')]},
)
