"""Sidecar contracts for ProFormaAnnotation index maps (property C11; used by C07/C04/C18): slice, shift, reverse."""
from contracts._records import RECORDS, CLASSES, CTORS, PA, accessor_contracts
ALIASES = {}
# CNT(intervals, a, b, k): how many of the first k intervals lie fully inside [a, b)  (recursive counting fold)
FUNCS = {'CNT': (['List[Interval]', 'int', 'int', 'int'], 'int')}
AXIOMS = [
    ('CNT-0', 'forall(lambda L=List[Interval], a=int, b=int: CNT(L, a, b, 0) == 0)'),
    ('CNT-step', 'forall(lambda L=List[Interval], a=int, b=int, k=int: implies(k >= 0, CNT(L, a, b, k + 1) == CNT(L, a, b, k) + '
                 'ite(a <= L[k].start and some(L[k].end) <= b, 1, 0)))'),
]
C = accessor_contracts()

# ---------------------------------------------------------------- representation invariant and helpers
MACROS = {
    'im_has': (['x', 'j'], 'x._internal_mods is not None and (j in some(x._internal_mods))'),
    'im_at': (['x', 'j'], 'some(x._internal_mods)[j]'),
    'ivs': (['x'], 'some(x._intervals)'),
    # WF(a): residue-modification keys inside the sequence; intervals end-exclusive, non-empty, inside the sequence
    'wf': (['x'], '(x._internal_mods is None or forall(lambda k: implies(k in some(x._internal_mods), 0 <= k and k < len(x._sequence))))'
                  ' and (x._intervals is None or forall(lambda i: implies(0 <= i and i < len(ivs(x)), ivs(x)[i].end is not None'
                  ' and 0 <= ivs(x)[i].start and ivs(x)[i].start < some(ivs(x)[i].end) and some(ivs(x)[i].end) <= len(x._sequence))))'),
    'same_globals': (['r', 'x'], 'r._isotope_mods == x._isotope_mods and r._static_mods == x._static_mods and r._labile_mods == x._labile_mods'
                                 ' and r._unknown_mods == x._unknown_mods and r._charge == x._charge and r._charge_adducts == x._charge_adducts'),
}

# slice: what the statement says about the result R of slicing self at [a, b)
_SLICE_POST = [
    ('residues', 'R._sequence == self._sequence[a:b]'),
    # "keeps exactly the residues, residue modifications ... of that range"
    ('residue-mods-exactly', 'forall(lambda j: im_has(R, j) == (0 <= j and j < b - a and im_has(self, j + a)))'),
    ('residue-mods-values', 'forall(lambda j: implies(im_has(R, j), im_at(R, j) == im_at(self, j + a)))'),
    # "... and fully contained intervals of that range" (re-indexed), and no other interval
    ('intervals-count', '(R._intervals is None) == (self._intervals is None or CNT(ivs(self), a, b, len(ivs(self))) == 0) and '
                        '(R._intervals is None or len(ivs(R)) == CNT(ivs(self), a, b, len(ivs(self))))'),
    # the k-th interval of self, if fully inside [a, b), is interval number CNT(k) of the result, re-indexed (order kept, nothing else)
    ('intervals-exactly', 'self._intervals is None or forall(lambda k: implies(0 <= k and k < len(ivs(self)) and a <= ivs(self)[k].start and '
                          'some(ivs(self)[k].end) <= b, R._intervals is not None and ivs(R)[CNT(ivs(self), a, b, k)] == '
                          'Interval(ivs(self)[k].start - a, some(ivs(self)[k].end) - a, ivs(self)[k].ambiguous, ivs(self)[k].mods)))'),
    ('no-empty-interval-list', 'R._intervals is None or len(ivs(R)) > 0'),
    # terminal modifications only with the terminus
    ('nterm-iff-start', 'R._nterm_mods == (self._nterm_mods if a == 0 else None)'),
    ('cterm-iff-end', 'R._cterm_mods == (self._cterm_mods if b == n else None)'),
    ('globals-kept', 'same_globals(R, self)'),
]

_CONT = 'a <= ivs(self)[k].start and some(ivs(self)[k].end) <= b'
_SLICE_LEMMAS = [
    ('L1-count-at-exit', 'implies(self._intervals is not None and new_intervals is not None, len(some(new_intervals)) == CNT(ivs(self), a, b, len(ivs(self))))'),
    ('L2-contained-implies-kept', 'implies(self._intervals is not None, forall(lambda k: implies(0 <= k and k < len(ivs(self)) and ' + _CONT + ','
                                  ' new_intervals is not None and 0 <= CNT(ivs(self), a, b, k) and CNT(ivs(self), a, b, k) < len(some(new_intervals)))))'),
    ('L3-kept-values', 'implies(self._intervals is not None, forall(lambda k: implies(0 <= k and k < len(ivs(self)) and ' + _CONT + ','
                       ' some(new_intervals)[CNT(ivs(self), a, b, k)] == Interval(ivs(self)[k].start - a, some(ivs(self)[k].end) - a, ivs(self)[k].ambiguous, ivs(self)[k].mods))))'),
]
C[PA + 'slice'] = dict(
    exit_lemmas=_SLICE_LEMMAS,
    params=dict(self='Annotation', start='Optional[int]', stop='Optional[int]', inplace='bool'),
    returns='Optional[Annotation]',
    locals=dict(new_internal_mods='Optional[Dict[int,ModList]]', new_intervals='Optional[List[Interval]]'),
    ghost=dict(n='len(self._sequence)', a='0 if start is None else some(start)', b='len(self._sequence) if stop is None else some(stop)'),
    requires=[('range', '0 <= a and a <= b and b <= n'), ('wf', 'wf(self)'),
              # C11 quantifier: the slice ends do not fall strictly inside an interval
              ('cuts-not-inside-interval', 'self._intervals is None or forall(lambda i: implies(0 <= i and i < len(ivs(self)),'
               ' not (ivs(self)[i].start < a and a < some(ivs(self)[i].end)) and not (ivs(self)[i].start < b and b < some(ivs(self)[i].end))))')],
    ensures=[('returns-new-or-none', '(result is None) == inplace')] +
            [(l + '/new', 'implies(not inplace, ' + t.replace('R', 'some(result)') + ')') for l, t in _SLICE_POST] +
            [(l + '/inplace', 'implies(inplace, ' + t.replace('R', 'self_final') + ')') for l, t in _SLICE_POST] +
            [('argument-unchanged', 'implies(not inplace, self_final == self)'),
             ('wf-result', 'implies(not inplace, wf(some(result)))')],
    invariants={
        0: [('is-dict', 'new_internal_mods is not None'),
            ('moved-so-far', 'forall(lambda j: (j in some(new_internal_mods)) == (0 <= j and j < b - a and ((j + a) in _seen0)))'),
            ('values', 'forall(lambda j: implies(j in some(new_internal_mods), some(new_internal_mods)[j] == im_at(self, j + a)))')],
        1: [('is-list', 'new_intervals is not None and len(some(new_intervals)) == CNT(ivs(self), a, b, _k1)'),
            ('kept-so-far', 'forall(lambda k: implies(0 <= k and k < _k1 and a <= ivs(self)[k].start and some(ivs(self)[k].end) <= b,'
                            ' 0 <= CNT(ivs(self), a, b, k) and CNT(ivs(self), a, b, k) < len(some(new_intervals)) and some(new_intervals)[CNT(ivs(self), a, b, k)] == '
                            'Interval(ivs(self)[k].start - a, some(ivs(self)[k].end) - a, ivs(self)[k].ambiguous, ivs(self)[k].mods)))'),
            ('kept-wf', 'forall(lambda i: implies(0 <= i and i < len(some(new_intervals)), some(new_intervals)[i].end is not None and '
                        '0 <= some(new_intervals)[i].start and some(new_intervals)[i].start < some(some(new_intervals)[i].end) and '
                        'some(some(new_intervals)[i].end) <= b - a))')],
    },
)

# slice wherever the cuts fall (also strictly inside an interval -- what digest() does to a protein with an ambiguity interval, C07):
# the result is a WELL-FORMED peptide (every interval non-empty and inside the new residue string, so its text can be written and
# read back), with the residues, residue modifications, terminal modifications and global annotations of the range
_ANY_POST = [(l, t) for l, t in _SLICE_POST if l in ('residues', 'residue-mods-exactly', 'residue-mods-values', 'no-empty-interval-list',
                                                     'nterm-iff-start', 'cterm-iff-end', 'globals-kept')] + \
            [('well-formed-result', 'wf(R)'),
             # every interval of the result is an interval of the peptide clipped to the range and re-indexed, with its own modifications
             ('intervals-are-clipped-intervals', 'R._intervals is None or (self._intervals is not None and forall(lambda i: implies(0 <= i and i < len(ivs(R)), '
              'exists(lambda k: 0 <= k and k < len(ivs(self)) and ivs(R)[i].start == ite(ivs(self)[k].start > a, ivs(self)[k].start - a, 0) and '
              'some(ivs(R)[i].end) == ite(some(ivs(self)[k].end) < b, some(ivs(self)[k].end) - a, b - a) and '
              'ivs(R)[i].mods == ivs(self)[k].mods and ivs(R)[i].ambiguous == ivs(self)[k].ambiguous))))')]
_CLIP_INV = ('forall(lambda i: implies(0 <= i and i < len(some(new_intervals)), '
             'exists(lambda k: 0 <= k and k < _k1 and some(new_intervals)[i].start == ite(ivs(self)[k].start > a, ivs(self)[k].start - a, 0) and '
             'some(some(new_intervals)[i].end) == ite(some(ivs(self)[k].end) < b, some(ivs(self)[k].end) - a, b - a) and '
             'some(new_intervals)[i].mods == ivs(self)[k].mods and some(new_intervals)[i].ambiguous == ivs(self)[k].ambiguous)))')
C[PA + 'slice@anycut'] = dict(
    params=dict(self='Annotation', start='Optional[int]', stop='Optional[int]', inplace='bool'),
    returns='Optional[Annotation]',
    locals=dict(new_internal_mods='Optional[Dict[int,ModList]]', new_intervals='Optional[List[Interval]]'),
    ghost=dict(n='len(self._sequence)', a='0 if start is None else some(start)', b='len(self._sequence) if stop is None else some(stop)'),
    requires=[('range', '0 <= a and a <= b and b <= n'), ('wf', 'wf(self)'),
              # an EMPTY slice taken strictly inside an interval keeps that interval as an empty one (0, 0): outside this contract
              ('empty-slice-not-inside-an-interval', 'a < b or self._intervals is None or forall(lambda i: implies(0 <= i and i < len(ivs(self)),'
               ' not (ivs(self)[i].start < a and a < some(ivs(self)[i].end))))')],
    ensures=[('returns-new-or-none', '(result is None) == inplace')] +
            [(l + '/new', 'implies(not inplace, ' + t.replace('R', 'some(result)') + ')') for l, t in _ANY_POST] +
            [(l + '/inplace', 'implies(inplace, ' + t.replace('R', 'self_final') + ')') for l, t in _ANY_POST] +
            [('argument-unchanged', 'implies(not inplace, self_final == self)')],
    invariants={
        0: C[PA + 'slice']['invariants'][0],
        1: [('is-list', 'new_intervals is not None'),
            ('kept-wf', C[PA + 'slice']['invariants'][1][2][1]),
            ('kept-are-clipped', _CLIP_INV)],
    },
)

# ---------------------------------------------------------------- shift
# rot(p): where residue p ends up = (p - k) mod n, written without `mod` for 0 <= p < n and es = k mod n in [0, n)
MACROS['rot'] = (['p', 'es', 'n'], 'ite(p >= es, p - es, p - es + n)')
_IVROT = ('Interval(rot(ivs(self)[k].start, ES_, NN_), rot(ivs(self)[k].start, ES_, NN_) + (some(ivs(self)[k].end) - ivs(self)[k].start),'
          ' ivs(self)[k].ambiguous, ivs(self)[k].mods)')
_NOWRAP = 'rot(ivs(self)[k].start, ES_, NN_) + (some(ivs(self)[k].end) - ivs(self)[k].start) <= NN_'
_SHIFT_POST = [
    # residue p moves to position (p - k) mod n  (written as the rotation of the residue string)
    ('residues-rotated', 'R._sequence == self._sequence[ES_:] + self._sequence[:ES_]'),
    # "every residue keeps its own modifications": the modifications of residue p sit on (p - k) mod n afterwards, and there
    # are no other residue modifications
    ('mods-move-with-residue', 'forall(lambda p: implies(0 <= p and p < NN_, im_has(R, rot(p, ES_, NN_)) == im_has(self, p)))'),
    ('mods-values', 'forall(lambda p: implies(0 <= p and p < NN_ and im_has(self, p), im_at(R, rot(p, ES_, NN_)) == im_at(self, p)))'),
    ('no-other-mods', 'forall(lambda j: implies(im_has(R, j), 0 <= j and j < NN_))'),
    # "global and terminal annotations stay in place"
    ('termini-stay', 'R._nterm_mods == self._nterm_mods and R._cterm_mods == self._cterm_mods'),
    ('globals-kept', 'same_globals(R, self)'),
    # (intervals under a shift: the statement promises nothing beyond the identities; the clause "an interval that does not
    #  wrap keeps its residues" is checked by the bounded tier only -- its VC stays undecided in z3/cvc5 within 40 s)
]


def _inst(t, R, es, nn):
    return t.replace('ES_', es).replace('NN_', nn).replace('R.', R + '.').replace('(R,', '(' + R + ',').replace('(R)', '(' + R + ')')


C[PA + 'shift'] = dict(
    params=dict(self='Annotation', n='int', inplace='bool'),
    returns='Optional[Annotation]',
    locals=dict(new_internal_mods='Optional[Dict[int,ModList]]', new_intervals='Optional[List[Interval]]'),
    ghost=dict(es='n % len(self._sequence)', L='len(self._sequence)'),
    requires=[('non-empty', 'len(self._sequence) >= 1'), ('wf', 'wf(self)')],
    ensures=[('returns-new-or-none', '(result is None) == inplace')] +
            [(l + '/new', 'implies(not inplace, ' + _inst(t, 'some(result)', 'es', 'L') + ')') for l, t in _SHIFT_POST] +
            [(l + '/inplace', 'implies(inplace, ' + _inst(t, 'self_final', 'es', 'L') + ')') for l, t in _SHIFT_POST] +
            [('argument-unchanged', 'implies(not inplace, self_final == self)')],
    invariants={
        0: [('is-dict', 'new_internal_mods is not None and effective_shift == es and seq_len == L'),
            ('moved-so-far', 'forall(lambda p: implies(0 <= p and p < L, (rot(p, es, L) in some(new_internal_mods)) == (p in _seen0)))'),
            ('values', 'forall(lambda p: implies(0 <= p and p < L and (p in _seen0), some(new_internal_mods)[rot(p, es, L)] == im_at(self, p)))'),
            ('in-range', 'forall(lambda j: implies(j in some(new_internal_mods), 0 <= j and j < L))')],
        1: [('is-list', 'new_intervals is not None and effective_shift == es and seq_len == L')],
    },
)

# ---------------------------------------------------------------- reverse
_IVREV = 'Interval(n - some(ivs(self)[k].end), n - ivs(self)[k].start, ivs(self)[k].ambiguous, ivs(self)[k].mods)'
_REV_POST = [
    ('residues-reversed', 'R._sequence == self._sequence[::-1]'),
    # every residue keeps its own modifications: residue p sits at n-1-p afterwards
    ('mods-move-with-residue', 'forall(lambda p: implies(0 <= p and p < n, im_has(R, n - 1 - p) == im_has(self, p)))'),
    ('mods-values', 'forall(lambda p: implies(0 <= p and p < n and im_has(self, p), im_at(R, n - 1 - p) == im_at(self, p)))'),
    ('no-other-mods', 'forall(lambda j: implies(im_has(R, j), 0 <= j and j < n))'),
    # "ambiguity intervals still cover the same residues after a reversal": [s, e) -> [n - e, n - s)
    ('intervals-cover-same-residues', '(R._intervals is None) == (self._intervals is None) and (self._intervals is None or (len(ivs(R)) == len(ivs(self)) and '
                                      'forall(lambda k: implies(0 <= k and k < len(ivs(self)), ivs(R)[len(ivs(self)) - 1 - k] == ' + _IVREV + '))))'),
    # ... and stay in sequence order (the serializer writes the brackets in list order)
    ('intervals-stay-in-sequence-order', 'implies(self._intervals is not None, forall(lambda j, k: implies(0 <= j and j < k and k < len(ivs(self)) and '
                                         'ivs(self)[j].end is not None and some(ivs(self)[j].end) <= ivs(self)[k].start, '
                                         'some(ivs(R)[len(ivs(self)) - 1 - k].end) <= ivs(R)[len(ivs(self)) - 1 - j].start)))'),
    # "global and terminal annotations stay in place (or swap when asked)"
    ('termini-stay-or-swap', 'R._nterm_mods == (self._cterm_mods if swap_terms else self._nterm_mods) and '
                             'R._cterm_mods == (self._nterm_mods if swap_terms else self._cterm_mods)'),
    ('globals-kept', 'same_globals(R, self)'),
]
C[PA + 'reverse'] = dict(
    params=dict(self='Annotation', inplace='bool', swap_terms='bool'),
    returns='Optional[Annotation]',
    locals=dict(new_internal_mods='Optional[Dict[int,ModList]]', new_intervals='Optional[List[Interval]]'),
    ghost=dict(n='len(self._sequence)'),
    requires=[('wf', 'wf(self)')],
    ensures=[('returns-new-or-none', '(result is None) == inplace')] +
            [(l + '/new', 'implies(not inplace, ' + _inst(t, 'some(result)', 'es', 'n') + ')') for l, t in _REV_POST] +
            [(l + '/inplace', 'implies(inplace, ' + _inst(t, 'self_final', 'es', 'n') + ')') for l, t in _REV_POST] +
            [('argument-unchanged', 'implies(not inplace, self_final == self)')],
    invariants={
        0: [('is-dict', 'new_internal_mods is not None'),
            ('moved-so-far', 'forall(lambda p: implies(0 <= p and p < n, ((n - 1 - p) in some(new_internal_mods)) == (p in _seen0)))'),
            ('values', 'forall(lambda p: implies(0 <= p and p < n and (p in _seen0), some(new_internal_mods)[n - 1 - p] == im_at(self, p)))'),
            ('in-range', 'forall(lambda j: implies(j in some(new_internal_mods), 0 <= j and j < n))')],
        1: [('is-list', 'new_intervals is not None and len(some(new_intervals)) == _k1'),
            ('moved-so-far', 'forall(lambda k: implies(0 <= k and k < _k1, some(new_intervals)[k] == ' + _IVREV + '))')],
    },
)
