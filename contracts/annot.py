"""Sidecar contracts for ProFormaAnnotation index maps (property C11; used by C07/C04/C18): slice, shift, reverse."""
from contracts._records import RECORDS, CLASSES, CTORS, PA, accessor_contracts
ALIASES = {}
C = accessor_contracts()

# ---------------------------------------------------------------- representation invariant and helpers
MACROS = {
    'im_has': (['x', 'j'], 'x._internal_mods is not None and (j in some(x._internal_mods))'),
    'im_at': (['x', 'j'], 'some(x._internal_mods)[j]'),
    'ivs': (['x'], 'some(x._intervals)'),
    # WF(a): residue-modification keys inside the sequence; intervals end-exclusive, non-empty, inside the sequence
    'wf': (['x'], '(x._internal_mods is None or forall(lambda k: implies(k in some(x._internal_mods), 0 <= k and k < len(x._sequence))))'
                  ' and (x._intervals is None or forall(lambda i: implies(0 <= i and i < len(ivs(x)), ivs(x)[i].end is not None'
                  ' and 0 <= ivs(x)[i].start and ivs(x)[i].start < some(ivs(x)[i].end) and some(ivs(x)[i].end) <= len(x._sequence))))'),
    'same_globals': (['r', 'x'], 'r._isotope_mods == x._isotope_mods and r._static_mods == x._static_mods and r._labile_mods == x._labile_mods'
                                 ' and r._unknown_mods == x._unknown_mods and r._charge == x._charge and r._charge_adducts == x._charge_adducts'),
}

# slice: what the statement says about the result R of slicing self at [a, b)
_SLICE_POST = [
    ('residues', 'R._sequence == self._sequence[a:b]'),
    # "keeps exactly the residues, residue modifications ... of that range"
    ('residue-mods-exactly', 'forall(lambda j: im_has(R, j) == (0 <= j and j < b - a and im_has(self, j + a)))'),
    ('residue-mods-values', 'forall(lambda j: implies(im_has(R, j), im_at(R, j) == im_at(self, j + a)))'),
    # "... and fully contained intervals of that range" (re-indexed), and no other interval
    ('intervals-exactly', 'forall(lambda iv=Interval: (R._intervals is not None and (iv in ivs(R))) == (self._intervals is not None and exists(lambda k: '
                          '0 <= k and k < len(ivs(self)) and a <= ivs(self)[k].start and some(ivs(self)[k].end) <= b and '
                          'iv == Interval(ivs(self)[k].start - a, some(ivs(self)[k].end) - a, ivs(self)[k].ambiguous, ivs(self)[k].mods))))'),
    ('no-empty-interval-list', 'R._intervals is None or len(ivs(R)) > 0'),
    # terminal modifications only with the terminus
    ('nterm-iff-start', 'R._nterm_mods == (self._nterm_mods if a == 0 else None)'),
    ('cterm-iff-end', 'R._cterm_mods == (self._cterm_mods if b == n else None)'),
    ('globals-kept', 'same_globals(R, self)'),
]

C[PA + 'slice'] = dict(
    params=dict(self='Annotation', start='Optional[int]', stop='Optional[int]', inplace='bool'),
    returns='Optional[Annotation]',
    locals=dict(new_internal_mods='Optional[Dict[int,ModList]]', new_intervals='Optional[List[Interval]]'),
    ghost=dict(n='len(self._sequence)', a='0 if start is None else some(start)', b='len(self._sequence) if stop is None else some(stop)'),
    requires=[('range', '0 <= a and a <= b and b <= n'), ('wf', 'wf(self)'),
              # C11 quantifier: the slice ends do not fall strictly inside an interval
              ('cuts-not-inside-interval', 'self._intervals is None or forall(lambda i: implies(0 <= i and i < len(ivs(self)),'
               ' not (ivs(self)[i].start < a and a < some(ivs(self)[i].end)) and not (ivs(self)[i].start < b and b < some(ivs(self)[i].end))))')],
    ensures=[('returns-new-or-none', '(result is None) == inplace')] +
            [(l + '/new', 'implies(not inplace, ' + t.replace('R', 'some(result)') + ')') for l, t in _SLICE_POST] +
            [(l + '/inplace', 'implies(inplace, ' + t.replace('R', 'self_final') + ')') for l, t in _SLICE_POST] +
            [('argument-unchanged', 'implies(not inplace, self_final == self)'),
             ('wf-result', 'implies(not inplace, wf(some(result)))')],
    invariants={
        0: [('is-dict', 'new_internal_mods is not None'),
            ('moved-so-far', 'forall(lambda j: (j in some(new_internal_mods)) == (0 <= j and j < b - a and ((j + a) in _seen0)))'),
            ('values', 'forall(lambda j: implies(j in some(new_internal_mods), some(new_internal_mods)[j] == im_at(self, j + a)))')],
        1: [('is-list', 'new_intervals is not None'),
            ('kept-wf', 'forall(lambda i: implies(0 <= i and i < len(some(new_intervals)), some(new_intervals)[i].end is not None and '
                        '0 <= some(new_intervals)[i].start and some(new_intervals)[i].start < some(some(new_intervals)[i].end) and '
                        'some(some(new_intervals)[i].end) <= b - a))'),
            ('kept-so-far', 'forall(lambda iv=Interval: (iv in some(new_intervals)) == exists(lambda k: 0 <= k and k < _k1 and a <= ivs(self)[k].start'
                            ' and some(ivs(self)[k].end) <= b and iv == Interval(ivs(self)[k].start - a, some(ivs(self)[k].end) - a,'
                            ' ivs(self)[k].ambiguous, ivs(self)[k].mods)))')],
    },
)
