"""Sidecar contract for score.get_fragment_matches (property C17, third sentence: "Fragment matches built from these pair each fragment with
those peaks"), for inputs ALREADY IN ORDER: fragments in non-decreasing m/z, observed peaks in non-decreasing m/z with one intensity each.
Then (LC-SORT-STABLE: a stable sort returns an already sorted list element for element) the function matches the fragments' m/z values
against the peaks with match_spectra (its contract: proved in contracts/score.py) and returns

    mode 'all'      exactly one match (fragment i, m/z and intensity of peak j) for every pair with peak j within the tolerance of fragment i,
    mode 'closest'  for every fragment with a peak in tolerance one match, with a peak in tolerance at minimal distance,
    mode 'largest'  ... with a peak in tolerance of maximal intensity,

and nothing else; an empty spectrum gives no match.  "... regardless of input order" (the permutation a sort applies to unsorted input) is not
modelled here: bounded/C17.py runs every input order of small fragment / peak sets."""
from contracts import score as _s
ALIASES = {}
RECORDS = {'Frag': dict(mz='real', tag='int'), 'FM': dict(fragment='Frag', mz='real', intensity='real')}
CTORS = {'FragmentMatch': 'FM'}
MACROS = dict(_s.MACROS)
SC = 'peptacular.score:'
C = {}
for _mode in ('all', 'closest', 'largest'):
    _c = dict(_s.C[SC + 'match_spectra@' + _mode])
    for _k in ('invariants', 'locals', 'canary', 'decreases', 'exit_lemmas'):
        _c.pop(_k, None)
    _pp = dict(_c['params'])
    _c['params'] = dict(fragments=_pp['fragments'], mz_spectra=_pp['mz_spectra'], tolerance_value=_pp['tolerance_value'],
                        tolerance_type=_pp['tolerance_type'], mode='str', intensity_spectra=_pp['intensity_spectra'])     # the real positional order
    C[SC + 'match_spectra@' + _mode] = dict(_c, trusted=True, pure=True, bounded_by='proved against this same contract in contracts/score.py (C17)')
_IN = ("abs(mz_spectra[j] - fragments[i].mz) <= ite(tolerance_type == 'th', tolerance_value, fragments[i].mz * tolerance_value / 1000000.0)")
_REQ = [('fragments-in-mz-order', 'forall(lambda j, k: implies(0 <= j and j <= k and k < len(fragments), fragments[j].mz <= fragments[k].mz))'),
        ('peaks-in-mz-order', 'forall(lambda j, k: implies(0 <= j and j <= k and k < len(mz_spectra), mz_spectra[j] <= mz_spectra[k]))'),
        ('one-intensity-per-peak', 'len(intensity_spectra) == len(mz_spectra)'),
        ('tolerance-nonneg', 'tolerance_value >= 0'),
        ('mz-nonneg', 'forall(lambda k: implies(0 <= k and k < len(fragments), fragments[k].mz >= 0)) and '
                      'forall(lambda k: implies(0 <= k and k < len(mz_spectra), mz_spectra[k] >= 0))')]
_PARAMS = dict(fragments='List[Frag]', mz_spectra='List[real]', intensity_spectra='List[real]', tolerance_value='real', tolerance_type='str', mode='str')
_FMIJ = 'FragmentMatch(fragments[i], mz_spectra[j], intensity_spectra[j])'
_RANGE = '0 <= i and i < len(fragments) and 0 <= j and j < len(mz_spectra)'
C[SC + 'get_fragment_matches@closest'] = dict(
    params=_PARAMS, specialize=dict(mode='closest'), returns='List[FM]', pure=True, callee_tag='closest',
    locals=dict(fragment_matches='List[FM]', fragment_spectrum='List[real]', indices='List[Optional[int]]'),
    requires=_REQ, raises={'ValueError': "tolerance_type != 'ppm' and tolerance_type != 'th'"}, raises_inexact=True,
    ensures=[('empty-spectrum-no-match', 'implies(len(mz_spectra) == 0, len(result) == 0)'),
             ('every-match-pairs-a-fragment-with-a-peak-in-tolerance-at-minimal-distance',
              'forall(lambda t=FM: implies(t in result, exists(lambda i, j: ' + _RANGE + ' and t == ' + _FMIJ + ' and ' + _IN + ' and '
              'forall(lambda q: implies(0 <= q and q < len(mz_spectra) and ' + _IN.replace('[j]', '[q]') + ', '
              'abs(fragments[i].mz - mz_spectra[j]) <= abs(fragments[i].mz - mz_spectra[q]))))))'),
             ('every-fragment-with-a-peak-in-tolerance-is-matched',
              'forall(lambda i, j: implies(' + _RANGE + ' and ' + _IN + ', exists(lambda q: 0 <= q and q < len(mz_spectra) and '
              'FragmentMatch(fragments[i], mz_spectra[q], intensity_spectra[q]) in result)))')],
    invariants={0: [('matches-so-far-are-chosen-peaks',
                     'forall(lambda t=FM: implies(t in fragment_matches, exists(lambda i: 0 <= i and i < _k0 and indices[i] is not None and '
                     't == FragmentMatch(fragments[i], mz_spectra[some(indices[i])], intensity_spectra[some(indices[i])]))))'),
                    ('chosen-peaks-so-far-are-matched',
                     'forall(lambda i: implies(0 <= i and i < _k0 and indices[i] is not None, '
                     'FragmentMatch(fragments[i], mz_spectra[some(indices[i])], intensity_spectra[some(indices[i])]) in fragment_matches))')]},
)
_INV_ONE = C[SC + 'get_fragment_matches@closest']['invariants']
C[SC + 'get_fragment_matches@largest'] = dict(
    C[SC + 'get_fragment_matches@closest'], specialize=dict(mode='largest'), callee_tag='largest',
    ensures=[('empty-spectrum-no-match', 'implies(len(mz_spectra) == 0, len(result) == 0)'),
             ('every-match-pairs-a-fragment-with-a-peak-in-tolerance-of-maximal-intensity',
              'forall(lambda t=FM: implies(t in result, exists(lambda i, j: ' + _RANGE + ' and t == ' + _FMIJ.replace('FM(', 'FragmentMatch(') + ' and ' + _IN + ' and '
              'forall(lambda q: implies(0 <= q and q < len(mz_spectra) and ' + _IN.replace('[j]', '[q]') + ', intensity_spectra[j] >= intensity_spectra[q])))))'),
             ('every-fragment-with-a-peak-in-tolerance-is-matched',
              'forall(lambda i, j: implies(' + _RANGE + ' and ' + _IN + ', exists(lambda q: 0 <= q and q < len(mz_spectra) and '
              'FragmentMatch(fragments[i], mz_spectra[q], intensity_spectra[q]) in result)))')])
_PK = 'some(indices[i])[p]'
C[SC + 'get_fragment_matches@all'] = dict(
    params=_PARAMS, specialize=dict(mode='all'), returns='List[FM]', pure=True, callee_tag='all',
    locals=dict(fragment_matches='List[FM]', fragment_spectrum='List[real]', indices='List[Optional[List[int]]]'),
    requires=_REQ, raises={'ValueError': "tolerance_type != 'ppm' and tolerance_type != 'th'"}, raises_inexact=True,
    exit_lemmas=[('sorting-changed-nothing', 'same(mz_spectra_exit, mz_spectra) and same(intensity_spectra_exit, intensity_spectra) and same(fragments_exit, fragments)'),
                 ('the-theoretical-values-are-the-fragments-mz', 'len(fragment_spectrum) == len(fragments) and '
                  'forall(lambda i: implies(0 <= i and i < len(fragments), fragment_spectrum[i] == fragments[i].mz))'),
                 ('in-tolerance-of-the-value-is-in-tolerance-of-the-fragment',
                  'forall(lambda i, j: implies(' + _RANGE + ', intol4(fragment_spectrum, mz_spectra, i, j) == (' + _IN + ')))'),
                 ('listed-peaks-are-peaks-in-tolerance-of-the-value',
                  'forall(lambda i, p: implies(0 <= i and i < len(indices) and indices[i] is not None and 0 <= p and p < len(some(indices[i])), '
                  '0 <= ' + _PK + ' and ' + _PK + ' < len(mz_spectra) and intol4(fragment_spectrum, mz_spectra, i, ' + _PK + ')))'),
                 ('listed-peaks-are-peaks-in-tolerance',
                  'forall(lambda i, p: implies(0 <= i and i < len(indices) and indices[i] is not None and 0 <= p and p < len(some(indices[i])), '
                  '0 <= ' + _PK + ' and ' + _PK + ' < len(mz_spectra) and ' + _IN.replace('[j]', '[' + _PK + ']') + '))'),
                 ('one-entry-per-fragment', 'len(indices) == len(fragments)')],
    ensures=[('empty-spectrum-no-match', 'implies(len(mz_spectra) == 0, len(result) == 0)'),
             ('every-match-pairs-a-fragment-with-a-peak-in-its-tolerance',
              'forall(lambda t=FM: implies(t in result, exists(lambda i, j: ' + _RANGE + ' and t == ' + _FMIJ.replace('FM(', 'FragmentMatch(') + ' and ' + _IN + ')))'),
             ('every-fragment-is-paired-with-every-peak-in-its-tolerance',
              'forall(lambda i, j: implies(' + _RANGE + ' and ' + _IN + ', ' + _FMIJ.replace('FM(', 'FragmentMatch(') + ' in result))')],
    invariants={0: [('matches-so-far-are-listed-peaks',
                     'forall(lambda t=FM: implies(t in fragment_matches, exists(lambda i, p: 0 <= i and i < _k0 and indices[i] is not None and '
                     '0 <= p and p < len(some(indices[i])) and t == FragmentMatch(fragments[i], mz_spectra[' + _PK + '], intensity_spectra[' + _PK + ']))))'),
                    ('listed-peaks-so-far-are-matched',
                     'forall(lambda i, p: implies(0 <= i and i < _k0 and indices[i] is not None and 0 <= p and p < len(some(indices[i])), '
                     'FragmentMatch(fragments[i], mz_spectra[' + _PK + '], intensity_spectra[' + _PK + ']) in fragment_matches))')],
                1: [('matches-so-far-are-listed-peaks',
                     'forall(lambda t=FM: implies(t in fragment_matches, exists(lambda i, p: 0 <= i and i <= _k0 and i < len(indices) and indices[i] is not None and '
                     '0 <= p and p < len(some(indices[i])) and (i < _k0 or p < _k1) and '
                     't == FragmentMatch(fragments[i], mz_spectra[' + _PK + '], intensity_spectra[' + _PK + ']))))'),
                    ('listed-peaks-so-far-are-matched',
                     'forall(lambda i, p: implies(0 <= i and i <= _k0 and i < len(indices) and indices[i] is not None and 0 <= p and p < len(some(indices[i])) and '
                     '(i < _k0 or p < _k1), FragmentMatch(fragments[i], mz_spectra[' + _PK + '], intensity_spectra[' + _PK + ']) in fragment_matches))')]},
)
