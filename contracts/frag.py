"""Sidecar contracts for peptacular.fragmentation (property C04): the fragmenter returns exactly one ion per requested
(ion type, span, charge, isotope, applicable loss), the spans being the n prefixes / n suffixes / strictly internal spans /
n one-residue spans, and every ion's mass, neutral mass and m/z are the mass calculator's value for that ion.

Lists whose order the statement does not speak about (spans, ion types, charges, isotopes, the result) are modelled as BAGS
(multisets): `count(result, f)` is the number of times ion f is returned.  adjust_mass / adjust_mz (proved in
contracts/masscalc.py), ProFormaAnnotation.slice (proved in contracts/annot.py), serialize and get_losses (regex) are pure
callees here: the ion values are stated as THEIR results on the ion's own span / type / charge / isotope / loss."""
from contracts._records import RECORDS as _R, CLASSES as _C, CTORS as _CT, PA, accessor_contracts
ALIASES = {'Span': 'Tuple[int,int,int]'}
RECORDS = dict(_R, Fragment=dict(charge='int', ion_type='str', start='int', end='int', monoisotopic='bool', isotope='int', loss='real',
                                 parent_sequence='Annotation', mass='real', neutral_mass='real', mz='real', sequence='str',
                                 unmod_sequence='str', internal='bool'),
               Fragmenter=dict(annotation='Annotation', monoisotopic='bool', components='Components', mass_components='List[real]'))
CLASSES = dict(_C, Fragment='peptacular.fragmentation:Fragment', Fragmenter='peptacular.fragmentation:Fragmenter')
CTORS = dict(_CT, Fragment='Fragment')
GLOBALS_FROM = {'peptacular.constants': ['FORWARD_ION_TYPES', 'BACKWARD_ION_TYPES', 'INTERNAL_ION_TYPES', 'TERMINAL_ION_TYPES']}
FR = 'peptacular.fragmentation:'
C = {k: v for k, v in accessor_contracts().items() if k.endswith('.sequence')}

# ---------------------------------------------------------------- callees (their own proofs live elsewhere)
C['peptacular.mass_calc:adjust_mass'] = dict(
    params=dict(base_mass='real', charge='Optional[int]', ion_type='str', monoisotopic='bool', isotope='int', loss='real',
                charge_adducts='Optional[str]', precision='Optional[int]'),
    returns='real', pure=True, trusted=True, bounded_by='proved against its own contract in contracts/masscalc.py (C02)', ensures=[])
C['peptacular.mass_calc:adjust_mz'] = dict(
    params=dict(base_mass='real', charge='Optional[int]', precision='Optional[int]'),
    returns='real', pure=True, trusted=True, bounded_by='proved against its own contract in contracts/masscalc.py (C02)', ensures=[])
C[PA + 'slice'] = dict(
    params=dict(self='Annotation', start='int', stop='int', inplace='bool'), returns='Annotation', pure=True, trusted=True,
    requires=[('range', '0 <= start and start <= stop and stop <= len(self._sequence)')],
    bounded_by='proved against its own contract in contracts/annot.py (C11); here only: a function of (annotation, start, stop)', ensures=[])
C[PA + 'serialize'] = dict(params=dict(self='Annotation', include_plus='bool'), returns='str', pure=True, trusted=True,
                           bounded_by='single-chain serializer: layout proved in contracts/serial.py (C01); parser-inverts-writer round trip bounded/C01.py', ensures=[])
C[PA + '__len__'] = dict(params=dict(self='Annotation'), returns='int', pure=True, ensures=[('residues', 'result == len(self._sequence)')])
C['peptacular.sequence.sequence_funcs:sequence_length'] = dict(
    params=dict(sequence='Annotation'), returns='int', pure=True, ensures=[('residues', 'result == len(sequence._sequence)')])
C[FR + 'get_losses'] = dict(
    params=dict(sequence='str', losses='List[Tuple[str,real]]', max_losses='int'), returns='Set[real]', pure=True, trusted=True,
    bounded_by='regular-expression matching of the loss rules: checked by bounded/C04.py (loss clause)', ensures=[])
_SP = 'peptacular.spans:'
C[_SP + 'build_left_semi_spans'] = dict(
    params=dict(span='Span', min_len='Optional[int]', max_len='Optional[int]'), returns='Bag[Span]', trusted=True,
    bounded_by='proved against this same contract in contracts/spans.py (C06)',
    ensures=[('left-semi-once', 'forall(lambda t=Span: count(yields, t) == ite(t[0] == span[0] and t[2] == span[2] and span[0] < t[1]'
                                ' and t[1] < span[1], 1, 0))')])
C[_SP + 'build_right_semi_spans'] = dict(
    params=dict(span='Span', min_len='Optional[int]', max_len='Optional[int]'), returns='Bag[Span]', trusted=True,
    bounded_by='proved against this same contract in contracts/spans.py (C06)',
    ensures=[('right-semi-once', 'forall(lambda t=Span: count(yields, t) == ite(t[1] == span[1] and t[2] == span[2] and span[0] < t[0]'
                                 ' and t[0] < span[1], 1, 0))')])
C[_SP + 'build_non_enzymatic_spans'] = dict(
    params=dict(span='Span', min_len='Optional[int]', max_len='Optional[int]'), returns='Bag[Span]', trusted=True,
    bounded_by='proved against this same contract in contracts/spans.py (C06)',
    ensures=[('every-proper-subspan-once', 'forall(lambda t=Span: count(yields, t) == ite(t[2] == 0 and span[0] <= t[0] and t[1] <= span[1]'
                                           ' and 1 <= t[1]-t[0] and t[1]-t[0] <= span[1]-span[0]-1, 1, 0))')])

# ---------------------------------------------------------------- the ion an entry of the result denotes
_BM = "adjust_mass(base_mass=sum(mass_components[f.start:f.end]), charge=0, ion_type='n', monoisotopic=monoisotopic)"
_SL = 'annotation.slice(f.start, f.end)'
MACROS = {
    # every derived field of ion f is the calculator's value for f's OWN span / type / charge / isotope / loss
    'derived': (['f'],
                'f.monoisotopic == monoisotopic and f.parent_sequence == annotation'
                ' and f.neutral_mass == adjust_mass(base_mass=' + _BM + ', charge=0, ion_type=f.ion_type, monoisotopic=monoisotopic, isotope=f.isotope, loss=f.loss)'
                ' and f.mass == adjust_mass(base_mass=' + _BM + ', charge=f.charge, ion_type=f.ion_type, monoisotopic=monoisotopic, precision=precision, isotope=f.isotope, loss=f.loss)'
                ' and f.mz == adjust_mz(base_mass=f.mass, charge=f.charge, precision=precision)'
                ' and f.sequence == ' + _SL + '.serialize() and f.unmod_sequence == ' + _SL + '.sequence'
                ' and f.internal == (f.start != 0 and f.end != len(annotation._sequence))'),
    'lossok': (['f'], 'f.loss in get_losses(sequence=' + _SL + '.sequence, losses=losses, max_losses=max_losses)'),
    'requested': (['f'], 'count(ion_types, f.ion_type) == 1 and count(isotopes, f.isotope) == 1 and lossok(f) and count(charges, f.charge) == 1'),
    'inrange': (['f'], '0 <= f.start and f.start <= f.end and f.end <= len(annotation._sequence)'),
}
_DISTINCT = [('ion-types-distinct', 'forall(lambda x=str: count(ion_types, x) <= 1)'),
             ('charges-distinct', 'forall(lambda x=int: count(charges, x) <= 1)'),
             ('isotopes-distinct', 'forall(lambda x=int: count(isotopes, x) <= 1)')]
_SPANS_OK = [('spans-distinct-inside', 'forall(lambda t=Span: count(spans, t) <= 1 and implies(count(spans, t) > 0, t[2] == 0 and 0 <= t[0] '
                                       'and t[0] <= t[1] and t[1] <= len(annotation._sequence)))')]

# loop nest of _build_fragments: span > ion type > isotope > loss > charge.  Invariant of loop k: the ions appended so far are exactly
# those whose key is lexicographically before the current position (done sets of the outer loops, current values of the loop variables)
_LEVELS = [('count(%s, (f.start, f.end, 0)) == 1', 'spans', '_done0', 'f.start == span[0] and f.end == span[1]'),
           ('count(%s, f.ion_type) == 1', 'ion_types', '_done1', 'f.ion_type == ion_type'),
           ('count(%s, f.isotope) == 1', 'isotopes', '_done2', 'f.isotope == iso'),
           ('(f.loss in %s)', 'get_losses(sequence=' + _SL + '.sequence, losses=losses, max_losses=max_losses)', '_seen3', 'f.loss == loss'),
           ('count(%s, f.charge) == 1', 'charges', '_done4', 'f.charge == c')]


def _inv(k):
    alts = []
    for j in range(k + 1):
        parts = [_LEVELS[i][3] for i in range(j)] + [_LEVELS[j][0] % _LEVELS[j][2]] + \
                [_LEVELS[i][0] % _LEVELS[i][1] for i in range(j + 1, 5)]
        alts.append('(' + ' and '.join(parts) + ')')
    return 'forall(lambda f=Fragment: count(frags, f) == ite(derived(f) and (' + ' or '.join(alts) + '), 1, 0))'


_BF_PARAMS = dict(spans='Bag[Span]', ion_types='Bag[str]', charges='Bag[int]', losses='List[Tuple[str,real]]', isotopes='Bag[int]', monoisotopic='bool',
                  annotation='Annotation', return_type='str', mass_components='List[real]', max_losses='int', precision='Optional[int]')
C[FR + '_build_fragments@fragment'] = dict(
    params=_BF_PARAMS, specialize=dict(return_type='fragment'), returns='Bag[Fragment]', pure=True,
    locals=dict(frags='Bag[Fragment]'),
    requires=_DISTINCT + _SPANS_OK,
    ensures=[('one-ion-per-requested-key-with-the-calculator-values',
              'forall(lambda f=Fragment: count(result, f) == ite(derived(f) and count(spans, (f.start, f.end, 0)) == 1 and requested(f), 1, 0))')],
    invariants={k: [('keys-before-here-once', _inv(k))] for k in range(5)},
    raises={},
)

_GET_PARAMS = dict(annotation='Annotation', ion_types='Bag[str]', charges='Bag[int]', monoisotopic='bool', isotopes='Bag[int]',
                   losses='List[Tuple[str,real]]', return_type='str', mass_components='List[real]', precision='Optional[int]', max_losses='int')
_N = 'len(annotation._sequence)'
_NONEMPTY = [('at-least-one-residue', 'len(annotation._sequence) >= 1')]   # the statement's "peptide of length n", n >= 1
C[FR + '_get_forward_fragments@fragment'] = dict(
    params=_GET_PARAMS, specialize=dict(return_type='fragment'), returns='Bag[Fragment]', pure=True, locals=dict(spans='Bag[Span]'),
    requires=_DISTINCT + _NONEMPTY,
    ensures=[('n-prefixes', 'forall(lambda f=Fragment: count(result, f) == ite(derived(f) and f.start == 0 and 1 <= f.end and f.end <= ' + _N +
              ' and requested(f), 1, 0))')], raises={})
C[FR + '_get_backward_fragments@fragment'] = dict(
    params=_GET_PARAMS, specialize=dict(return_type='fragment'), returns='Bag[Fragment]', pure=True, locals=dict(spans='Bag[Span]'),
    requires=_DISTINCT + _NONEMPTY,
    ensures=[('n-suffixes', 'forall(lambda f=Fragment: count(result, f) == ite(derived(f) and f.end == ' + _N + ' and 0 <= f.start and f.start < ' + _N +
              ' and requested(f), 1, 0))')], raises={})
C[FR + '_get_internal_fragments@fragment'] = dict(
    params=_GET_PARAMS, specialize=dict(return_type='fragment'), returns='Bag[Fragment]', pure=True,
    locals=dict(spans='Bag[Span]', internal_spans='Bag[Span]'),
    requires=_DISTINCT,
    ensures=[('every-strictly-internal-span', 'forall(lambda f=Fragment: count(result, f) == ite(derived(f) and 0 < f.start and f.start < f.end and f.end < ' + _N +
              ' and requested(f), 1, 0))')], raises={})
_IMM_PARAMS = {k: v for k, v in _GET_PARAMS.items() if k != 'ion_types'}
C[FR + '_get_immonium_fragments@fragment'] = dict(
    params=_IMM_PARAMS, specialize=dict(return_type='fragment'), returns='Bag[Fragment]', pure=True, locals=dict(spans='Bag[Span]'),
    requires=_DISTINCT[1:],
    ensures=[('n-immonium', "forall(lambda f=Fragment: count(result, f) == ite(derived(f) and 0 <= f.start and f.start < " + _N + " and f.end == f.start + 1"
              " and f.ion_type == 'i' and count(isotopes, f.isotope) == 1 and lossok(f) and count(charges, f.charge) == 1, 1, 0))")], raises={})

# ---------------------------------------------------------------- terminal dispatch and the public entry point
from contracts._records import setter_contracts as _setters, pop_contracts as _pops
_EQP = 'proved against this same contract in contracts/equality.py (C20)'
C.update({k: v for k, v in _pops(trusted=_EQP).items() if k.endswith('pop_labile_mods')})
C[PA + 'contains_sequence_ambiguity'] = dict(
    params=dict(self='Annotation'), returns='bool', pure=True,
    ensures=[('intervals-or-unknown-position', 'result == (self._intervals is not None or self._unknown_mods is not None)')], raises={})
C.update({k: v for k, v in accessor_contracts().items() if k.endswith('.intervals') or k.endswith('.unknown_mods')})
C[PA + 'split'] = dict(params=dict(self='Annotation'), returns='List[Annotation]', pure=True, trusted=True,
                       bounded_by='proved against its own contract in contracts/pieces.py (piece i is slice(i, i+1) of the peptide without labile modifications, which go to the first piece)', ensures=[])
C['peptacular.mass_calc:mass'] = dict(
    params=dict(sequence='Annotation', charge='Optional[int]', ion_type='str', monoisotopic='bool'), returns='real', pure=True,
    trusted=True, bounded_by='the mass calculator: checked against the reference calculator by bounded/C02.py', ensures=[])

_PREFIX = 'f.start == 0 and 1 <= f.end and f.end <= ' + _N
_SUFFIX = 'f.end == ' + _N + ' and 0 <= f.start and f.start < ' + _N
_INTERNAL = '0 < f.start and f.start < f.end and f.end < ' + _N
_IMMONIUM = '0 <= f.start and f.start < ' + _N + ' and f.end == f.start + 1'
C[FR + '_get_terminal_fragments@fragment'] = dict(
    params=_GET_PARAMS, specialize=dict(return_type='fragment'), returns='Bag[Fragment]', pure=True,
    locals=dict(frags='Bag[Fragment]', forward_ions='Bag[str]', backward_ions='Bag[str]'),
    requires=_DISTINCT + _NONEMPTY,
    ensures=[('prefixes-for-abc-suffixes-for-xyz',
              'forall(lambda f=Fragment: count(result, f) == ite(derived(f) and requested(f) and ((f.ion_type in FORWARD_ION_TYPES and ' + _PREFIX +
              ') or (f.ion_type in BACKWARD_ION_TYPES and ' + _SUFFIX + ')), 1, 0))')], raises={})

# fragment(): annotation objects, list-valued options, explicit loss rules (the scalar-to-list conveniences, the string input and the
# water / ammonia switches are exercised by the bounded tier).  `annotation` below is the peptide WITHOUT its labile modifications.
_ANN = ('ProFormaAnnotation(_sequence=sequence._sequence, _isotope_mods=sequence._isotope_mods, _static_mods=sequence._static_mods, '
        '_labile_mods=None, _unknown_mods=sequence._unknown_mods, _nterm_mods=sequence._nterm_mods, _cterm_mods=sequence._cterm_mods, '
        '_internal_mods=sequence._internal_mods, _intervals=sequence._intervals, _charge=sequence._charge, '
        '_charge_adducts=sequence._charge_adducts)')
_FAMILY = ('((f.ion_type in FORWARD_ION_TYPES and ' + _PREFIX + ') or (f.ion_type in BACKWARD_ION_TYPES and ' + _SUFFIX + ') or '
           '(f.ion_type in INTERNAL_ION_TYPES and ' + _INTERNAL + ") or (f.ion_type == 'i' and " + _IMMONIUM + '))')
_FRAG_PARAMS = dict(sequence='Annotation', ion_types='Bag[str]', charges='Bag[int]', monoisotopic='bool', isotopes='Bag[int]',
                    water_loss='bool', ammonia_loss='bool', losses='List[Tuple[str,real]]', max_losses='int', return_type='str',
                    precision='Optional[int]', _mass_components='Optional[List[real]]')
C[FR + 'fragment@fragment'] = dict(
    params=_FRAG_PARAMS, specialize=dict(return_type='fragment', water_loss=False, ammonia_loss=False), returns='Bag[Fragment]', pure=True,
    locals=dict(frags='Bag[Fragment]', terminal_fragment_types='Bag[str]', internal_fragment_types='Bag[str]'),
    ghost=dict(annotation=_ANN, mass_components='some(_mass_components)'),
    requires=_DISTINCT + [('at-least-one-residue', 'len(sequence._sequence) >= 1'),
                          ('cached-components-given', '_mass_components is not None')],
    ensures=[('one-ion-per-requested-type-span-charge-isotope-loss',
              'implies(sequence._intervals is None and sequence._unknown_mods is None, forall(lambda f=Fragment: '
              'count(result, f) == ite(derived(f) and requested(f) and ' + _FAMILY + ', 1, 0)))')],
    raises={'ValueError': 'sequence._intervals is not None or sequence._unknown_mods is not None'})
# the same entry point when the per-residue masses are NOT supplied: they are the calculator's neutral masses of the one-residue pieces
C[FR + 'fragment@fragment-uncached'] = dict(
    params=_FRAG_PARAMS, specialize=dict(return_type='fragment', water_loss=False, ammonia_loss=False), returns='Bag[Fragment]', pure=True,
    locals=dict(frags='Bag[Fragment]', terminal_fragment_types='Bag[str]', internal_fragment_types='Bag[str]'),
    ghost=dict(annotation=_ANN), callee_tag='fragment',
    requires=_DISTINCT + [('at-least-one-residue', 'len(sequence._sequence) >= 1'),
                          ('components-not-given', '_mass_components is None')],
    ensures=[('ions-from-the-calculator-masses-of-the-one-residue-pieces',
              'implies(sequence._intervals is None and sequence._unknown_mods is None, exists(lambda mass_components=List[real]: '
              'len(mass_components) == len(annotation.split()) and forall(lambda k: implies(0 <= k and k < len(mass_components), '
              "mass_components[k] == mass(sequence=annotation.split()[k], charge=0, ion_type='n', monoisotopic=monoisotopic))) and "
              'forall(lambda f=Fragment: count(result, f) == ite(derived(f) and requested(f) and ' + _FAMILY + ', 1, 0))))')],
    raises={'ValueError': 'sequence._intervals is not None or sequence._unknown_mods is not None'})

# ---------------------------------------------------------------- numbering and the cached Fragmenter
C[FR + 'get_number@forward'] = dict(
    params=dict(ion_type='str', len_sequence='int', start='int', end='int'), returns='int', pure=True,
    requires=[('abc', 'ion_type in FORWARD_ION_TYPES')], ensures=[('number-of-residues-from-the-n-terminus', 'result == end')], raises={})
C[FR + 'get_number@backward'] = dict(
    params=dict(ion_type='str', len_sequence='int', start='int', end='int'), returns='int', pure=True,
    requires=[('xyz', 'ion_type in BACKWARD_ION_TYPES')],
    ensures=[('number-of-residues-from-the-c-terminus', 'result == len_sequence - start')], raises={})
C[FR + 'get_number@immonium'] = dict(
    params=dict(ion_type='str', len_sequence='int', start='int', end='int'), returns='int', pure=True,
    requires=[('i', "ion_type == 'i'")], ensures=[('position', 'result == start')], raises={})
C[FR + 'get_number@unknown-type'] = dict(
    params=dict(ion_type='str', len_sequence='int', start='int', end='int'), returns='int', pure=True,
    requires=[('not-a-type', "not (ion_type in FORWARD_ION_TYPES) and not (ion_type in BACKWARD_ION_TYPES) and not (ion_type in INTERNAL_ION_TYPES) and ion_type != 'i'")],
    ensures=[('never-returns', 'False')], raises={'ValueError': 'True'})

# Fragmenter.fragment: the cached object passes ITS annotation, ITS monoisotopic flag and ITS cached per-residue masses, and every option as given
_OPT = dict(ion_types='AnyIonTypes', charges='AnyCharges', isotopes='AnyIsotopes', water_loss='bool', ammonia_loss='bool',
            losses='AnyLosses', max_losses='int', return_type='str', precision='Optional[int]')
C[FR + 'fragment'] = dict(
    params=dict(sequence='Annotation', ion_types='AnyIonTypes', charges='AnyCharges', monoisotopic='bool', isotopes='AnyIsotopes',
                water_loss='bool', ammonia_loss='bool', losses='AnyLosses', max_losses='int', return_type='str',
                precision='Optional[int]', _mass_components='Optional[List[real]]'),
    returns='AnyResult', pure=True, trusted=True,
    bounded_by='proved above for annotation input / list-valued options (fragment@fragment, fragment@fragment-uncached); every other '
               'return type and input form: bounded/C04.py', ensures=[])
C[FR + 'Fragmenter.fragment'] = dict(
    params=dict(self='Fragmenter', **_OPT), returns='AnyResult', pure=True,
    ensures=[('projection-of-the-same-call',
              'result == fragment(sequence=self.annotation, ion_types=ion_types, charges=charges, monoisotopic=self.monoisotopic, '
              'isotopes=isotopes, water_loss=water_loss, ammonia_loss=ammonia_loss, losses=losses, max_losses=max_losses, '
              'return_type=return_type, precision=precision, _mass_components=self.mass_components)')], raises={})
