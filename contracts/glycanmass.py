"""Sidecar contract for mass_calc.glycan_mass on a dictionary of monosaccharide counts (property C15, last sentence: "its ... mass being the
count-weighted sum over those monosaccharides, identically for names and synonyms"): the mass is the finite sum, over the entries of the
dictionary, of count x the tabulated mass of the monosaccharide the key denotes -- BY NAME FIRST, THEN BY SYNONYM -- in the requested mode,
rounded on request; a key that is neither raises the glycan formula error.  The finite sum is GSUM(d, mono, S), defined by its empty /
insert equations (A-FINSUM, as CSUM in contracts/chemmass.py).  The monosaccharide table enters abstractly (a record of its name and
synonym look-up tables, accessor methods verified against their one-line bodies); that every entry of the table HAS both masses is a
precondition here (a fact of the bundled table, exercised by bounded/C15.py and bounded/C10.py)."""
ALIASES = {'Counts': 'Dict[str,real]'}
RECORDS = {
    'Entry': dict(mono_mass='Optional[real]', avg_mass='Optional[real]', composition='Optional[str]'),
    'EntryDb': dict(name_map='Dict[str,Entry]', synonym_map='Dict[str,Entry]'),
}
CLASSES = {'EntryDb': 'peptacular.mods.mod_db_setup:EntryDb'}
GLOBALS_ABSTRACT = {'MONOSACCHARIDES_DB': 'EntryDb'}
EXC_PARENTS = {'InvalidGlycanFormulaError': 'ValueError'}
DBQ = 'peptacular.mods.mod_db_setup:EntryDb.'
C = {}
C[DBQ + 'contains_name'] = dict(params=dict(self='EntryDb', name='str'), returns='bool', pure=True, ensures=[('def', 'result == (name in self.name_map)')])
C[DBQ + 'contains_synonym'] = dict(params=dict(self='EntryDb', synonym='str'), returns='bool', pure=True,
                                   ensures=[('def', 'result == (synonym in self.synonym_map)')])
C[DBQ + 'get_entry_by_name'] = dict(params=dict(self='EntryDb', name='str'), returns='Optional[Entry]', pure=True,
                                    ensures=[('def', 'result == self.name_map.get(name)')])
C[DBQ + 'get_entry_by_synonym'] = dict(params=dict(self='EntryDb', synonym='str'), returns='Optional[Entry]', pure=True,
                                       ensures=[('def', 'result == self.synonym_map.get(synonym)')])
MACROS = {
    'known': (['k'], '((k in MONOSACCHARIDES_DB.name_map) or (k in MONOSACCHARIDES_DB.synonym_map))'),
    # the monosaccharide a key denotes: by name first, then by synonym
    'mono_of': (['k'], '(MONOSACCHARIDES_DB.name_map[k] if (k in MONOSACCHARIDES_DB.name_map) else MONOSACCHARIDES_DB.synonym_map[k])'),
    'mmass': (['k', 'mono'], '(some(mono_of(k).mono_mass) if mono else some(mono_of(k).avg_mass))'),
}
FUNCS = {'GSUM': (['Counts', 'bool', 'Set[str]'], 'real')}
AXIOMS = [
    ('GSUM-empty', 'forall(lambda d=Counts, mono=bool: GSUM(d, mono, set()) == 0)'),
    ('GSUM-insert', 'forall(lambda d=Counts, mono=bool, S=Set[str], k=str: implies(not (k in S), GSUM(d, mono, set_add(S, k)) == GSUM(d, mono, S) + mmass(k, mono) * d[k]))'),
]
C['peptacular.mass_calc:glycan_mass'] = dict(
    params=dict(formula='Counts', monoisotopic='bool', precision='Optional[int]'), returns='real', pure=True,
    requires=[('every-table-entry-has-both-masses',
               'forall(lambda k=str: implies(k in MONOSACCHARIDES_DB.name_map, MONOSACCHARIDES_DB.name_map[k].mono_mass is not None and '
               'MONOSACCHARIDES_DB.name_map[k].avg_mass is not None)) and '
               'forall(lambda k=str: implies(k in MONOSACCHARIDES_DB.synonym_map, MONOSACCHARIDES_DB.synonym_map[k].mono_mass is not None and '
               'MONOSACCHARIDES_DB.synonym_map[k].avg_mass is not None))')],
    raises={'InvalidGlycanFormulaError': 'exists(lambda k=str: (k in formula) and not known(k))'},
    ensures=[('count-weighted-sum-over-the-monosaccharides', 'implies(precision is None, result == GSUM(formula, monoisotopic, set(formula)))'),
             ('rounded-on-request', 'implies(precision is not None, result == round(GSUM(formula, monoisotopic, set(formula)), some(precision)))')],
    invariants={0: [('partial-sum', 'm == GSUM(formula, monoisotopic, _seen0)'),
                    ('seen-known', 'forall(lambda k=str: implies(k in _seen0, known(k)))')]},
)

# ---------------------------------------------------------------- the composition of a glycan: the count-weighted sum of the monosaccharides' compositions
# (for ANY weighting AW of the element symbols, as in contracts/seqcomp.py: TOT(d) = sum over the keys of d[k] * AW(k))
ALIASES['Comp'] = 'Dict[str,real]'
FUNCS.update({'AW': (['str'], 'real'), 'WSUM': (['Comp', 'Set[str]'], 'real'), 'TOT': (['Comp'], 'real'), 'GCS': (['Counts', 'Set[str]'], 'real')})
AXIOMS += [
    ('WSUM-empty', 'forall(lambda d=Comp: WSUM(d, set()) == 0)'),
    ('WSUM-insert', 'forall(lambda d=Comp, S=Set[str], k=str: implies(not (k in S), WSUM(d, set_add(S, k)) == WSUM(d, S) + AW(k) * d[k]))'),
    ('TOT-def', 'forall(lambda d=Comp: TOT(d) == WSUM(d, set(d)))'),
    ('A-FINSUM-UPDATE', 'forall(lambda d=Comp, k=str, x=real: TOT(dict_set(d, k, x)) == TOT(d) + (x - d.get(k, 0)) * AW(k))'),
    ('GCS-empty', 'forall(lambda d=Counts: GCS(d, set()) == 0)'),
    ('GCS-insert', 'forall(lambda d=Counts, S=Set[str], k=str: implies(not (k in S), GCS(d, set_add(S, k)) == GCS(d, S) + '
                   'TOT(parse_chem_formula(some(mono_of(k).composition))) * d[k]))'),
]
C['peptacular.chem.chem_util:parse_chem_formula'] = dict(
    params=dict(formula='str'), returns='Comp', pure=True, trusted=True, external=True,
    bounded_by='formula text -> composition: tokenizer proved in contracts/chemmass.py (C15), accumulation bounded/C15.py', ensures=[])
C['peptacular.mods.mod_db_setup:_glycan_comp'] = dict(
    params=dict(glycan='Counts', sep='str'), returns='Comp', pure=True, locals=dict(counts='Comp'),
    axioms=['WSUM-empty', 'WSUM-insert', 'TOT-def', 'A-FINSUM-UPDATE', 'GCS-empty', 'GCS-insert'],
    requires=[('every-table-entry-has-a-composition',
               'forall(lambda k=str: implies(k in MONOSACCHARIDES_DB.name_map, MONOSACCHARIDES_DB.name_map[k].composition is not None)) and '
               'forall(lambda k=str: implies(k in MONOSACCHARIDES_DB.synonym_map, MONOSACCHARIDES_DB.synonym_map[k].composition is not None))')],
    raises={'InvalidGlycanFormulaError': 'exists(lambda k=str: (k in glycan) and not known(k))'},
    ensures=[('count-weighted-sum-of-the-monosaccharide-compositions', 'TOT(result) == GCS(glycan, set(glycan))')],
    invariants={0: [('monosaccharides-so-far', 'TOT(counts) == GCS(glycan, _seen0)'),
                    ('seen-known', 'forall(lambda k=str: implies(k in _seen0, known(k)))')],
                1: [('elements-so-far', 'TOT(counts) == TOT(counts_at1) + WSUM(chem_formula, _seen1) * count')]},
)
C['peptacular.glycan:glycan_comp'] = dict(
    params=dict(glycan='Counts'), returns='Comp', pure=True, raises={'ValueError': None}, axioms=[],
    requires=C['peptacular.mods.mod_db_setup:_glycan_comp']['requires'],
    ensures=[('the-helper', "result == _glycan_comp(glycan, '')")])
