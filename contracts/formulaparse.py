"""Sidecar contract for chem_util.parse_chem_formula on a separator-less formula text (property C15: "formula parsing is additive ...
repeated elements accumulate, isotopes in brackets stay distinct from their element"): for ANY weighting AW of the entry symbols the
weighted total of the parsed composition is the sum, over the components the tokenizer cuts the text into (contracts/chemmass.py: the
components tile the text in order, bracketed isotope components whole), of the total of that component's own composition -- a bracketed
component through _parse_isotope_component (brackets removed), any other through _parse_condensed_chem_formula.  Entries of different
components with the same symbol ACCUMULATE (the merge loop adds), and since '13C' and 'C' are different symbols their weights stay separate.
Finite sums as in contracts/seqcomp.py (A-FINSUM, A-FINSUM-UPDATE)."""
ALIASES = {'Comp': 'Dict[str,real]'}
EXC_PARENTS = {'InvalidChemFormulaError': 'ValueError'}
CU = 'peptacular.chem.chem_util:'
FUNCS = {'AW': (['str'], 'real'), 'WSUM': (['Comp', 'Set[str]'], 'real'), 'TOT': (['Comp'], 'real')}
AXIOMS = [
    ('WSUM-empty', 'forall(lambda d=Comp: WSUM(d, set()) == 0)'),
    ('WSUM-insert', 'forall(lambda d=Comp, S=Set[str], k=str: implies(not (k in S), WSUM(d, set_add(S, k)) == WSUM(d, S) + AW(k) * d[k]))'),
    ('TOT-def', 'forall(lambda d=Comp: TOT(d) == WSUM(d, set(d)))'),
    ('A-FINSUM-UPDATE', 'forall(lambda d=Comp, k=str, x=real: TOT(dict_set(d, k, x)) == TOT(d) + (x - d.get(k, 0)) * AW(k))'),
]
MACROS = {
    # the composition of one component of the tokenized text
    'pc': (['c'], "(_parse_isotope_component(c[1:-1]) if c.startswith('[') else _parse_condensed_chem_formula(c))"),
}
C = {}
C[CU + '_split_chem_formula'] = dict(params=dict(formula='str'), returns='List[str]', pure=True, trusted=True, raises={'InvalidChemFormulaError': None},
                                     bounded_by='proved against its own contract in contracts/chemmass.py (C15): the components tile the text', ensures=[])
C[CU + '_parse_isotope_component'] = dict(params=dict(formula='str'), returns='Comp', pure=True, trusted=True, raises={'InvalidChemFormulaError': None},
                                          bounded_by='one bracketed isotope component (regex): bounded/C15.py', ensures=[])
C[CU + '_parse_condensed_chem_formula'] = dict(params=dict(formula='str'), returns='Comp', pure=True, trusted=True, raises={'InvalidChemFormulaError': None},
                                               bounded_by='one run of element symbols and counts (regex): bounded/C15.py', ensures=[])
C[CU + '_parse_split_chem_formula'] = dict(params=dict(formula='str', sep='str'), returns='Comp', pure=True, trusted=True, raises={'InvalidChemFormulaError': None},
                                           bounded_by='the separator form: bounded/C15.py', ensures=[])
C['peptacular.errors:InvalidChemFormulaError.__init__'] = dict(
    params=dict(self='FormulaError', formula='str', msg='str'), returns='None', requires=[], raises={}, trusted=True, external=True,
    bounded_by='exception constructor (stores two texts)', ensures=[])
RECORDS = {'FormulaError': dict(msg='str')}
CLASSES = {'FormulaError': 'peptacular.errors:InvalidChemFormulaError'}
C[CU + 'parse_chem_formula@plain'] = dict(
    params=dict(formula='str', sep='str'), specialize=dict(sep=''), returns='Comp', pure=True,
    locals=dict(comps='List[Comp]', combined_comp='Comp'),
    ghost=dict(parts='_split_chem_formula(formula)'),
    raises={'InvalidChemFormulaError': None},
    ensures=[('sum-over-the-components-of-the-text', 'TOT(result) == psum(lambda c: TOT(pc(c)), parts, len(parts))')],
    invariants={0: [('one-composition-per-component', 'len(comps) == _k0 and forall(lambda j: implies(0 <= j and j < _k0, comps[j] == pc(parts[j])))')],
                1: [('components-merged-so-far', 'TOT(combined_comp) == psum(lambda c: TOT(pc(c)), parts, _k1)')],
                2: [('entries-added-so-far', 'TOT(combined_comp) == TOT(combined_comp_at2) + WSUM(comp, _seen2)')]},
)
