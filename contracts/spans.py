"""Sidecar contracts for peptacular.spans (property C06, used by C04/C07).
Top-level postconditions are taken from the statement of C06; helper shapes from the code."""
ALIASES = {'Span': 'Tuple[int,int,int]'}
MACROS = {
    # length of a span value
    'slen': (['t'], 't[1] - t[0]'),
}
C = {}

C['peptacular.spans:build_non_enzymatic_spans'] = dict(
    params=dict(span='Span', min_len='Optional[int]', max_len='Optional[int]'),
    returns='Bag[Span]',
    requires=[('min-len-positive', 'min_len is None or min_len >= 1')],
    ghost=dict(mn='1 if min_len is None else some(min_len)',
               mx='span[1]-span[0]-1 if max_len is None else min(some(max_len), span[1]-span[0]-1)'),
    ensures=[
        # C06: "Under the non-specific rule the result is every proper sub-span within the bounds, reported with
        # zero missed cleavages" -- each exactly once
        ('every-proper-subspan-once',
         'forall(lambda t=Span: count(yields, t) == ite(t[2] == 0 and span[0] <= t[0] and t[1] <= span[1]'
         ' and mn <= t[1]-t[0] and t[1]-t[0] <= mx, 1, 0))'),
    ],
    canary=[('also-full-span',
             'forall(lambda t=Span: count(yields, t) == ite(t[2] == 0 and span[0] <= t[0] and t[1] <= span[1]'
             ' and mn <= t[1]-t[0] and t[1]-t[0] <= mx + 1, 1, 0))')],
)

C['peptacular.spans:build_left_semi_spans'] = dict(
    params=dict(span='Span', min_len='Optional[int]', max_len='Optional[int]'),
    returns='Bag[Span]',
    requires=[('min-len-positive', 'min_len is None or min_len >= 1')],
    ghost=dict(mn='1 if min_len is None else some(min_len)',
               mx='span[1]-span[0] if max_len is None else some(max_len)'),
    ensures=[
        # C06: "every span sharing one end with such a span" (proper, non-empty), inclusive length bounds
        ('left-semi-once',
         'forall(lambda t=Span: count(yields, t) == ite(t[0] == span[0] and t[2] == span[2] and span[0] < t[1]'
         ' and t[1] < span[1] and mn <= t[1]-t[0] and t[1]-t[0] <= mx, 1, 0))'),
    ],
    canary=[('includes-parent',
             'forall(lambda t=Span: count(yields, t) == ite(t[0] == span[0] and t[2] == span[2] and span[0] < t[1]'
             ' and t[1] <= span[1] and mn <= t[1]-t[0] and t[1]-t[0] <= mx, 1, 0))')],
)

C['peptacular.spans:build_right_semi_spans'] = dict(
    params=dict(span='Span', min_len='Optional[int]', max_len='Optional[int]'),
    returns='Bag[Span]',
    requires=[('min-len-positive', 'min_len is None or min_len >= 1')],
    ghost=dict(mn='1 if min_len is None else some(min_len)',
               mx='span[1]-span[0] if max_len is None else some(max_len)'),
    ensures=[
        ('right-semi-once',
         'forall(lambda t=Span: count(yields, t) == ite(t[1] == span[1] and t[2] == span[2] and span[0] < t[0]'
         ' and t[0] < span[1] and mn <= t[1]-t[0] and t[1]-t[0] <= mx, 1, 0))'),
    ],
    canary=[('includes-parent',
             'forall(lambda t=Span: count(yields, t) == ite(t[1] == span[1] and t[2] == span[2] and span[0] <= t[0]'
             ' and t[0] < span[1] and mn <= t[1]-t[0] and t[1]-t[0] <= mx, 1, 0))')],
)
