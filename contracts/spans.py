"""Sidecar contracts for peptacular.spans (property C06, used by C04/C07).
Top-level postconditions are taken from the statement of C06; helper shapes from the code."""
ALIASES = {'Span': 'Tuple[int,int,int]'}
MACROS = {
    # length of a span value
    'slen': (['t'], 't[1] - t[0]'),
}
C = {}

C['peptacular.spans:build_non_enzymatic_spans'] = dict(
    params=dict(span='Span', min_len='Optional[int]', max_len='Optional[int]'),
    returns='Bag[Span]',
    requires=[('min-len-positive', 'min_len is None or min_len >= 1')],
    ghost=dict(mn='1 if min_len is None else some(min_len)',
               mx='span[1]-span[0]-1 if max_len is None else min(some(max_len), span[1]-span[0]-1)'),
    ensures=[
        # C06: "Under the non-specific rule the result is every proper sub-span within the bounds, reported with
        # zero missed cleavages" -- each exactly once
        ('every-proper-subspan-once',
         'forall(lambda t=Span: count(yields, t) == ite(t[2] == 0 and span[0] <= t[0] and t[1] <= span[1]'
         ' and mn <= t[1]-t[0] and t[1]-t[0] <= mx, 1, 0))'),
    ],
    canary=[('also-full-span',
             'forall(lambda t=Span: count(yields, t) == ite(t[2] == 0 and span[0] <= t[0] and t[1] <= span[1]'
             ' and mn <= t[1]-t[0] and t[1]-t[0] <= mx + 1, 1, 0))')],
)

C['peptacular.spans:build_left_semi_spans'] = dict(
    params=dict(span='Span', min_len='Optional[int]', max_len='Optional[int]'),
    returns='Bag[Span]',
    requires=[('min-len-positive', 'min_len is None or min_len >= 1')],
    ghost=dict(mn='1 if min_len is None else some(min_len)',
               mx='span[1]-span[0] if max_len is None else some(max_len)'),
    ensures=[
        # C06: "every span sharing one end with such a span" (proper, non-empty), inclusive length bounds
        ('left-semi-once',
         'forall(lambda t=Span: count(yields, t) == ite(t[0] == span[0] and t[2] == span[2] and span[0] < t[1]'
         ' and t[1] < span[1] and mn <= t[1]-t[0] and t[1]-t[0] <= mx, 1, 0))'),
    ],
    canary=[('includes-parent',
             'forall(lambda t=Span: count(yields, t) == ite(t[0] == span[0] and t[2] == span[2] and span[0] < t[1]'
             ' and t[1] <= span[1] and mn <= t[1]-t[0] and t[1]-t[0] <= mx, 1, 0))')],
)

C['peptacular.spans:build_right_semi_spans'] = dict(
    params=dict(span='Span', min_len='Optional[int]', max_len='Optional[int]'),
    returns='Bag[Span]',
    requires=[('min-len-positive', 'min_len is None or min_len >= 1')],
    ghost=dict(mn='1 if min_len is None else some(min_len)',
               mx='span[1]-span[0] if max_len is None else some(max_len)'),
    ensures=[
        ('right-semi-once',
         'forall(lambda t=Span: count(yields, t) == ite(t[1] == span[1] and t[2] == span[2] and span[0] < t[0]'
         ' and t[0] < span[1] and mn <= t[1]-t[0] and t[1]-t[0] <= mx, 1, 0))'),
    ],
    canary=[('includes-parent',
             'forall(lambda t=Span: count(yields, t) == ite(t[1] == span[1] and t[2] == span[2] and span[0] <= t[0]'
             ' and t[0] < span[1] and mn <= t[1]-t[0] and t[1]-t[0] <= mx, 1, 0))')],
)

_ENZ = ('exists(lambda a, b: 0 <= a and a < b and b < len(S) and b <= a + missed_cleavages + 1 and {extra}'
        ' t[0] == S[a] and t[1] == S[b] and t[2] == b - a - 1 and mn <= S[b] - S[a] and S[b] - S[a] <= mx)')

C['peptacular.spans:build_enzymatic_spans'] = dict(
    params=dict(max_index='int', enzyme_sites='List[int]', missed_cleavages='int', min_len='Optional[int]',
                max_len='Optional[int]'),
    returns='Bag[Span]',
    requires=[('mc-nonneg', 'missed_cleavages >= 0')],
    ghost=dict(S='sorted_set(set_add(set_add(set_of(enzyme_sites), 0), max_index))',
               mn='1 if min_len is None else some(min_len)',
               mx='max_index if max_len is None else some(max_len)'),
    ensures=[
        # C06: "exactly those whose two ends are protein termini or cleavage sites ... with at most the allowed
        # number of sites strictly inside ... filtered by the inclusive length bounds; each span reports the number
        # of cleavage sites it contains".  S is the strictly increasing enumeration of sites + {0, n}; the number of
        # members of S strictly between S[a] and S[b] is b-a-1 (A-CNT).
        ('enzymatic-once', 'forall(lambda t=Span: count(yields, t) == ite(' + _ENZ.format(extra='') + ', 1, 0))'),
    ],
    loop_heads={0: 'for i, start_site in enumerate(enzyme_sites):',
                1: 'for j, end_site in enumerate(enzyme_sites[i + 1:i + missed_cleavages + 2]):'},
    invariants={
        0: [('prefix', 'forall(lambda t=Span: count(yields, t) == ite(' + _ENZ.format(extra='a < _k0 and') + ', 1, 0))')],
        1: [('row', 'forall(lambda t=Span: count(yields, t) == ite(' + _ENZ.format(extra='(a < i or (a == i and b <= i + _k1)) and')
             + ', 1, 0))'),
            ('i-is-counter', '0 <= i and i < len(S) and start_site == S[i]')],
    },
    canary=[('one-more-missed',
             'forall(lambda t=Span: count(yields, t) == ite(' + _ENZ.replace('+ 1 and', '+ 2 and').format(extra='') + ', 1, 0))')],
)

# ---- grouped semi builders.  sorted()/groupby() with key lambdas are outside the verified subset, so the BODIES of the
# two grouped builders are not verified deductively: their contract (below) is ASSUMED at call sites and checked against
# the real functions by the bounded tier (bounded/C06.py) -- labelled bounded, never counted as proved.
# Ghost arguments S (strictly increasing list of sites incl. 0 and n) and mc describe the documented precondition
# "the input spans must be enzymatic spans where the value is the number of missed cleavages".
_E = ('exists(lambda a, b: 0 <= a and a < b and b < len(S) and b <= a + missed_cleavages + 1 and'
      ' t[0] == S[a] and t[1] == S[b] and t[2] == b - a - 1)')
_L = ('exists(lambda a, b: 0 <= a and a < b and b < len(S) and b <= a + missed_cleavages + 1 and'
      ' t[0] == S[a] and S[b-1] < t[1] and t[1] < S[b] and t[2] == b - a - 1)')
_R = ('exists(lambda a, b: 0 <= a and a < b and b < len(S) and b <= a + missed_cleavages + 1 and'
      ' t[1] == S[b] and S[a] < t[0] and t[0] < S[a+1] and t[2] == b - a - 1)')
_BOUNDS = 'mn <= t[1]-t[0] and t[1]-t[0] <= mx'
_SEMI_B = 'mn <= t[1]-t[0] and (max_len is None or t[1]-t[0] <= some(max_len))'
_GP = dict(S='List[int]', missed_cleavages='int')
_FAMILY = [('enzymatic-family', 'forall(lambda t=Span: count(spans, t) == ite(' + _E + ' and mn <= t[1]-t[0], 1, 0))'),
           ('S-increasing', 'forall(lambda j, k: implies(0 <= j and j < k and k < len(S), S[j] < S[k]))'),
           ('mc-nonneg', 'missed_cleavages >= 0'),
           ('min-len-positive', 'min_len is None or min_len >= 1')]
C['peptacular.spans:_grouped_left_semi_span_builder'] = dict(
    params=dict(spans='Bag[Span]', min_len='Optional[int]', max_len='Optional[int]'), ghost_params=_GP,
    returns='Bag[Span]', trusted=True, requires=_FAMILY,
    ghost=dict(mn='1 if min_len is None else some(min_len)'),
    ensures=[('left-semi-of-family', 'forall(lambda t=Span: count(yields, t) == ite(' + _L + ' and ' + _SEMI_B + ', 1, 0))')],
)
C['peptacular.spans:_grouped_right_semi_span_builder'] = dict(
    params=dict(spans='Bag[Span]', min_len='Optional[int]', max_len='Optional[int]'), ghost_params=_GP,
    returns='Bag[Span]', trusted=True, requires=_FAMILY,
    ghost=dict(mn='1 if min_len is None else some(min_len)'),
    ensures=[('right-semi-of-family', 'forall(lambda t=Span: count(yields, t) == ite(' + _R + ' and ' + _SEMI_B + ', 1, 0))')],
)
C['peptacular.spans:build_semi_spans'] = dict(
    params=dict(spans='Bag[Span]', min_len='Optional[int]', max_len='Optional[int]'), ghost_params=_GP,
    returns='Bag[Span]', requires=_FAMILY,
    ghost=dict(mn='1 if min_len is None else some(min_len)'),
    ensures=[('left-plus-right', 'forall(lambda t=Span: count(yields, t) == ite(' + _L + ' and ' + _SEMI_B + ', 1, 0) + ite('
              + _R + ' and ' + _SEMI_B + ', 1, 0))')],
)

C['peptacular.spans:build_spans'] = dict(
    params=dict(max_index='int', enzyme_sites='List[int]', missed_cleavages='int', min_len='Optional[int]',
                max_len='Optional[int]', semi='bool'),
    returns='Bag[Span]',
    requires=[('mc-nonneg', 'missed_cleavages >= 0'),
              ('n-nonneg', 'max_index >= 0'),
              ('sites-in-range', 'forall(lambda k: implies(0 <= k and k < len(enzyme_sites),'
                                 ' 0 <= enzyme_sites[k] and enzyme_sites[k] <= max_index))'),
              ('min-len-positive', 'min_len is None or min_len >= 1')],
    ghost=dict(S='sorted_set(set_add(set_add(set_of(enzyme_sites), 0), max_index))',
               # "every position 0..n is a cleavage site" <=> n+1 distinct sites, all within [0,n] (pigeonhole, A-PIGEON)
               allsites='len(sorted_set(set_of(enzyme_sites))) == max_index + 1',
               mn='1 if min_len is None else some(min_len)',
               mx='max_index if max_len is None else some(max_len)'),
    ensures=[
        # C06 first sentence.  E: both ends in S, at most mc members of S strictly inside, value = that number.
        # L/R (semi): shares its start/end with such a span, other end strictly inside it; the value is again the number
        # of members of S strictly inside the reported span.  Then the inclusive length filter.  Each span once.
        ('specific-rule-spans',
         'implies(not allsites, forall(lambda t=Span: count(yields, t) == ite((' + _E + ' or (semi and (' + _L + ' or ' + _R
         + '))) and ' + _BOUNDS + ', 1, 0)))'),
        # C06 second sentence (what the shortcut is for).
        ('every-position-a-site',
         'implies(allsites, forall(lambda t=Span: count(yields, t) == ite(t[2] == 0 and 0 <= t[0] and t[1] <= max_index'
         ' and t[1]-t[0] <= max_index - 1 and ' + _BOUNDS + ', 1, 0)))'),
    ],
    loop_heads={0: 'for span in spans:'},
    invariants={0: [('filtered-prefix', 'forall(lambda t=Span: count(yields, t) == ite(' + _BOUNDS + ', count(_done0, t), 0))')]},
    canary=[('semi-ignores-mc',
             'implies(not allsites, forall(lambda t=Span: count(yields, t) == ite((' + _E + ' or (semi and ('
             + _L.replace(' and b <= a + missed_cleavages + 1', '') + ' or ' + _R + '))) and ' + _BOUNDS + ', 1, 0)))')],
)
_W2 = dict(without=['semi_spans', 'yields', 'spans'])
C['peptacular.spans:build_spans']['exit_lemmas'] = [
    ('same-site-set', 'set_of(enzyme_sites) == set_of(old(enzyme_sites))', _W2),
    ('S-in-range', 'forall(lambda k: implies(0 <= k and k < len(S), 0 <= S[k] and S[k] <= max_index))', _W2),
    ('disjoint', 'forall(lambda t=Span: not (' + _E + ' and ' + _L + ') and not (' + _E + ' and ' + _R + ') and not ('
     + _L + ' and ' + _R + '))', _W2),
]
