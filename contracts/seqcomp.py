"""Sidecar contract for the composition calculator peptacular.chem.chem_calc._sequence_comp (property C03, the composition side):
the composition it reports is the SUM OF THE PARTS -- for ANY weighting AW of the entry symbols (in particular the atomic masses
chem_mass uses in either mode), the weighted total of the reported composition equals the sum of the weighted totals of

    the residues' compositions (the real table AA_COMPOSITIONS, entered abstractly), the neutral ion-type adjustment, the
    composition of the charge carriers / adducts, the composition of every modification wherever it is written (unknown position,
    interval, N-terminus, C-terminus, residue, labile -- which the caller passes for the precursor only), and `isotope` neutrons,

which is the composition-side counterpart of contracts/masssum.py (mass() == the sum of the MASSES of the same parts).  With
"mass of a part == weighted total of the part's composition" per part (tables: ground obligations; vocabulary entries: bounded/C10,
C03) the two calculators agree -- property C03 for peptides without a global isotope label (labelled ones: mass() IS the composition
mass by construction, mass#ensures[labelled-peptides-through-the-composition]).

TOT(d) = sum over the keys k of d of d[k] * AW(k) is the spec function WSUM(d, keys(d)), WSUM being DEFINED by its empty / insert
equations (A-FINSUM, as CSUM in contracts/chemmass.py: chem_mass(d, mono) is TOT for AW = the atomic mass in that mode).  Two further
facts of finite sums are assumed (they need induction over the key set):
    A-FINSUM-UPDATE  TOT(d[k := x]) == TOT(d) + (x - d.get(k, 0)) * AW(k)
    A-FINSUM-EXT0    two dictionaries with the same d.get(k, 0) for every k have the same TOT (zero entries do not count)
Static rules: comp_mass() condenses them into residue modifications before it calls this function; the contract requires none."""
from contracts._records import RECORDS, CLASSES, CTORS, PA, accessor_contracts
ALIASES = {'Comp': 'Dict[str,real]', 'ResMods': 'Dict[int,ModList]', 'StaticMap': 'Dict[str,ModList]'}
OPAQUE_LISTS = ['ModList']
GLOBALS_ABSTRACT = {'AA_COMPOSITIONS': 'Dict[str,Comp]', 'NEUTRAL_FRAGMENT_COMPOSITION_ADJUSTMENTS': 'Dict[str,Comp]',
                    'FRAGMENT_ION_BASE_CHARGE_ADDUCTS': 'Dict[str,str]'}
EXC_PARENTS = {'AmbiguousAminoAcidError': 'ValueError', 'UnknownAminoAcidError': 'ValueError'}
CC = 'peptacular.chem.chem_calc:'
C = accessor_contracts()

_MC = 'TOT(mod_comp(x))'
MACROS = {
    # weighted total of a list of modifications / of an optional one
    'msumc': (['L'], 'psum(lambda x: ' + _MC + ', L, len(items(L)))'),
    'omc': (['O'], '(0 if O is None else psum(lambda x: ' + _MC + ', some(O), len(items(some(O)))))'),
}
FUNCS = {
    'AW': (['str'], 'real'),                         # ANY weighting of the entry symbols
    'WSUM': (['Comp', 'Set[str]'], 'real'),          # sum over the keys in S of d[k] * AW(k)
    'TOT': (['Comp'], 'real'),                       # ... over all keys of d
    'DSUMC': (['ResMods', 'Set[int]'], 'real'),      # over the modified positions in S: total of the modifications written there
}
AXIOMS = [
    ('WSUM-empty', 'forall(lambda d=Comp: WSUM(d, set()) == 0)'),
    ('WSUM-insert', 'forall(lambda d=Comp, S=Set[str], k=str: implies(not (k in S), WSUM(d, set_add(S, k)) == WSUM(d, S) + AW(k) * d[k]))'),
    ('TOT-def', 'forall(lambda d=Comp: TOT(d) == WSUM(d, set(d)))'),
    ('A-FINSUM-UPDATE', 'forall(lambda d=Comp, k=str, x=real: TOT(dict_set(d, k, x)) == TOT(d) + (x - d.get(k, 0)) * AW(k))'),
    ('A-FINSUM-EXT0', 'forall(lambda d=Comp, r=Comp: implies(forall(lambda k=str: r.get(k, 0) == d.get(k, 0)), TOT(r) == TOT(d)))'),
    ('DSUMC-empty', 'forall(lambda d=ResMods: DSUMC(d, set()) == 0)'),
    ('DSUMC-insert', 'forall(lambda d=ResMods, S=Set[int], k=int: implies(not (k in S), DSUMC(d, set_add(S, k)) == DSUMC(d, S) + msumc(d[k])))'),
]

C['peptacular.proforma.proforma_dataclasses:Interval.has_mods'] = dict(
    params=dict(self='Interval'), returns='bool', pure=True, axioms=[], ensures=[('def', 'result == (self.mods is not None)')])
C[CC + 'mod_comp'] = dict(params=dict(mod='ModList_item'), returns='Comp', pure=True, trusted=True,
                          bounded_by='composition of one modification (vocabulary entry / formula / glycan): bounded/C10.py, bounded/C03.py', ensures=[])
C['peptacular.proforma.proforma_parser:parse_static_mods'] = dict(
    params=dict(mods='Optional[ModList]'), returns='StaticMap', pure=True, trusted=True,
    bounded_by='static rule text -> target map: bounded/C12.py', ensures=[])
C[CC + 'apply_isotope_mods_to_composition'] = dict(
    params=dict(composition='Comp', isotopic_mods='Optional[ModList]'), returns='Comp', pure=True, trusted=True,
    bounded_by='proved against its own contract in contracts/labelcomp.py (C12)', ensures=[])
# the composition of a charge-carrier text 'a1,a2,..': the sum of the compositions of its comma-separated ions; one ion 'nXq' is n atoms
# of X and -q*n electrons (every stated ion loses its own electrons -- the composition side of the recorded finding C02-adduct-electron)
C[CC + 'parse_ion_elements'] = dict(
    params=dict(adduct='str'), returns='Tuple[int,str,int]', pure=True, trusted=True, external=True,
    bounded_by='regular-expression reader of one ion text (count, element, charge): bounded/C02.py / C03.py adduct cases', ensures=[])
C[CC + '_parse_adduct_comp'] = dict(
    params=dict(adduct='str'), returns='Comp', pure=True, locals=dict(comp='Comp'), axioms=['A-FINSUM-UPDATE', 'TOT-def', 'WSUM-empty'],
    checkpoints={'comp = {}': [('empty', 'TOT(comp) == 0')],
                 'comp[element_symbol] = element_count': [('atoms', 'TOT(comp) == element_count * AW(element_symbol)'),
                                                          ('electron-entry-so-far', "comp.get('e', 0) == (element_count if element_symbol == 'e' else 0)")],
                 "comp['e'] =": [('atoms-and-electrons', "TOT(comp) == element_count * AW(element_symbol) + "
                                  "((-1 * element_charge * element_count) - (element_count if element_symbol == 'e' else 0)) * AW('e')")]},
    ensures=[('n-atoms-and-the-electrons-of-n-ions',
              # n * AW(X) + (-q*n) * AW('e') for an element X; written so that X == 'e' (the electron entry is then OVERWRITTEN by -q*n)
              # is covered without asking the solver for distributivity: n*AW(e) + (-q*n - n)*AW(e)
              "TOT(result) == parse_ion_elements(adduct)[0] * AW(parse_ion_elements(adduct)[1]) + "
              "((-1 * parse_ion_elements(adduct)[2] * parse_ion_elements(adduct)[0]) - "
              "(parse_ion_elements(adduct)[0] if parse_ion_elements(adduct)[1] == 'e' else 0)) * AW('e')")])
C[CC + '_parse_charge_adducts_comp@default'] = dict(
    params=dict(adducts='str'), returns='Comp', pure=True, locals=dict(comps='List[Comp]', composition='Comp'),
    ghost=dict(parts="adducts.split(',')"),
    ensures=[('sum-over-the-comma-separated-ions', "TOT(result) == psum(lambda a: TOT(_parse_adduct_comp(a)), parts, len(parts))")],
    invariants={0: [('one-composition-per-ion', 'len(comps) == _k0 and forall(lambda j: implies(0 <= j and j < _k0, comps[j] == _parse_adduct_comp(parts[j])))')],
                1: [('ions-merged-so-far', 'TOT(composition) == psum(lambda a: TOT(_parse_adduct_comp(a)), parts, _k1)')],
                2: [('entries-added-so-far', 'TOT(composition) == TOT(composition_at2) + WSUM(comp, _seen2)')]},
)
C[CC + '_parse_charge_adducts_comp@adducts'] = dict(
    params=dict(adducts='ModList_item'), returns='Comp', pure=True, trusted=True,
    bounded_by='composition of an adduct entry: bounded/C03.py (adduct lists)', ensures=[])


def _inner(acc, src, o):
    """for k, v in <src>.items(): acc[k] = acc.get(k, 0) + v  -- the total grows by the part of <src> seen so far"""
    return [('entries-added-so-far', 'TOT(%s) == TOT(%s_at%d) + WSUM(%s, _seen%d)' % (acc, acc, o, src, o))]


def _outer(acc, lst, o):
    """for x in <list of modifications>: (inner loop over mod_comp(x))"""
    return [('modifications-so-far', 'TOT(%s) == TOT(%s_at%d) + psum(lambda x: %s, %s, _k%d)' % (acc, acc, o, _MC, lst, o))]


_SEQ = 'annotation._sequence'
_IVS = 'some(annotation._intervals)'
_IVSUM = '(0 if annotation._intervals is None else psum(lambda iv: omc(iv.mods), ' + _IVS + ', len(' + _IVS + ')))'
_IM = '(0 if annotation._internal_mods is None else DSUMC(some(annotation._internal_mods), set(some(annotation._internal_mods))))'
_RES = 'psum(lambda aa: TOT(AA_COMPOSITIONS[aa]), ' + _SEQ + ', len(' + _SEQ + '))'
_Q = '(0 if annotation._charge is None else some(annotation._charge))'
_INV = {
    0: [('residues-so-far', 'TOT(sequence_composition) == psum(lambda aa: TOT(AA_COMPOSITIONS[aa]), ' + _SEQ + ', _k0)'),
        ('residues-so-far-are-in-the-table', 'forall(lambda j: implies(0 <= j and j < _k0, ' + _SEQ + '[j] in AA_COMPOSITIONS))')],
    1: _inner('sequence_composition', 'aa_comp', 1),
    2: _inner('sequence_composition', 'NEUTRAL_FRAGMENT_COMPOSITION_ADJUSTMENTS[ion_type]', 2),
    3: _inner('sequence_composition', 'charge_adduct_comp', 3),
    4: _outer('mod_composition', 'some(annotation._unknown_mods)', 4),
    5: _inner('mod_composition', 'mod_comp(unknown_mod)', 5),
    6: [('intervals-so-far', 'TOT(mod_composition) == TOT(mod_composition_at6) + psum(lambda iv: omc(iv.mods), ' + _IVS + ', _k6)')],
    7: _outer('mod_composition', 'some(interval.mods)', 7),
    8: _inner('mod_composition', 'mod_comp(interval_mod)', 8),
    9: _outer('mod_composition', 'some(annotation._labile_mods)', 9),
    10: _inner('mod_composition', 'mod_comp(labile_mod)', 10),
    11: _outer('mod_composition', 'some(annotation._nterm_mods)', 11),
    12: _inner('mod_composition', 'mod_comp(nterm_mod)', 12),
    13: _outer('mod_composition', 'some(annotation._cterm_mods)', 13),
    14: _inner('mod_composition', 'mod_comp(cterm_mod)', 14),
    15: [('residue-mods-so-far', 'TOT(mod_composition) == TOT(mod_composition_at15) + DSUMC(some(annotation._internal_mods), _seen15)')],
    16: _outer('mod_composition', 'internal_mods', 16),
    17: _inner('mod_composition', 'mod_comp(internal_mod)', 17),
    25: _inner('composition', 'sequence_composition', 25),
    26: _inner('composition', 'mod_composition', 26),
}
for _o in (18, 19, 20, 21, 22, 23, 24):          # the static-rule loops: not reached (requires no static rules)
    _INV[_o] = [('unreached', 'True')]

_CA_DEFAULT = ("(py_str(" + _Q + ") + 'H+' if (ion_type == 'p' or ion_type == 'n') else "
               "py_str(" + _Q + " - 1) + 'H+,' + FRAGMENT_ION_BASE_CHARGE_ADDUCTS[ion_type])")
_S = ['omc(annotation._unknown_mods)', _IVSUM, 'omc(annotation._labile_mods)',
      'omc(annotation._nterm_mods)', 'omc(annotation._cterm_mods)', _IM, "isotope * AW('n')"]
_UNL = 'annotation._isotope_mods is None'
_R3 = _RES + ' + TOT(NEUTRAL_FRAGMENT_COMPOSITION_ADJUSTMENTS[ion_type]) + TOT(_parse_charge_adducts_comp(CA))'


def _mside(n):
    # proved from the facts about the accumulator alone (its previous total, the loop-exit facts): the rest of the path condition (string
    # facts about the charge-carrier text, the residue side) is dropped -- sound, and it keeps the query small
    return [('modification-side-%d' % n, 'TOT(mod_composition) == ' + ' + '.join(_S[:n]), dict(only_about=['mod_composition']))]


# cuts after the top-level statements (proved there, then assumed): the running totals of the two accumulators
_CHECKPOINTS = {
    'for aa in annotation.sequence': [('residue-side-1', 'TOT(sequence_composition) == ' + _RES)],
    'NEUTRAL_FRAGMENT_COMPOSITION_ADJUSTMENTS[ion_type].items()':
        [('residue-side-2', 'TOT(sequence_composition) == ' + _RES + ' + TOT(NEUTRAL_FRAGMENT_COMPOSITION_ADJUSTMENTS[ion_type])')],
    'for k, v in charge_adduct_comp.items()': [('residue-side-3', 'TOT(sequence_composition) == ' + _R3)],
    'annotation.has_unknown_mods()': _mside(1),
    'annotation.has_intervals()': _mside(2),
    'annotation.has_labile_mods()': _mside(3),
    'annotation.has_nterm_mods()': _mside(4),
    'annotation.has_cterm_mods()': _mside(5),
    'annotation.has_internal_mods()': _mside(6),
    "mod_composition['n']": _mside(7),
    'annotation.has_isotope_mods()': [('unlabelled-both-sides', 'implies(' + _UNL + ', TOT(sequence_composition) == ' + _R3 +
                                      ' and TOT(mod_composition) == ' + ' + '.join(_S) + ')')],
    'for k, v in sequence_composition.items()': [('merged-1', 'TOT(composition) == TOT(sequence_composition)')],
    'for k, v in mod_composition.items()': [('merged-2', 'TOT(composition) == TOT(sequence_composition) + TOT(mod_composition)')],
    # dropping the zero entries does not change the total (A-FINSUM-EXT0), isolated from the arithmetic of the postcondition
    'composition = {k: v for k, v in composition.items()': [('zero-entries-dropped', 'TOT(composition) == TOT(sequence_composition) + TOT(mod_composition)', dict(only_about=['composition']))],
}
_TOTAL = _R3 + ' + ' + ' + '.join(_S)
_PARAMS = dict(annotation='Annotation', ion_type='str', isotope='int', use_isotope_on_mods='bool')
_COMMON = dict(
    params=_PARAMS, returns='Comp', pure=True, merge_ifs=True,
    locals=dict(sequence_composition='Comp', mod_composition='Comp', composition='Comp', static_map='StaticMap'),
    raises={'AmbiguousAminoAcidError': "('B' in annotation._sequence) or ('Z' in annotation._sequence)",
            'UnknownAminoAcidError': "not (('B' in annotation._sequence) or ('Z' in annotation._sequence)) and "
                                     'exists(lambda k: 0 <= k and k < len(annotation._sequence) and not (annotation._sequence[k] in AA_COMPOSITIONS))'},
    invariants=_INV, checkpoints=_CHECKPOINTS,
)
_REQ = [('no-static-rules', 'annotation._static_mods is None'),
        # what the only caller, comp_mass(), establishes: labile modifications are taken off for every ion type but the precursor
        # (so the function's own `ion_type == 'p'` guard on the labile loop may stay or go)
        ('labile-only-for-the-precursor', "ion_type == 'p' or annotation._labile_mods is None"),
        ('known-ion-type', "(ion_type in NEUTRAL_FRAGMENT_COMPOSITION_ADJUSTMENTS) and (ion_type == 'p' or ion_type == 'n' or (ion_type in FRAGMENT_ION_BASE_CHARGE_ADDUCTS))")]
_ENS = [('sum-of-the-parts', 'implies(annotation._isotope_mods is None, TOT(result) == ' + _TOTAL + ')'),
        ('no-zero-entries', 'forall(lambda k=str: implies(k in result, result[k] != 0))')]
C[CC + '_sequence_comp@default'] = dict(
    _COMMON, ghost=dict(CA=_CA_DEFAULT),
    requires=_REQ + [('no-adducts-written', 'annotation._charge_adducts is None')], ensures=_ENS)
C[CC + '_sequence_comp@adducts'] = dict(
    _COMMON, ghost=dict(CA='items(some(annotation._charge_adducts))[0]'),
    requires=_REQ + [('adducts-written', 'annotation._charge_adducts is not None and len(items(some(annotation._charge_adducts))) > 0')], ensures=_ENS)

# ---------------------------------------------------------------- comp(): the composition with the residual mass shift absorbed by the averagine estimate
MCQ = 'peptacular.mass_calc:'
C[MCQ + 'comp_mass'] = dict(
    params=dict(sequence='Annotation', ion_type='str', charge='Optional[int]', isotope='int', charge_adducts='Optional[ModList_item]',
                isotope_mods='Optional[ModList]', use_isotope_on_mods='bool'),
    returns='Tuple[Comp,real]', pure=True, trusted=True, raises={'ValueError': None},
    bounded_by='composition + residual of a peptide: _sequence_comp proved above; the glue (copy, setters, condensing, popping the mass shifts) bounded/C03.py', ensures=[])
C[CC + 'estimate_comp'] = dict(params=dict(neutral_mass='real', isotopic_mods='Optional[ModList]'), returns='Comp', pure=True, trusted=True,
                               bounded_by='averagine estimate of a mass (ratios x mass / averagine mass): same monoisotopic mass checked by bounded/C03.py', ensures=[])
_CMC = 'comp_mass(sequence, ion_type, charge, isotope, charge_adducts, isotope_mods, use_isotope_on_mods)'
C[MCQ + 'comp'] = dict(
    params=dict(sequence='Annotation', ion_type='str', estimate_delta='bool', charge='Optional[int]', isotope='int', charge_adducts='Optional[ModList_item]',
                isotope_mods='Optional[ModList]', use_isotope_on_mods='bool'),
    returns='Comp', pure=True, locals=dict(composition='Comp', delta_mass_comp='Comp'),
    axioms=['WSUM-empty', 'WSUM-insert', 'TOT-def', 'A-FINSUM-UPDATE'],
    raises={'ValueError': None}, raises_inexact=True,
    ensures=[('no-residual-the-composition-itself', 'implies(' + _CMC + '[1] == 0, result == ' + _CMC + '[0])'),
             ('a-residual-is-refused-unless-estimation-is-asked-for', 'implies(' + _CMC + '[1] != 0, estimate_delta)'),
             ('the-estimate-of-the-residual-is-added',
              'implies(' + _CMC + '[1] != 0, TOT(result) == TOT(' + _CMC + '[0]) + '
              'TOT(estimate_comp(' + _CMC + '[1], (sequence._isotope_mods if use_isotope_on_mods else None))))')],
    invariants={0: [('estimate-entries-added-so-far', 'TOT(composition) == TOT(composition_at0) + WSUM(delta_mass_comp, _seen0)')]},
)
