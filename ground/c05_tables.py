"""Ground obligations for C05: the real ion-offset tables against chemistry computed from the independent atomic masses.
Each identity is one obligation, evaluated in exact rational arithmetic on the real table values (floats read exactly)."""
from fractions import Fraction as F
from specs import nist
from pyvc.execute import dump_globals

TOL = F('1e-5')


def run(repo, tier):
    g = dump_globals({'peptacular.mass_calc': ['PROTON_MASS', 'MONOISOTOPIC_FRAGMENT_ION_ADJUSTMENTS', 'AVERAGE_FRAGMENT_ION_ADJUSTMENTS',
                                               'MONOISOTOPIC_FRAGMENT_ADJUSTMENTS', 'AVERAGE_FRAGMENT_ADJUSTMENTS']}, repo)
    out = dict(obligations=0, discharged=0, backend='ground-exact-rational', samples=[], violations=[],
               assumptions=['C05 oracle: CO, NH3, H2, H2O and the proton from specs/nist.py (typed in, independent of /repo)'])
    proton = nist.PROTON
    for mono in (True, False):
        frag = g['MONOISOTOPIC_FRAGMENT_ADJUSTMENTS' if mono else 'AVERAGE_FRAGMENT_ADJUSTMENTS']
        ion = g['MONOISOTOPIC_FRAGMENT_ION_ADJUSTMENTS' if mono else 'AVERAGE_FRAGMENT_ION_ADJUSTMENTS']
        T = {k: F(repr(frag[k])) + F(repr(ion[k])) if False else F(float(frag[k]).hex() and frag[k]).limit_denominator(10**18) for k in frag}
        T = {k: F(*float(frag[k]).as_integer_ratio()) + F(*float(ion[k]).as_integer_ratio()) for k in frag}
        cm = lambda c: nist.comp_mass(c, mono)
        CO, NH3, H2, H2O = cm(dict(C=1, O=1)), cm(dict(N=1, H=3)), cm(dict(H=2)), cm(dict(H=2, O=1))
        off = dict(a=-CO, b=F(0), c=NH3, x=CO - H2, y=F(0), z=-NH3)
        checks = [
            ('b+y == M + 2 protons', T['b'] + T['y'], H2O + 2 * proton),
            ('a == b - CO', T['a'], T['b'] - CO), ('c == b + NH3', T['c'], T['b'] + NH3),
            ('x == y + CO - H2', T['x'], T['y'] + CO - H2), ('z == y - NH3', T['z'], T['y'] - NH3),
            ('immonium == residue - CO + proton', T['i'], -CO + proton),
        ]
        for X in 'abc':
            for Y in 'xyz':
                checks.append((f'internal {X}{Y} == span + proton + offset({X}) + offset({Y})', T[X + Y], proton + off[X] + off[Y]))
        # the proton constant itself
        checks.append(('PROTON_MASS == CODATA proton', F(*float(g['PROTON_MASS']).as_integer_ratio()), proton))
        for name, got, exp in checks:
            out['obligations'] += 1
            nm = f'tables#ground[{name}]:{"mono" if mono else "average"}'
            ok = abs(got - exp) <= TOL
            if ok:
                out['discharged'] += 1
            else:
                key = None
                if not mono and abs(abs(got - exp) - abs(nist.avg('H') - nist.mono('H'))) < F('2e-6') or \
                        (not mono and 'b+y' in name):
                    key = 'C05-average-carrier-hydrogen'
                if name.startswith('internal') and name.split()[1] in ('ax', 'az', 'bx', 'bz'):
                    key = 'C05-internal-xz-one-hydrogen'
                out['violations'].append(dict(obligation=nm, key=nm.split(':')[0], finding_key=key, ground=True, clause=name, fn='tables',
                                              expected=float(exp), observed=float(got), input=dict(mode='mono' if mono else 'average'),
                                              confirmed=True))
            if len(out['samples']) < 4:
                out['samples'].append(dict(obligation=nm, verdict='proved' if ok else 'refuted', expected=float(exp), observed=float(got)))
    return out
