"""Ground obligations for C03: the three representations of each ion type's ionisation offset agree --
FRAGMENT_ION_BASE_CHARGE_ADDUCTS (text, used by the composition path), FRAGMENT_ION_COMPOSITIONS (composition) and the
precomputed MONOISOTOPIC_FRAGMENT_ION_ADJUSTMENTS (mass, used by the mass path).  Exact rational arithmetic."""
import re
from fractions import Fraction as F
from specs import nist
from pyvc.execute import dump_globals


def run(repo, tier):
    g = dump_globals({'peptacular.constants': ['FRAGMENT_ION_BASE_CHARGE_ADDUCTS', 'FRAGMENT_ION_COMPOSITIONS'],
                      'peptacular.mass_calc': ['MONOISOTOPIC_FRAGMENT_ION_ADJUSTMENTS']}, repo)
    out = dict(obligations=0, discharged=0, backend='ground-exact-rational', samples=[], violations=[], assumptions=[])
    for ion, text in g['FRAGMENT_ION_BASE_CHARGE_ADDUCTS'].items():
        comp = {}
        for a in [x for x in text.split(',') if x]:
            m = re.fullmatch(r'([+-])(\d*)([A-Za-z]+)(\d*)([+-])', a)
            cnt = (1 if m.group(1) == '+' else -1) * (int(m.group(2)) if m.group(2) else 1)
            z = (int(m.group(4)) if m.group(4) else 1) * (1 if m.group(5) == '+' else -1)
            if m.group(3) == 'e':
                comp['e'] = comp.get('e', 0) + cnt
            else:
                comp[m.group(3)] = comp.get(m.group(3), 0) + cnt
                comp['e'] = comp.get('e', 0) - cnt * z
        comp = {k: v for k, v in comp.items() if v}
        want = {k: v for k, v in g['FRAGMENT_ION_COMPOSITIONS'][ion].items() if v}
        for name, ok, exp, obs in (
                (f'adduct text of {ion} denotes its ion composition', comp == want, want, comp),
                (f'precomputed offset of {ion} == mass of its ion composition',
                 abs(F(*float(g['MONOISOTOPIC_FRAGMENT_ION_ADJUSTMENTS'][ion]).as_integer_ratio()) - nist.comp_mass(want, True)) <= F('1e-6'),
                 float(nist.comp_mass(want, True)), g['MONOISOTOPIC_FRAGMENT_ION_ADJUSTMENTS'][ion])):
            out['obligations'] += 1
            nm = f'ion-tables#ground[{name}]'
            if ok:
                out['discharged'] += 1
            else:
                out['violations'].append(dict(obligation=nm, key=nm, finding_key=None, ground=True, clause=name, fn='tables', expected=exp,
                                              observed=obs, input=dict(ion=ion), confirmed=True))
            if len(out['samples']) < 3:
                out['samples'].append(dict(obligation=nm, verdict='proved' if ok else 'refuted'))
    # the per-part link between the two calculators (L-CM for the tables): mass() adds the residue MASS tables and the precomputed neutral
    # ion-type adjustment, _sequence_comp adds the residue COMPOSITION table and the neutral composition adjustment -- each mass entry must
    # be the mass of the corresponding composition under the library's own atomic tables (exact rational arithmetic, 1e-9)
    t = dump_globals({'peptacular.constants': ['AA_COMPOSITIONS', 'NEUTRAL_FRAGMENT_COMPOSITION_ADJUSTMENTS', 'ISOTOPIC_ATOMIC_MASSES',
                                               'AVERAGE_ATOMIC_MASSES'],
                      'peptacular.chem.chem_constants': ['MONOISOTOPIC_AA_MASSES', 'AVERAGE_AA_MASSES'],
                      'peptacular.mass_calc': ['MONOISOTOPIC_FRAGMENT_ADJUSTMENTS', 'AVERAGE_FRAGMENT_ADJUSTMENTS']}, repo)
    ex = lambda x: F(*float(x).as_integer_ratio())

    def cmass(comp, table):
        return sum((ex(v) * ex(t[table][k]) for k, v in comp.items()), F(0))

    checks = []
    for aa in sorted(set(t['AA_COMPOSITIONS']) | set(t['MONOISOTOPIC_AA_MASSES']) | set(t['AVERAGE_AA_MASSES'])):
        for mode, mt, at in (('monoisotopic', 'MONOISOTOPIC_AA_MASSES', 'ISOTOPIC_ATOMIC_MASSES'), ('average', 'AVERAGE_AA_MASSES', 'AVERAGE_ATOMIC_MASSES')):
            name = f'{mode} mass of residue {aa} == mass of its table composition'
            if aa not in t['AA_COMPOSITIONS'] or aa not in t[mt]:
                checks.append((name, False, 'residue in both tables', 'missing in one', dict(residue=aa)))
                continue
            want = cmass(t['AA_COMPOSITIONS'][aa], at)
            checks.append((name, abs(ex(t[mt][aa]) - want) <= F('1e-9'), float(want), t[mt][aa], dict(residue=aa)))
    for ion in sorted(t['NEUTRAL_FRAGMENT_COMPOSITION_ADJUSTMENTS']):
        for mode, mt, at in (('monoisotopic', 'MONOISOTOPIC_FRAGMENT_ADJUSTMENTS', 'ISOTOPIC_ATOMIC_MASSES'),
                             ('average', 'AVERAGE_FRAGMENT_ADJUSTMENTS', 'AVERAGE_ATOMIC_MASSES')):
            name = f'{mode} neutral adjustment of ion type {ion} == mass of its composition adjustment'
            if ion not in t[mt]:
                checks.append((name, False, 'ion type in both tables', 'missing in the mass table', dict(ion=ion)))
                continue
            want = cmass(t['NEUTRAL_FRAGMENT_COMPOSITION_ADJUSTMENTS'][ion], at)
            checks.append((name, abs(ex(t[mt][ion]) - want) <= F('1e-9'), float(want), t[mt][ion], dict(ion=ion)))
    # the averagine mass is the monoisotopic mass of the averagine ratios: estimate_comp(m) = ratios x m / that mass then weighs m
    a = dump_globals({'peptacular.constants': ['AVERAGINE_RATIOS'], 'peptacular.chem.chem_constants': ['ISOTOPIC_AVERAGINE_MASS']}, repo)
    want = sum((ex(v) * ex(t['ISOTOPIC_ATOMIC_MASSES'][k]) for k, v in a['AVERAGINE_RATIOS'].items()), F(0))
    checks.append(('averagine mass == monoisotopic mass of the averagine ratios', abs(ex(a['ISOTOPIC_AVERAGINE_MASS']) - want) <= F('1e-9'),
                   float(want), a['ISOTOPIC_AVERAGINE_MASS'], dict(table='AVERAGINE_RATIOS')))
    for name, ok, exp, obs, inp in checks:
        out['obligations'] += 1
        nm = f'part-tables#ground[{name}]'
        if ok:
            out['discharged'] += 1
        else:
            out['violations'].append(dict(obligation=nm, key=nm, finding_key=None, ground=True, clause=name, fn='tables', expected=exp,
                                          observed=obs, input=inp, confirmed=True))
    return out
