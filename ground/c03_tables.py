"""Ground obligations for C03: the three representations of each ion type's ionisation offset agree --
FRAGMENT_ION_BASE_CHARGE_ADDUCTS (text, used by the composition path), FRAGMENT_ION_COMPOSITIONS (composition) and the
precomputed MONOISOTOPIC_FRAGMENT_ION_ADJUSTMENTS (mass, used by the mass path).  Exact rational arithmetic."""
import re
from fractions import Fraction as F
from specs import nist
from pyvc.execute import dump_globals


def run(repo, tier):
    g = dump_globals({'peptacular.constants': ['FRAGMENT_ION_BASE_CHARGE_ADDUCTS', 'FRAGMENT_ION_COMPOSITIONS'],
                      'peptacular.mass_calc': ['MONOISOTOPIC_FRAGMENT_ION_ADJUSTMENTS']}, repo)
    out = dict(obligations=0, discharged=0, backend='ground-exact-rational', samples=[], violations=[], assumptions=[])
    for ion, text in g['FRAGMENT_ION_BASE_CHARGE_ADDUCTS'].items():
        comp = {}
        for a in [x for x in text.split(',') if x]:
            m = re.fullmatch(r'([+-])(\d*)([A-Za-z]+)(\d*)([+-])', a)
            cnt = (1 if m.group(1) == '+' else -1) * (int(m.group(2)) if m.group(2) else 1)
            z = (int(m.group(4)) if m.group(4) else 1) * (1 if m.group(5) == '+' else -1)
            if m.group(3) == 'e':
                comp['e'] = comp.get('e', 0) + cnt
            else:
                comp[m.group(3)] = comp.get(m.group(3), 0) + cnt
                comp['e'] = comp.get('e', 0) - cnt * z
        comp = {k: v for k, v in comp.items() if v}
        want = {k: v for k, v in g['FRAGMENT_ION_COMPOSITIONS'][ion].items() if v}
        for name, ok, exp, obs in (
                (f'adduct text of {ion} denotes its ion composition', comp == want, want, comp),
                (f'precomputed offset of {ion} == mass of its ion composition',
                 abs(F(*float(g['MONOISOTOPIC_FRAGMENT_ION_ADJUSTMENTS'][ion]).as_integer_ratio()) - nist.comp_mass(want, True)) <= F('1e-6'),
                 float(nist.comp_mass(want, True)), g['MONOISOTOPIC_FRAGMENT_ION_ADJUSTMENTS'][ion])):
            out['obligations'] += 1
            nm = f'ion-tables#ground[{name}]'
            if ok:
                out['discharged'] += 1
            else:
                out['violations'].append(dict(obligation=nm, key=nm, finding_key=None, ground=True, clause=name, fn='tables', expected=exp,
                                              observed=obs, input=dict(ion=ion), confirmed=True))
            if len(out['samples']) < 3:
                out['samples'].append(dict(obligation=nm, verdict='proved' if ok else 'refuted'))
    return out
